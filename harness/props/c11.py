"""C11 - a self-play transcript is a legal game with correct outcome labels.

Correspondence: the real self_play.play_one_game is run with (a) scripted
engines that force chosen legal lines into every ending class, (b) free-running
scripted engines (random legal candidates, dyadic distributions, real
torch.multinomial) and (c) the real mcts.MCTS with uniform / random evaluators.
A recorder around the engine notes, per analysed position, what the loop reads
(candidate moves, tree_probs, value, simulations, v_zero) and the index
torch.multinomial returned; that stream is handed to the Coq model
(model/SelfPlay.v play_one_game) and the transcript it computes is compared,
inside Coq, with the transcript the implementation produced (positions,
candidate lists, probabilities, values, result, Transcript.results,
Transcript.logits)."""
import contextlib
import hashlib
import json
from fractions import Fraction

from .. import core, takio
from ..core import cz, clist, copt

ID = "C11"
THEOREMS = ["C11_lists_aligned", "C11_rows_are_engine_answers", "C11_transcript_chain", "C11_candidates_legal",
            "C11_recorded_rows_good", "C11_stops_exactly", "C11_result_correct", "C11_labels_correct",
            "C11_labels_by_parity", "C11_errors_excluded", "C11_loop_is_relation",
            "C11_answer_of_tree_reads", "C11_real_engine_transcript_legal", "C11_real_engine_rows_partial",
            "C11_real_engine_answers_good_partial", "C11_real_engine_exact_solver_rows_partial",
            "C11_transcript_positions_wf", "C11_transcript_positions_encodable",
            "C11_source_play_one_game_eq", "C11_source_play_outcomes", "C11_source_results_eq", "C11_source_logits_agrees", "C11_source_transcript_chain", "C11_source_stops_exactly", "C11_source_result_correct", "C11_source_labels_correct", "C11_source_real_engine"]
MODEL_TARGETS = ["model/Tak.vo", "model/Road.vo", "model/SelfPlay.vo", "model/Harness.vo", "model/Lit.vo"]
TRUSTED_BASE = [
    "the engine is an input stream: per analysed position the recorder reads [c.move for c in tree.children], "
    "tree_probs(tree), tree.value, tree.simulations, tree.v_zero and the value torch.multinomial returned "
    "(harness recorder; validated by comparing every recorded position, list and label with the model's)",
    "the next position is modelled as move(position, picked candidate) where the code takes tree.children[idx].position "
    "(C08 proves the two agree for the real engine; the correspondence compares every position)",
    "Python float arithmetic enters only in tree.value / tree.simulations (compared within 2^-52 relative) and in the "
    "comparisons abs(v_zero) >= threshold, v_zero >= threshold, which are exact on the rationals the floats denote",
]
ASSUMPTIONS = [
    "theorems are stated for runs that end in `Done` (the engine answers as long as the loop asks, simulations > 0, the "
    "sampled index is inside the candidate list, the picked candidate is legal); C11_errors_excluded states when the "
    "error outcomes cannot occur",
    "legality of all candidates, probs being a distribution and |value| <= simulations are hypotheses on the engine "
    "(supplied by C08/C09), carried to the transcript by C11_candidates_legal / C11_recorded_rows_good",
]

HEADER = """From Coq Require Import ZArith QArith Qabs List Bool.
From TV Require Import model.Tak model.Road model.Lit model.SelfPlay.
Import ListNotations.
Definition A := mkAns.
Definition close52 (obs ex : Q) : bool := Qle_bool (Qabs (obs - ex)) (Qabs ex * (1 # 4503599627370496)).
Fixpoint sparse_from (i : Z) (row : list Q) : list (Z * Q) :=
  match row with
  | [] => []
  | x :: t => if Qeq_bool x 0 then sparse_from (i + 1)%Z t else (i, x) :: sparse_from (i + 1)%Z t
  end.
Definition sparse (row : list Q) : list (Z * Q) := sparse_from 0%Z row.
Definition zq_eqb (a b : Z * Q) : bool := (fst a =? fst b)%Z && Qeq_bool (snd a) (snd b).
Definition obs := (list position * list (list mv) * list (list Q) * list Q * option (option color) * list Z *
                   option (list (list (Z * Q))))%type.
Definition view (c : Z * Q * Z * list answer * obs) :=
  let '(sz, thr, lim, s, _) := c in
  match play_one_game (mkSp sz thr lim) s with
  | Done tr e f => (Some (map ply (t_positions tr), t_result tr, results tr, e), None)
  | Err e => (None, Some e)
  end.
Definition chk11 (c : Z * Q * Z * list answer * obs) : bool :=
  let '(sz, thr, lim, s, (ps, ms, prs, vs, res, labs, lg)) := c in
  match play_one_game (mkSp sz thr lim) s with
  | Done tr _ _ =>
      list_eqb position_eqb (t_positions tr) ps && list_eqb (list_eqb mv_eqb) (t_moves tr) ms &&
      list_eqb (list_eqb Qeq_bool) (t_probs tr) prs && list_eqb close52 vs (t_values tr) &&
      match res with Some r => opt_eqb color_eqb (t_result tr) r | None => false end &&
      list_eqb Z.eqb (results tr) labs &&
      opt_eqb (list_eqb (list_eqb zq_eqb)) (option_map (map sparse) (logits tr)) lg
  | Err _ => false
  end."""
CTYPE = "Z * Q * Z * list answer * obs"
# play_one_game RAISED in torch.multinomial because the search returned a root without candidates: the model's outcome
# on the recorded answers (the last one has no candidate, the sampled index is absent) must be the BadIndex error
CHK_RAISE = ("fun c => let '(sz, thr, lim, s, _) := c in "
             "match play_one_game (mkSp sz thr lim) s with Err BadIndex => true | _ => false end")


def cq(fr):
    fr = Fraction(fr)
    return f"(Qmake {cz(fr.numerator)} {fr.denominator})"


def fr_of(x):
    """exact rational denoted by a Python / numpy / torch scalar"""
    if isinstance(x, Fraction):
        return x
    if isinstance(x, int):
        return Fraction(x)
    return Fraction(float(x))


def jq(fr):
    fr = Fraction(fr)
    return [fr.numerator, fr.denominator]


# --------------------------------------------------------------------------
# engines
# --------------------------------------------------------------------------
class _Node:
    """node-like object: what play_one_game reads from a search tree"""
    def __init__(self, position, move=None):
        self.position, self.move = position, move
        self.children = None
        self.v_zero, self.value, self.simulations = 0.0, 0.0, 0


class ScriptedEngine:
    """forces a line: step i = dict(cands=[Move], probs=[float], value=float, sims=int, v_zero=float, pick=int)"""
    def __init__(self, steps):
        from tak import mcts
        self.steps, self.i = steps, 0
        self.stats = mcts.Stats()
        self.forced_picks = []

    def analyze(self, position):
        st = self.steps[self.i]
        self.i += 1
        node = _Node(position)
        node.children = []
        for m in st["cands"]:
            c = _Node(position.move(m), m)
            node.children.append(c)
        node.v_zero, node.value, node.simulations = st["v_zero"], st["value"], st["sims"]
        node._probs = st["probs"]
        self.forced_picks.append(st["pick"])
        self.stats.calls += 1
        return node

    def tree_probs(self, tree):
        import torch
        return torch.tensor(tree._probs, dtype=torch.float32)


class FreeEngine:
    """free-running: random legal candidates, dyadic distribution, random v_zero; the real sampler picks"""
    def __init__(self, rng, vz_pool, max_cands=5):
        from tak import mcts
        self.rng, self.vz_pool, self.max_cands = rng, vz_pool, max_cands
        self.stats = mcts.Stats()

    def analyze(self, position):
        legal = _some_legal(position, self.rng, self.rng.randint(1, self.max_cands))
        node = _Node(position)
        node.children = [_Node(q, m) for (m, q) in legal]
        node._probs = _dyadic_dist(self.rng, len(legal))
        node.simulations = self.rng.choice([1, 2, 4, 8, 16, 3, 7])
        node.value = self.rng.randint(-node.simulations * 4, node.simulations * 4) / 4.0
        node.v_zero = self.rng.choice(self.vz_pool)
        self.stats.calls += 1
        return node

    def tree_probs(self, tree):
        import torch
        return torch.tensor(tree._probs, dtype=torch.float32)


class _TooLong(Exception):
    """raised by the recorder when play_one_game asks for more analyses than any game within the ply limit can need"""


class Recorder:
    """wraps an engine; notes what play_one_game reads from it"""
    def __init__(self, inner, max_calls=None):
        self.inner = inner
        self.max_calls = max_calls
        self.rows = []          # per analyze: dict(position, node, probs)
        self.picks = []         # values torch.multinomial returned to play_one_game
        self.in_analyze = False

    @property
    def stats(self):
        return self.inner.stats

    @stats.setter
    def stats(self, v):
        self.inner.stats = v

    def analyze(self, position):
        if self.max_calls is not None and len(self.rows) >= self.max_calls:
            raise _TooLong(f"{len(self.rows)} positions analysed with ply_limit {self.max_calls - 3}: the game does not stop")
        self.in_analyze = True
        try:
            node = self.inner.analyze(position)
        finally:
            self.in_analyze = False
        self.rows.append({"position": position, "node": node, "cands": None, "probs": None})
        return node

    def tree_probs(self, tree):
        self.in_analyze = True
        try:
            t = self.inner.tree_probs(tree)
        finally:
            self.in_analyze = False
        row = self.rows[-1]
        row["probs"] = [fr_of(x) for x in t.tolist()]
        row["cands"] = [c.move for c in tree.children]
        row["value"], row["sims"], row["v_zero"] = fr_of(tree.value), int(tree.simulations), fr_of(tree.v_zero)
        return t


@contextlib.contextmanager
def _patched_multinomial(rec, forced=None):
    """record (or force) the index torch.multinomial hands to play_one_game; calls made inside the engine pass through"""
    import torch
    orig = torch.multinomial

    def wrapper(probs, n, *a, **k):
        if rec.in_analyze:
            return orig(probs, n, *a, **k)
        if forced is not None:
            idx = forced[len(rec.picks)]
            out = torch.tensor([idx])
        else:
            out = orig(probs, n, *a, **k)
        rec.picks.append(int(out.item()))
        return out

    torch.multinomial = wrapper
    try:
        yield
    finally:
        torch.multinomial = orig


def _some_legal(p, rng, k):
    import tak
    ms = list(p.all_moves())
    rng.shuffle(ms)
    out = []
    for m in ms:
        try:
            out.append((m, p.move(m)))
        except tak.IllegalMove:
            continue
        if len(out) >= k:
            break
    return out


def _dyadic_dist(rng, k):
    """k weights j/64 summing to 1 (exact in float32)"""
    w = [1] * k
    for _ in range(64 - k):
        w[rng.randrange(k)] += 1
    if k > 1 and rng.random() < 0.3:       # some zero entries
        j = rng.randrange(k)
        i = (j + 1) % k
        w[i] += w[j]
        w[j] = 0
    return [x / 64.0 for x in w]


# --------------------------------------------------------------------------
# lines (sequences of legal moves from the initial position)
# --------------------------------------------------------------------------
def _playout(rng, n, pbias, maxlen=140):
    import tak
    p = tak.Position.from_config(tak.Config(size=n))
    line = []
    while True:
        c, why = p.winner()
        if why is not None or len(line) >= maxlen:
            return line, p
        ms = list(p.all_moves())
        rng.shuffle(ms)
        pl = [m for m in ms if not m.type.is_slide()]
        sl = [m for m in ms if m.type.is_slide()]
        q = None
        for m in ((pl + sl) if rng.random() < pbias else (sl + pl)):
            try:
                q = p.move(m)
                break
            except tak.IllegalMove:
                continue
        line.append(m)
        p = q


def _road_line(n, white_wins):
    """White (or Black) completes the row y = 0"""
    import tak
    F, S = tak.MoveType.PLACE_FLAT, tak.MoveType.PLACE_STANDING
    line = []
    if white_wins:
        line += [tak.Move(0, n - 1, F), tak.Move(0, 0, F)]
        for i in range(1, n):
            line.append(tak.Move(i, 0, F))
            line.append(tak.Move(i, n - 1, F))
        return line[:2 + 2 * (n - 1) - 1]
    line += [tak.Move(0, 0, F), tak.Move(0, n - 1, F)]
    for i in range(1, n):
        line.append(tak.Move(i, n - 1, S))
        line.append(tak.Move(i, 0, F))
    return line


def _positions_of(n, line):
    import tak
    p = tak.Position.from_config(tak.Config(size=n))
    out = [p]
    for m in line:
        p = p.move(m)
        out.append(p)
    return out


def _ending(p):
    c, why = p.winner()
    if why is None:
        return "unfinished"
    if why.name == "ROAD":
        return "road"
    return "flats-draw" if c is None else "flats-win"


def _script_for(rng, n, line, vz):
    """steps forcing `line`; vz(i) = v_zero at ply i; candidates = the line's move among random legal others"""
    poss = _positions_of(n, line)
    steps = []
    for i, m in enumerate(line):
        others = [mm for (mm, _) in _some_legal(poss[i], rng, rng.randint(0, 4)) if mm != m]
        cands = others + [m]
        rng.shuffle(cands)
        pick = cands.index(m)
        if rng.random() < 0.5:
            probs = [0.0] * len(cands)
            probs[pick] = 1.0
        else:
            probs = _dyadic_dist(rng, len(cands))
            if probs[pick] == 0.0:
                j = max(range(len(cands)), key=lambda t: probs[t])
                probs[pick], probs[j] = probs[j], probs[pick]
        sims = rng.choice([1, 2, 4, 8, 5])
        steps.append({"cands": cands, "probs": probs, "value": rng.randint(-4 * sims, 4 * sims) / 4.0,
                      "sims": sims, "v_zero": vz(i), "pick": pick})
    return steps


# --------------------------------------------------------------------------
# one game on the implementation
# --------------------------------------------------------------------------
def _cfg(size, thr, limit):
    from tak import self_play
    return self_play.SelfPlayConfig(engine_factory=None, size=size, workers=1,
                                    resignation_threshold=thr, ply_limit=limit)


def _play(size, thr, limit, engine, forced=None):
    """runs the real play_one_game; returns the record compared with the model"""
    from tak import self_play
    rec = Recorder(engine, max_calls=max(0, int(limit)) + 3)      # plies 0..limit: at most limit + 1 analyses
    crash = None
    with _patched_multinomial(rec, forced):
        try:
            log = self_play.play_one_game(_cfg(size, thr, limit), rec)
        except Exception as e:  # noqa  (a legal engine must not make the loop raise)
            crash = repr(e)
            log = self_play.Transcript()
    answers = []
    for i, r in enumerate(rec.rows):
        if r["cands"] is None:          # analysed, but the loop never asked for tree_probs: read the node directly
            node = r["node"]
            r = dict(r, cands=[c.move for c in (node.children or [])], probs=[], value=fr_of(node.value),
                     sims=int(node.simulations), v_zero=fr_of(node.v_zero))
        answers.append({"cands": r["cands"], "probs": r["probs"], "value": r["value"], "sims": r["sims"],
                        "v_zero": r["v_zero"], "pick": rec.picks[i] if i < len(rec.picks) else -1})
    try:
        lg = log.logits
        logits = []
        for row in lg:
            nz = row.nonzero()[:, 0].tolist()
            logits.append([(j, fr_of(row[j].item())) for j in nz])
    except Exception:  # noqa  (IndexError on a transcript without positions)
        logits = None
    return {
        "crash": crash, "size": size, "thr": fr_of(thr), "limit": limit, "answers": answers, "nodes": [r["node"] for r in rec.rows],
        "positions": list(log.positions), "moves": [list(ms) for ms in log.moves],
        "probs": [[fr_of(x) for x in pr.tolist()] for pr in log.probs],
        "values": [fr_of(v) for v in log.values], "result": log.result,
        "labels": [int(x) if float(x).is_integer() else 99 for x in log.results], "labels_raw": list(log.results), "logits": logits,
    }


def _is_color(r):
    import tak
    return isinstance(r, tak.Color)


def _c_result(r):
    """Some (the colour or None) when the result is a colour or None; None for anything else (never matches)"""
    if r is None or _is_color(r):
        return f"(Some {takio.c_color(r)})"
    return "None"


def _case_term(g):
    ans = clist([
        f"(A {clist([takio.c_move(m) for m in a['cands']])} {clist([cq(x) for x in a['probs']])} "
        f"{cq(a['value'])} {cz(a['sims'])} {cq(a['v_zero'])} {cz(a['pick'])})" for a in g["answers"]])
    lg = None if g["logits"] is None else clist([clist([f"({cz(j)}, {cq(v)})" for (j, v) in row]) for row in g["logits"]])
    obs = (f"({clist([takio.c_pos(p) for p in g['positions']])}, "
           f"{clist([clist([takio.c_move(m) for m in ms]) for ms in g['moves']])}, "
           f"{clist([clist([cq(x) for x in pr]) for pr in g['probs']])}, "
           f"{clist([cq(v) for v in g['values']])}, {_c_result(g['result'])}, "
           f"{core.czlist(g['labels'])}, {copt(lg)})")
    return f"({cz(g['size'])}, {cq(g['thr'])}, {cz(g['limit'])}, {ans}, {obs})"


def _scenario_json(g):
    return {"size": g["size"], "thr": jq(g["thr"]), "limit": g["limit"], "engine": g.get("engine"),
            "answers": [{"cands": [takio.j_move(m) for m in a["cands"]], "probs": [jq(x) for x in a["probs"]],
                         "value": jq(a["value"]), "sims": a["sims"], "v_zero": jq(a["v_zero"]), "pick": a["pick"]}
                        for a in g["answers"]]}


def _observed_json(g):
    return {"n_positions": len(g["positions"]), "plies": [p.ply for p in g["positions"]],
            "result": None if g["result"] is None else getattr(g["result"], "name", repr(g["result"])),
            "labels": [float(x) for x in g["labels_raw"]],
            "values": [float(v) for v in g["values"]],
            "last_position": takio.j_pos(g["positions"][-1]) if g["positions"] else None}


# --------------------------------------------------------------------------
# executable oracle of the property's own statement (implementation side)
# --------------------------------------------------------------------------
def _oracle(g):
    """returns (ending class, [violated clauses]) using only tak's own move/winner"""
    import tak
    bad = []
    if g.get("crash") and g["crash"].startswith("_TooLong"):
        return "runaway", ["stop:the game did not stop when the ply limit was exceeded (" + g["crash"] + ")"]
    if g.get("crash"):
        a = g["answers"][-1] if g["answers"] else None
        if a is not None and not a["cands"] and len(g["answers"]) == len(g["nodes"]) and abs(a["v_zero"]) < g["thr"]:
            return "raise-no-candidates", []      # the search came back without a move: no transcript exists
        return "crash", ["crash:play_one_game raised " + g["crash"]]
    ps, ans, n = g["positions"], g["answers"], len(g["positions"])
    thr, limit = g["thr"], g["limit"]
    if not (g["result"] is None or _is_color(g["result"])):
        bad.append("result:not-a-colour-or-None")
    if not (len(g["moves"]) == len(g["probs"]) == len(g["values"]) == n):
        bad.append("lists-aligned")
    init = tak.Position.from_config(tak.Config(size=g["size"]))
    if n and ps[0] != init:
        bad.append("chain:first-position-is-initial")
    for i in range(n):
        if i < len(g["moves"]) and i < len(ans) and list(g["moves"][i]) != list(ans[i]["cands"]):
            bad.append(f"rows:candidates-of-ply-{i}")
        for m in (g["moves"][i] if i < len(g["moves"]) else []):
            try:
                ps[i].move(m)
            except tak.IllegalMove:
                bad.append(f"chain:illegal-candidate-ply-{i}")
        if i + 1 < n:
            ok = False
            if i < len(ans) and 0 <= ans[i]["pick"] < len(g["moves"][i]):
                try:
                    ok = ps[i].move(g["moves"][i][ans[i]["pick"]]) == ps[i + 1]
                except tak.IllegalMove:
                    ok = False
            if not ok:
                bad.append(f"chain:position-{i + 1}-is-not-the-picked-child")
    for i in range(n):
        if ps[i].ply > limit:
            bad.append(f"stop:recorded-beyond-limit-ply-{i}")
        if ps[i].winner()[1] is not None:
            bad.append(f"stop:recorded-terminal-ply-{i}")
        if i + 1 < n and i < len(ans) and abs(ans[i]["v_zero"]) >= thr:
            bad.append(f"stop:played-on-after-resignation-ply-{i}")
    # why did it stop?
    cls, want = None, "unknown"
    if n and len(ans) >= n and abs(ans[n - 1]["v_zero"]) >= thr:
        vz = ans[n - 1]["v_zero"]
        mover = ps[n - 1].to_move()
        want = mover if vz >= thr else mover.flip()
        cls = "resign-mover-wins" if vz >= thr else "resign-mover-loses"
    else:
        if n == 0:
            final = init
        else:
            final = None
            if len(ans) >= n and 0 <= ans[n - 1]["pick"] < len(g["nodes"][n - 1].children):
                final = g["nodes"][n - 1].children[ans[n - 1]["pick"]].position
        if final is None:
            bad.append("stop:no-reason-to-stop")
            cls = "unknown"
        elif final.ply > limit:
            cls, want = "limit", None
        else:
            c, why = final.winner()
            if why is None:
                bad.append("stop:stopped-early")
                cls = "unknown"
            else:
                cls, want = _ending(final), c
    if want != "unknown" and g["result"] != want:
        bad.append(f"result:{cls}")
    for i in range(n):
        lab = g["labels_raw"][i] if i < len(g["labels_raw"]) else None
        if g["result"] is None:
            exp = 0
        else:
            exp = 1 if ps[i].to_move() == g["result"] else -1
        if lab != exp:
            bad.append("labels")
            break
    if len(g["labels_raw"]) != n:
        bad.append("labels:length")
    return cls, bad


# --------------------------------------------------------------------------
# scenario generators
# --------------------------------------------------------------------------
def _nextbelow(x):
    import math
    return math.nextafter(x, 0.0)


def _scripted_games(run, budget):
    """yields (meta, record) for forced lines covering every ending class"""
    rng = run.rng
    out = []
    lines = []
    for n in (3, 4, 5, 6):
        lines.append((n, "road-white", _road_line(n, True)))
        lines.append((n, "road-black", _road_line(n, False)))
    want = {3: 10, 4: 8, 5: 4, 6: 3} if run.quick else {3: 120, 4: 100, 5: 60, 6: 40}
    for n, k in want.items():
        got = {"flats-draw": 0}
        for j in range(k):
            line, end = _playout(rng, n, rng.choice([0.9, 0.8, 0.5, 0.3]), maxlen=400)
            if _ending(end) == "unfinished":       # (a scripted engine needs a line that ends by the rules)
                continue
            lines.append((n, "random", line))
            got[_ending(end)] = got.get(_ending(end), 0) + 1
        tries = 0
        while n in (3, 4) and got["flats-draw"] < 2 and tries < 200:     # drawn flats on purpose
            line, end = _playout(rng, n, 0.9)
            tries += 1
            if _ending(end) == "flats-draw":
                lines.append((n, "draw", line))
                got["flats-draw"] += 1
    small = [0.0, -0.0, 0.25, -0.25, 0.375, -0.4921875]

    def add(n, kind, line, thr, limit, vz, tag):
        if len(out) >= budget:
            return
        steps = _script_for(rng, n, line, vz)
        eng = ScriptedEngine(steps)
        g = _play(n, thr, limit, eng, forced=[s["pick"] for s in steps])
        out.append(({"kind": "scripted", "line": kind, "variant": tag, "size": n}, g))

    for li, (n, kind, line) in enumerate(lines):
        L = len(line)
        thr = (0.5, 0.95, 1.0)[li % 3]
        quiet = lambda i: rng.choice(small)                                  # noqa: E731
        # the natural end of the line (rules), with the limit far away and exactly at / just below the last ply
        add(n, kind, line, thr, 100 if L <= 100 else 1000, quiet, "rules")
        add(n, kind, line, thr, L, quiet, "limit=len (terminal, limit not exceeded: rules)")
        add(n, kind, line, thr, L - 1, quiet, "limit=len-1 (terminal AND over the limit: cut off)")
        lim = (0, 1, 5)[(li // 3) % 3]
        add(n, kind, line, thr, lim, quiet, f"limit={lim}")
        # resignation at ply k, either side, exactly at / above the threshold; below-threshold values before
        thr = (0.95, 1.0, 0.5)[li % 3]
        for sign in (1.0, -1.0):
            k = rng.randrange(0, max(1, L))
            mag = rng.choice([thr, thr, min(1.0, thr + 0.03125), 1.0])
            below = [0.0, _nextbelow(thr), -_nextbelow(thr), thr / 2, -thr / 2]
            add(n, kind, line, thr, 100 if L <= 100 else 1000,
                (lambda i, k=k, sign=sign, mag=mag, below=below: sign * mag if i == k else rng.choice(below)),
                f"resign@{k} thr={thr} v0={sign * mag}")
    # threshold 0 (the int and the float): abs(v_zero) >= 0 always holds, so EVERY game stops after one recorded
    # position, won by the side to move when v_zero >= 0 (incl. -0.0) and by the opponent otherwise
    zero_lines = [ln for ln in lines if ln[1] == "random"][:2] + lines[:2] + lines[6:8]
    for li, (n, kind, line) in enumerate(zero_lines):
        for thr in (0, 0.0):
            for v0 in ((0.0, -0.0, 0.25) if li % 2 == 0 else (-0.25, 1.0, -1.0)):
                add(n, kind, line, thr, (100, 0, 5)[li % 3], (lambda i, v0=v0: v0),
                    f"threshold {thr!r}: resign@0 v0={v0!r}")
    return out


def _free_games(run, count):
    import torch
    rng = run.rng
    out = []
    for j in range(count):
        torch.manual_seed(rng.randrange(1 << 30))
        n = rng.choice([3, 3, 4, 4, 5, 6])
        thr = rng.choice([0.5, 0.95, 1.0])
        pool = [0.0, 0.25, -0.25, _nextbelow(thr), -_nextbelow(thr)] * 4 + [thr, -thr, 1.0, -1.0]
        if rng.random() < 0.5:
            pool = [0.0, 0.125, -0.125, 0.25]           # never resigns: ends by rules or limit
        limit = rng.choice([0, 1, 5, 100, 100, 12, 30])
        g = _play(n, thr, limit, FreeEngine(rng, pool))
        out.append(({"kind": "free", "size": n}, g))
    for j in range(6 if run.quick else 60):              # threshold 0 / 0.0: one recorded position, always
        torch.manual_seed(rng.randrange(1 << 30))
        thr = (0, 0.0)[j % 2]
        g = _play(rng.choice([3, 4, 5]), thr, rng.choice([0, 5, 100]),
                  FreeEngine(rng, [0.0, -0.0, 0.125, -0.125, 1.0, -1.0]))
        out.append(({"kind": "free", "size": g["size"], "variant": f"threshold {thr!r}"}, g))
    return out


class _Uniform:
    def __init__(self, value=0.0):
        self.value = value

    def evaluate(self, position):
        import torch
        from tak.model import encoding
        return torch.full((encoding.MAX_MOVE_ID,), 1.0 / encoding.MAX_MOVE_ID), self.value


class _RandomEval:
    def __init__(self, seed, spread):
        import torch
        self.gen = torch.Generator()
        self.gen.manual_seed(seed)
        self.spread = spread

    def evaluate(self, position):
        import torch
        from tak.model import encoding
        logits = torch.randn(encoding.MAX_MOVE_ID, generator=self.gen) * 2
        v = (torch.rand(1, generator=self.gen).item() * 2 - 1) * self.spread
        return torch.softmax(logits, 0), v


def _mcts_games(run, count):
    import torch
    from tak import mcts
    rng = run.rng
    out = []
    for j in range(count):
        n = rng.choice([3, 3, 3, 4, 4, 5]) if run.quick else rng.choice([3, 3, 4, 4, 5, 6])
        sims = rng.choice([2, 4, 8, 16])
        thr = rng.choice([0.5, 0.95, 1.0])
        limit = rng.choice([100, 100, 30, 12, 5]) if n <= 4 else rng.choice([6, 12, 20])
        uniform = rng.random() < 0.4
        ev = _Uniform() if uniform else _RandomEval(rng.randrange(1 << 30), rng.choice([0.4, 1.0, 1.0]))
        noise = rng.choice([None, None, 0.3])
        torch.manual_seed(rng.randrange(1 << 30))
        eng = mcts.MCTS(mcts.Config(time_limit=0, simulation_limit=sims, root_noise_alpha=noise), ev)
        g = _play(n, thr, limit, eng)
        out.append(({"kind": "mcts", "size": n, "sims": sims, "evaluator": "uniform" if uniform else "random"}, g))
    for j in range(6 if run.quick else 60):              # threshold 0 / 0.0 with the real search
        thr = (0, 0.0)[j % 2]
        n = rng.choice([3, 3, 4])
        ev = [_Uniform(), _Uniform(-0.0), _RandomEval(rng.randrange(1 << 30), 1.0)][(j // 2) % 3]
        torch.manual_seed(rng.randrange(1 << 30))
        eng = mcts.MCTS(mcts.Config(time_limit=0, simulation_limit=rng.choice([2, 4, 8])), ev)
        g = _play(n, thr, rng.choice([100, 12]), eng)
        out.append(({"kind": "mcts", "size": n, "variant": f"threshold {thr!r}",
                     "evaluator": type(ev).__name__ + (" v=-0.0" if getattr(ev, "value", 0.0) == 0 and str(getattr(ev, "value", 0.0)) == "-0.0" else "")}, g))
    return out


class _LineEval:
    """forces a line through the REAL search: one-hot prior on line[position.ply] when the position is the line's
    position of that ply (the evaluator sees the ply), uniform otherwise; value 0"""
    def __init__(self, n):
        self.n, self.line, self.expect = n, [], []

    def set_line(self, line):
        self.line, self.expect = line, _positions_of(self.n, line)

    def evaluate(self, position):
        import torch
        from tak.model import encoding
        probs = torch.zeros(encoding.MAX_MOVE_ID)
        k = position.ply
        if 0 <= k < len(self.line) and position == self.expect[k]:
            probs[encoding.encode_move(self.n, self.line[k])] = 1.0
        else:
            probs[: encoding.n_moves_for_size(self.n)] = 1.0
            probs /= probs.sum()
        return probs, 0.0


def _repeat_line(rng, n, cycles, tail):
    """corner stones slid away and back: the board of ply 2 returns at ply 6, 10, ... with the same side to move;
    then `tail` placements"""
    import tak
    F = tak.MoveType.PLACE_FLAT
    L, R, U, D = tak.MoveType.SLIDE_LEFT, tak.MoveType.SLIDE_RIGHT, tak.MoveType.SLIDE_UP, tak.MoveType.SLIDE_DOWN
    line = [tak.Move(0, 0, F), tak.Move(n - 1, n - 1, F)]       # Black's stone on a1, White's on the far corner
    for _ in range(cycles):
        wdown = rng.random() < 0.5
        bup = rng.random() < 0.5
        w_away = tak.Move(n - 1, n - 1, D, (1,)) if wdown else tak.Move(n - 1, n - 1, L, (1,))
        w_back = tak.Move(n - 1, n - 2, U, (1,)) if wdown else tak.Move(n - 2, n - 1, R, (1,))
        b_away = tak.Move(0, 0, U, (1,)) if bup else tak.Move(0, 0, R, (1,))
        b_back = tak.Move(0, 1, D, (1,)) if bup else tak.Move(1, 0, L, (1,))
        line += [w_away, b_away, w_back, b_back]
    free = [(x, y) for x in range(n) for y in range(n)
            if (x, y) not in ((0, 0), (n - 1, n - 1), (1, 1), (n - 1, n - 2), (n - 2, n - 1), (0, 1), (1, 0))]
    rng.shuffle(free)
    line.append(tak.Move(n - 1, n - 1, D, (1,)) if rng.random() < 0.5 else tak.Move(1, 1, F))   # often the move of ply 2 again
    line += [tak.Move(x, y, F) for (x, y) in free[:tail]]
    return line


def _repeat_games(run, engines):
    """the REAL mcts.MCTS, ONE engine object for several games: lines that return to an earlier board within a game
    and across the games of an engine (same board, different ply); ply limits that the repetition crosses"""
    import torch
    from tak import mcts
    rng = run.rng
    out = []
    for e in range(engines):
        n = rng.choice([3, 3, 4])
        sims = rng.choice([1, 1, 2, 4])
        ev = _LineEval(n)
        seed = rng.randrange(1 << 30)
        torch.manual_seed(seed)
        eng = mcts.MCTS(mcts.Config(time_limit=0, simulation_limit=sims), ev)
        recipe = {"kind": "repeat", "size": n, "sims": sims, "seed": seed, "games": []}
        for gi in range(rng.choice([2, 3])):
            line = _repeat_line(rng, n, rng.choice([1, 2, 3]) if gi else rng.choice([1, 2]), rng.randint(0, 3))
            limit = rng.choice([5, 6, 8, 9, 12, len(line) - 1, 100])
            ev.set_line(line)
            recipe["games"].append({"line": [takio.j_move(m) for m in line], "limit": limit})
            g = _play(n, 2.0, limit, eng)
            g["engine"] = dict(recipe, games=list(recipe["games"]), game=gi)
            out.append(({"kind": "mcts-repeat", "size": n, "sims": sims, "game_of_engine": gi,
                         "line_length": len(line)}, g))
    return out


class _GlitchEval:
    """uniform prior, value 0; on boards with `k` occupied squares all mass sits on a flat placement on an OCCUPIED
    square, so no move passes the legality filter of MCTS.populate and the root has no children"""
    def __init__(self, n, k):
        self.n, self.k = n, k

    def evaluate(self, position):
        import tak
        import torch
        from tak.model import encoding
        probs = torch.zeros(encoding.MAX_MOVE_ID)
        occ = [i for i, sq in enumerate(position.board) if sq]
        if len(occ) == self.k:
            probs[encoding.encode_move(self.n, tak.Move(occ[0] % self.n, occ[0] // self.n))] = 1.0
        else:
            probs[: encoding.n_moves_for_size(self.n)] = 1.0
            probs /= probs.sum()
        return probs, 0.0


def _noroot_games(run, count):
    """the real search (one simulation per move, so only the root is evaluated) with an evaluator that leaves the root
    of some position without a legal candidate: play_one_game must raise (no transcript) or return a transcript that
    satisfies the stop clause"""
    import torch
    from tak import mcts
    rng = run.rng
    out = []
    for j in range(count):
        n, k = rng.choice([3, 4, 4]), rng.choice([2, 3, 4, 5])
        seed = rng.randrange(1 << 30)
        torch.manual_seed(seed)
        eng = mcts.MCTS(mcts.Config(time_limit=0, simulation_limit=1), _GlitchEval(n, k))
        limit = rng.choice([30, 100, 12])
        g = _play(n, 0.95, limit, eng)
        g["engine"] = {"kind": "glitch", "size": n, "k": k, "seed": seed, "limit": limit}
        out.append(({"kind": "mcts-noroot", "size": n, "occupied_squares_of_the_glitch": k}, g))
    return out


# --------------------------------------------------------------------------
def _digest(g):
    s = json.dumps([_scenario_json(g)], sort_keys=True)
    return hashlib.sha256(s.encode()).hexdigest()


def _report(run, cs, meta, g, cls, clauses, coq_disagrees):
    view = None
    key = f"{meta['kind']}-{cls}-" + ("+".join(sorted({c.split(':')[0] for c in clauses})) or "model-disagrees")
    seen = run.extra.setdefault("violation_keys", [])
    if key in seen:
        return                      # one replay per key (the first input that shows it)
    seen.append(key)
    if coq_disagrees and cs is not None and len(seen) <= 3:
        try:
            view = cs.model_view(_case_term(g))
        except Exception as e:  # noqa
            view = repr(e)
    run.violation(key, {
        "clause": clauses or ["the transcript differs from the one the model computes on the same engine answers"],
        "ending_class": cls, "scenario": _scenario_json(g), "meta": meta,
        "impl_output": _observed_json(g), "model_view": view,
        "oracle_violations": clauses, "model_disagrees": coq_disagrees})


def correspondence(run):
    core.setup_impl(ext=True, shims=True)
    import torch
    torch.set_num_threads(1)
    n_scripted = 300 if run.quick else 5000
    n_free = 40 if run.quick else 600
    n_mcts = 40 if run.quick else 500
    import time
    t0 = time.time()
    parts = [("scripted", _scripted_games(run, n_scripted)),
             ("free", _free_games(run, n_free)),
             ("mcts", _mcts_games(run, n_mcts)),
             ("mcts-repeat", _repeat_games(run, 12 if run.quick else 120)),
             ("mcts-noroot", _noroot_games(run, 8 if run.quick else 80))]
    raised = [(meta, g) for _, games in parts for (meta, g) in games if g.get("crash")]
    allgames = [(meta, g) for _, games in parts for (meta, g) in games if not g.get("crash")]
    # heavy (long / many-candidate) games are spread over the shards
    order = sorted(range(len(allgames)), key=lambda i: -sum(len(a["cands"]) + 3 for a in allgames[i][1]["answers"]))
    nsh = max(1, min(len(allgames), max(core.NPROC, (len(allgames) + 17) // 18)))   # start-up dominates small shards
    shards = [[] for _ in range(nsh)]
    for r, i in enumerate(order):
        shards[r % nsh].append(allgames[i])
    width = max(len(s) for s in shards)
    cs = core.Cases(ID, "games", HEADER, CTYPE, "chk11", show="view", shard=width)
    filler = allgames[order[-1]]
    for s in shards:
        for (meta, g) in s + [filler] * (width - len(s)):
            cs.add(_case_term(g), meta)
    t1 = time.time()
    failing, shard_fail, nshards = cs.run()
    core.log(f"[C11] games played in {t1 - t0:.1f}s, {nshards} shards evaluated in Coq in {time.time() - t1:.1f}s")
    run.oblige(f"correspondence:games ({nshards} shards)", not shard_fail, str(shard_fail)[:1500])
    failing_ids = {id(m) for m in failing}
    if raised:
        cr = core.Cases(ID, "raised", HEADER, CTYPE, CHK_RAISE, show="view", shard=max(1, len(raised)))
        for meta, g in raised:
            g2 = dict(g, positions=[], moves=[], probs=[], values=[], result=None, labels=[], labels_raw=[], logits=None)
            cr.add(_case_term(g2), meta)
        f2, sf2, _ = cr.run()
        run.oblige("correspondence:games that raised (the model answers BadIndex on the recorded answers)", not sf2, str(sf2)[:1500])
        failing_ids |= {id(m) for m in f2}
    for name, games in parts:
        dist, seen, nontrivial = {}, set(), 0
        samples = []
        for meta, g in games:
            cls, clauses = _oracle(g)
            meta["ending"] = cls
            dist[cls] = dist.get(cls, 0) + 1
            dist[f"size{g['size']}"] = dist.get(f"size{g['size']}", 0) + 1
            d = _digest(g)
            if d not in seen:
                seen.add(d)
                if len(g["positions"]) >= 2:
                    nontrivial += 1
            if len(samples) < 2 and len(g["positions"]) >= 2:
                samples.append({"meta": meta, "observed": _observed_json(g)})
            dis = id(meta) in failing_ids
            if dis or clauses:
                _report(run, cs, meta, g, cls, clauses, dis)
        run.count(len(games), nontrivial,
                  "one real play_one_game run per case, transcript (positions, candidates, probs, values, result, labels, "
                  "logits) recomputed by the model from the recorded engine answers and compared inside Coq; distinct by "
                  "the hash of (config, engine answers); non-trivial = at least two recorded positions",
                  samples, dist, label=name)


def search(run, broken):
    """a proof/tie/shard broke without a concrete disagreement: run the statement's oracle on fresh games"""
    core.setup_impl(ext=True, shims=True)
    games = _noroot_games(run, 12) + _repeat_games(run, 12) + _scripted_games(run, 150) + _free_games(run, 30) + \
        _mcts_games(run, 10)
    for meta, g in games:
        cls, clauses = _oracle(g)
        if clauses:
            meta["ending"] = cls
            _report(run, None, meta, g, cls, clauses, False)
            return True
    return False


def _replay_real(e):
    """plays the recipe of a real-engine game again on the current tree (all the games of the engine up to that one)"""
    import torch
    from tak import mcts
    torch.manual_seed(e["seed"])
    if e["kind"] == "glitch":
        eng = mcts.MCTS(mcts.Config(time_limit=0, simulation_limit=1), _GlitchEval(e["size"], e["k"]))
        return _play(e["size"], 0.95, e["limit"], eng)
    ev = _LineEval(e["size"])
    eng = mcts.MCTS(mcts.Config(time_limit=0, simulation_limit=e["sims"]), ev)
    g = None
    for gm in e["games"][: e["game"] + 1]:
        ev.set_line([takio.mk_move(m) for m in gm["line"]])
        g = _play(e["size"], 2.0, gm["limit"], eng)
    return g


def replay(run, rp):
    core.setup_impl(ext=True, shims=True)
    sc = rp["scenario"]
    if sc.get("engine"):
        g = _replay_real(sc["engine"])
        cls, clauses = _oracle(g)
        return {"violates": bool(clauses), "ending_class": cls, "oracle_violations": clauses,
                "impl_output": _observed_json(g)}
    steps = [{"cands": [takio.mk_move(m) for m in a["cands"]],
              "probs": [float(Fraction(*x)) for x in a["probs"]],
              "value": float(Fraction(*a["value"])), "sims": a["sims"],
              "v_zero": float(Fraction(*a["v_zero"])), "pick": max(a["pick"], 0)} for a in sc["answers"]]
    thr = float(Fraction(*sc["thr"]))
    g = _play(sc["size"], thr, sc["limit"], ScriptedEngine(steps), forced=[s["pick"] for s in steps])
    cls, clauses = _oracle(g)
    cs = core.Cases(ID, "replay", HEADER, CTYPE, "chk11", show="view", shard=1)
    cs.add(_case_term(g), {"replay": True})
    failing, shard_fail, _ = cs.run()
    return {"violates": bool(failing or shard_fail or clauses), "ending_class": cls, "oracle_violations": clauses,
            "model_disagrees": bool(failing), "impl_output": _observed_json(g),
            "model_view": cs.model_view(_case_term(g)) if failing else None}


# ---- translator tie (T): the C11_source_* theorems quantify over functions REGENERATED FROM THE SOURCE; t11's
# correspondence validates the semantics library and the translation scheme on every run.
from . import t11 as _t11  # noqa: E402

MODEL_TARGETS = sorted(set(list(MODEL_TARGETS) + list(_t11.MODEL_TARGETS)))
TRUSTED_BASE = list(TRUSTED_BASE) + list(getattr(_t11, "TRUSTED_BASE", []))
_c11_correspondence = correspondence


def pregen(run):
    return _t11.pregen(run)


def correspondence(run):
    _c11_correspondence(run)
    _t11.correspondence(run)
