"""T14P - ptn.parse_move and PTN.parse are REGENERATED FROM THE SOURCE (harness/ptn2coq.py -> coq/gen/PtnParseGen.v,
written against model/PySem.v + model/PtnSem.v, the regular expressions as terms of spec/RegexSpec.v) and proved equal
to the hand-written model/Ptn.v: props/T14P.v, proofs/PtnParseGenEq.v.

Correspondence (light; C14 carries the heavy sweeps): the GENERATED functions evaluated in Coq against the
implementation - parse_move on every string of length <= 2 over c14's alphabet, a sample of length 3, c14's corpus,
mutations and a sample of its grammar-shaped strings (no Unspecified skipping: the generated function is what the
code does); PTN.parse on c14's corpus, rendered and malformed game texts (`Crash Unmodelled` = the library takes no
position: skipped and counted)."""
import hashlib
import itertools

from .. import core, takio
from ..core import clist, cstr
from . import c14pgen


class _Lazy:
    """c14.py may import this module: import c14 on first use"""

    def __getattr__(self, name):
        import importlib
        return getattr(importlib.import_module("harness.props.c14"), name)


c14 = _Lazy()

ID = "T14P"
THEOREMS = [
    "T14P_gen_regex_text", "T14P_gen_regex_known", "T14P_known_regex_terms",
    "T14P_gen_parse_move_eq", "T14P_gen_parse_move_no_crash", "T14P_gen_parse_game_eq", "T14P_game_ok_modelled",
    "T14P_gen_parse_format_move", "T14P_gen_parse_move_denotes", "T14P_gen_parse_move_refuses",
    "T14P_re_search_groups_sound", "T14P_re_test_sound", "T14P_re_sub_sound", "T14P_re_split_sound", "T14P_re_findall2_sound",
]
MODEL_TARGETS = ["model/Tak.vo", "model/Road.vo", "model/PySem.vo", "model/Harness.vo", "model/Lit.vo", "model/Ptn.vo",
                 "spec/RegexSpec.vo", "model/PtnSem.vo", "gen/PtnParseGen.vo"]
TRUSTED_BASE = [
    "harness/ptn2coq.py: the translation scheme for statements (bind in evaluation order, if / raise / continue, the "
    "for loop as a Fixpoint, truthiness by type); the regular-expression parser is NOT trusted (show re_k = the source "
    "text is proved by computation)",
    "model/PySem.v (py_unpack2, py_int_str, py_iter_opt, py_dict_get, bind) and model/PtnSem.v (ord, tuple / dict / "
    "split(sep, 1) semantics, match objects, tak.Move) - validated by this differential; the regex functions of "
    "PtnSem.v are proved sound for spec/RegexSpec.v (T14P_re_*_sound), whose semantics is the trusted part",
    "the library answers Crash Unmodelled (no position) on a regex term it does not know, on re.sub of the suffix "
    "pattern with a newline in the subject, and where scan_tags answers None (unknown \\w class in key position, a tag "
    "line with an empty value)",
]
ASSUMPTIONS = [
    "gen_parse_game_eq holds on game_modelled texts: the tag scan of the head answers Some and no token of the lenient "
    "(Unspecified) class is reached; every text the model parses to a game or refuses for the missing blank line is in it",
]
_STATE = {}


def pregen(run):
    _STATE["err"] = c14pgen.pregen(run)
    return _STATE["err"]


HEADER = """From Coq Require Import ZArith String List Bool.
From TV Require Import model.Tak model.PySem model.Lit model.Ptn.
From TV Require gen.PtnParseGen.
Import ListNotations.
Open Scope Z_scope.
Inductive obs := OA (m : mv) | OB | OC.
Definition msame (r : res mv) (o : obs) : bool :=
  match r, o with Ok m, OA m' => mv_eqb m m' | Illegal, OB => true | _, _ => false end.
Definition mchk (l : list (list Z * obs)) : bool := forallb (fun c => msame (PtnParseGen.parse_move (fst c)) (snd c)) l.
(* second look at a disagreeing input: `Crash Unmodelled` = the library takes no position (a regex term it does not know) *)
Definition msame_u (r : res mv) (o : obs) : bool := match r with Crash Unmodelled => true | _ => msame r o end.
Definition mchk_u (l : list (list Z * obs)) : bool := forallb (fun c => msame_u (PtnParseGen.parse_move (fst c)) (snd c)) l.
Definition mview (l : list (list Z * obs)) :=
  map (fun c => (fst c, PtnParseGen.parse_move (fst c))) (filter (fun c => negb (msame (PtnParseGen.parse_move (fst c)) (snd c))) l).
Inductive gobs := GO (tags : list (list Z * list Z)) (ms : list mv) | GN | GB (t : list Z) | GC.
Definition tag_eqb (a b : list Z * list Z) : bool := list_eqb Z.eqb (fst a) (fst b) && list_eqb Z.eqb (snd a) (snd b).
Definition gsame (r : res (list (list Z * list Z) * list mv)) (o : gobs) : bool :=
  match r, o with
  | Ok (t, m), GO t' m' => list_eqb tag_eqb t t' && list_eqb mv_eqb m m'
  | Crash ValueError, GN => true
  | Illegal, GB _ => true
  | _, _ => false
  end.
Definition gchk (c : list Z * gobs) : bool := gsame (PtnParseGen.parse (fst c)) (snd c).
Definition gunmodelled (c : list Z * gobs) : bool :=
  match PtnParseGen.parse (fst c) with Crash Unmodelled => true | _ => false end.
Definition gview (c : list Z * gobs) := PtnParseGen.parse (fst c).
"""


def _strings(run):
    rng = run.rng
    al = c14.PTN_ALPHABET + c14.FOREIGN
    out = ["".join(t) for L in range(0, 3) for t in itertools.product(al, repeat=L)]
    three = ["".join(t) for t in itertools.product(al, repeat=3)]
    rng.shuffle(three)
    out += three[:3000 if run.quick else len(three)]
    out += c14._corpus()["move_texts"]
    core.setup_impl()
    from tak.ptn import ptn
    allm = c14._all_moves()
    base = [ptn.format_move(m) for _, m in rng.sample(allm, 800)]
    out += base
    out += c14._mutations(rng, base, 2500 if run.quick else 30000)
    gs = c14._grammar_strings(rng, True)
    rng.shuffle(gs)
    out += gs[:3000 if run.quick else 40000]
    seen, uniq = set(), []
    for s in out:
        if s not in seen:
            seen.add(s)
            uniq.append(s)
    return uniq


def _move_cases(run, strings, name="parse_move", pack=300, shard=6, check="mchk"):
    from tak.ptn import ptn
    cs = core.Cases(ID, name, HEADER, "list (list Z * obs)", check, show="mview", shard=shard)
    dist = {"accept": 0, "BadMove": 0, "crash": 0}
    for k in range(0, len(strings), pack):
        items, metas = [], []
        for s in strings[k:k + pack]:
            o = c14.observe_parse(ptn, s)
            items.append(f"({cstr(s)}, {c14.c_obs(o)})")
            metas.append({"text": s, "impl": c14.j_obs(o)})
            dist["BadMove" if o == "B" else ("accept" if o[0] == "A" else "crash")] += 1
        cs.add(clist(items), {"items": metas})
    return cs, dist


def _game_cases(run, texts, name, check):
    cs = core.Cases(ID, name, HEADER, "list Z * gobs", check, show="gview", shard=25)
    for kind, text, o in texts:
        cs.add(f"({cstr(text)}, {c14.c_gobs(o)})", {"kind": kind, "text": text, "impl": c14.j_gobs(o)})
    return cs


def correspondence(run):
    core.setup_impl()
    err = _STATE.get("err", "unset")
    if err == "unset":
        err = pregen(run)
    if err:
        run.extra["differential_skipped"] = "the translation failed; gen/PtnParseGen.v is a stub"
        return
    from tak.ptn import ptn
    strings = _strings(run)
    cs, dist = _move_cases(run, strings)
    failing, shard_fail, ns = c14._run(cs)
    run.oblige(f"correspondence:generated-parse_move ({ns} shards)", not shard_fail, str(shard_fail)[:1500])
    run.count(len(strings), dist["accept"],
              "PtnParseGen.parse_move s (the translated source, evaluated in Coq) = ptn.parse_move(s): the same move or BadMove, "
              "never another exception; every string of length <= 2 over c14's 30-character alphabet, a sample of length 3, "
              "c14's corpus, formatted moves, near-miss mutations and grammar-shaped strings (lenient inputs included); "
              "non-trivial = accepted", [{"text": "3a1+12"}, {"text": "a1C"}], dist, label="parse_move")
    if failing:
        suspects = [it["text"] for meta in failing for it in meta["items"]][:600]
        c1, _ = _move_cases(run, suspects, name="pinpoint", pack=1, shard=100, check="mchk_u")
        f1, _, _ = c14._run(c1)
        run.extra["parse_move_unmodelled_or_agreeing_on_second_look"] = len(suspects) - len(f1)
        for meta in f1[:6]:
            it = meta["items"][0]
            run.violation("text:" + it["text"], {"clause": "the translated parse_move and the implementation disagree",
                                                 "input": it, "generated": c1.model_view(c1.terms[c1.metas.index(meta)])})
    texts = [("corpus", t, c14.observe_game(ptn, t)) for t in c14._corpus()["games"]]
    gt = c14._game_texts(run)
    if run.quick:
        gt = gt[:240]
    texts += [(k, t, c14.observe_game(ptn, t)) for k, t, e in gt]
    cg = _game_cases(run, texts, "parse", "gchk")
    failing, shard_fail, ns = c14._run(cg)
    run.oblige(f"correspondence:generated-PTN.parse ({ns} shards)", not shard_fail, str(shard_fail)[:1500])
    real, nun = [], 0
    if failing:
        again = [(m["kind"], m["text"], c14.observe_game(ptn, m["text"])) for m in failing]
        cu = _game_cases(run, again, "parse_unmodelled", "gunmodelled")
        f2, sf2, ns2 = c14._run(cu)
        run.oblige(f"correspondence:generated-PTN.parse-unmodelled ({ns2} shards)", not sf2, str(sf2)[:1500])
        real, nun = f2, len(failing) - len(f2)
    kinds = {}
    for k, t, o in texts:
        kinds[f"{k}:{o[0]}"] = kinds.get(f"{k}:{o[0]}", 0) + 1
    kinds["unmodelled_skipped"] = nun
    run.count(len(texts), sum(1 for k, t, o in texts if o[0] == "GO" and len(o[2]) >= 4),
              "PtnParseGen.parse text (evaluated in Coq) = PTN.parse(text): tags in dict order and moves / ValueError / BadMove; "
              "c14's corpus, rendered and malformed game texts; Crash Unmodelled (unknown \\w class in key position, empty tag "
              "value) skipped and counted; non-trivial = parsed games with >= 4 moves",
              [{"text": texts[-1][1]}], kinds, label="parse")
    run.extra["unmodelled_skipped"] = nun
    for meta in real[:6]:
        run.violation("game:" + hashlib.sha256(meta["text"].encode()).hexdigest()[:16],
                      {"clause": "the translated PTN.parse and the implementation disagree",
                       "input": {"text": meta["text"], "kind": meta["kind"]}, "impl": meta["impl"],
                       "generated": cg.model_view(cg.terms[[m["text"] for m in cg.metas].index(meta["text"])])})


def search(run, broken):
    """a proof or the translation broke: the translated function follows the source, so a behavioural change shows as a
    failed equality, not in the differential; look for a concrete input with c14's reference reading of PTN"""
    return c14.search(run, broken)


def replay(run, rp):
    return c14.replay(run, rp)
