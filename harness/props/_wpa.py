"""Shared generators and implementation-side oracles for C01 and C04 (work package A).

Everything here runs the REAL implementation (`import tak` resolves to the tree
under test after core.setup_impl()).  Random choices always come from the rng
that is passed in (run.rng)."""
import hashlib
import json

# --------------------------------------------------------------------------
# canonical views
# --------------------------------------------------------------------------


def canon_pos(p):
    """(size, reserves, ply, board) with pieces as (colour, kind) ints"""
    return (p.size, tuple((s.stones, s.caps) for s in p.stones), p.ply,
            tuple(tuple((x.color.value, x.kind.value) for x in sq) for sq in p.board))


def state_key(p):
    """position modulo the ply counter (parity kept; plies 0 and 1 kept apart: the opening differs)"""
    c = canon_pos(p)
    return (c[0], c[1], c[2] if c[2] < 2 else 2 + c[2] % 2, c[3])


def canon_move(m):
    return (m.x, m.y, m.type.value, None if m.slides is None else tuple(m.slides))


def pair_hash(p, m):
    return hashlib.sha256(repr((canon_pos(p), canon_move(m))).encode()).hexdigest()[:16]


# --------------------------------------------------------------------------
# configurations
# --------------------------------------------------------------------------
def configs(tak):
    """standard piece sets of every size plus custom (pieces, capstones)"""
    std = [tak.Config(size=n) for n in range(3, 9)]
    custom = [tak.Config(size=3, pieces=5, capstones=1), tak.Config(size=3, pieces=3, capstones=1),
              tak.Config(size=4, pieces=6, capstones=2), tak.Config(size=4, pieces=20, capstones=0),
              tak.Config(size=5, pieces=8, capstones=3), tak.Config(size=6, pieces=12, capstones=1),
              tak.Config(size=7, pieces=9, capstones=2), tak.Config(size=8, pieces=14, capstones=4)]
    return std, custom


# --------------------------------------------------------------------------
# positions
# --------------------------------------------------------------------------
def random_legal_move(tak, rng, p, slide_bias=0.5):
    """one accepted move chosen at random (slides preferred with probability slide_bias); None if there is none"""
    cands = p.all_moves()
    slides = [m for m in cands if m.type.is_slide()]
    places = [m for m in cands if not m.type.is_slide()]
    pools = [slides, places] if rng.random() < slide_bias else [places, slides]
    for pool in pools:
        pool = list(pool)
        rng.shuffle(pool)
        for m in pool[:200]:
            try:
                return m, p.move(m)
            except tak.IllegalMove:
                continue
    return None


def playout(tak, rng, cfg, max_plies, stop_at_end=True, slide_bias=0.5):
    """a game of accepted moves from the initial position: (positions[0..k], moves[0..k-1])"""
    p = tak.Position.from_config(cfg)
    ps, ms = [p], []
    for _ in range(max_plies):
        if stop_at_end and p.winner()[1] is not None:
            break
        r = random_legal_move(tak, rng, p, slide_bias)
        if r is None:
            break
        m, p = r
        ms.append(m)
        ps.append(p)
    return ps, ms


def bfs_levels(tak, cfg, depth, table, stop_at_end=True, limit=None):
    """breadth-first closure by accepted table moves, deduplicated modulo ply: list of levels of positions"""
    start = tak.Position.from_config(cfg)
    seen = {state_key(start)}
    levels = [[start]]
    d = 0
    while levels[-1] and (depth is None or d < depth):
        nxt = []
        for p in levels[-1]:
            if stop_at_end and p.winner()[1] is not None:
                continue
            for m in table:
                try:
                    q = p.move(m)
                except tak.IllegalMove:
                    continue
                k = state_key(q)
                if k not in seen:
                    seen.add(k)
                    nxt.append(q)
                    if limit is not None and len(seen) >= limit:
                        levels.append(nxt)
                        return levels, False
        levels.append(nxt)
        d += 1
    closed = not levels[-1]
    return levels, closed


def constructed(tak, rng, n):
    """a well-formed board that no playout is likely to reach: tall mixed-colour stacks, walls and capstones
    next to the mover's stacks; arbitrary (also exhausted) reserves; mostly ply >= 2, sometimes an opening ply"""
    C, K, P = tak.Color, tak.Kind, tak.Piece
    ply = rng.choice([2, 3, 4, 5, 6, 7, 20, 21, 0, 1])
    mover = C.WHITE if ply % 2 == 0 else C.BLACK

    def stack(top_color=None, top_kind=None, h=None):
        h = h if h is not None else rng.choice([1, 1, 2, 3, n - 1, n, n + 1, n + 3])
        h = max(1, h)
        body = [P.cached(rng.choice(list(C)), K.FLAT) for _ in range(h - 1)]
        tc = top_color if top_color is not None else rng.choice(list(C))
        tk = top_kind if top_kind is not None else rng.choice([K.FLAT, K.FLAT, K.STANDING, K.CAPSTONE])
        return [P.cached(tc, tk)] + body

    board = [[] for _ in range(n * n)]
    dens = rng.choice([0.15, 0.35, 0.6, 0.9])
    for i in range(n * n):
        if rng.random() < dens:
            board[i] = stack()
    # scenarios: a mover-owned stack with obstacles along its row and column
    for _ in range(rng.randint(1, 3)):
        x, y = rng.randrange(n), rng.randrange(n)
        board[y * n + x] = stack(top_color=mover, top_kind=rng.choice([K.CAPSTONE, K.CAPSTONE, K.FLAT, K.STANDING]),
                                 h=rng.choice([1, 2, 3, n, n + 1]))
        for dx, dy in ((1, 0), (-1, 0), (0, 1), (0, -1)):
            for i in range(1, n):
                X, Y = x + i * dx, y + i * dy
                if not (0 <= X < n and 0 <= Y < n):
                    break
                r = rng.random()
                if r < 0.3:
                    board[Y * n + X] = []
                elif r < 0.55:
                    board[Y * n + X] = stack(top_kind=K.STANDING, h=rng.choice([1, 2, 3]))
                elif r < 0.7:
                    board[Y * n + X] = stack(top_kind=K.CAPSTONE, h=rng.choice([1, 2]))
                elif r < 0.9:
                    board[Y * n + X] = stack(top_kind=K.FLAT)
    # smash scenarios: a capstone-led stack of the mover, j - 1 passable squares, then a wall (of either colour)
    # at distance j; the stack is tall enough to drop a piece on every square on the way
    for _ in range(rng.choice([0, 1, 1, 2])):
        x, y = rng.randrange(n), rng.randrange(n)
        dx, dy = rng.choice(((1, 0), (-1, 0), (0, 1), (0, -1)))
        j = rng.randint(1, n - 1)
        X, Y = x + j * dx, y + j * dy
        if not (0 <= X < n and 0 <= Y < n):
            continue
        board[y * n + x] = stack(top_color=mover, top_kind=K.CAPSTONE, h=min(n + 2, j + rng.choice([0, 0, 1, 2])))
        for i in range(1, j):
            board[(y + i * dy) * n + x + i * dx] = rng.choice([[], [], stack(top_kind=K.FLAT, h=rng.choice([1, 2]))])
        board[Y * n + X] = stack(top_kind=K.STANDING, h=rng.choice([1, 1, 2, 3]))
    res = [rng.choice([0, 0, 1, 2, 10, 30]) for _ in range(4)]
    return tak.Position(size=n, ply=ply,
                        stones=(tak.StoneCounts(stones=res[0], caps=res[1]), tak.StoneCounts(stones=res[2], caps=res[3])),
                        board=board)


# --------------------------------------------------------------------------
# moves
# --------------------------------------------------------------------------
def moves_from_occupied(tak, p, table_by_square, rng, cap):
    """every table move whose origin is an occupied square (all of them when below the cap, otherwise all the
    moves of randomly chosen occupied squares until the cap is reached)"""
    n = p.size
    occ = [(x, y) for x in range(n) for y in range(n) if p.board[y * n + x]]
    rng.shuffle(occ)
    # squares owned by the mover first: that is where slides are accepted
    mover = p.to_move()
    occ.sort(key=lambda xy: 0 if p.board[xy[1] * n + xy[0]][0].color == mover else 1)
    out = []
    for xy in occ:
        ms = table_by_square[xy]
        if out and len(out) + len(ms) > cap:
            continue
        out.extend(ms)
    return out


def illformed_moves(tak, rng, p, k):
    """the ill-formed stream: squares with x, y in [-size-1, 2*size]; drop tuples over {-2,-1,0,1,2,size,size+1}
    of length 0..size+1 (the empty tuple included); sums over the carry limit / the stack height; placements
    carrying a stray tuple.  Slides always carry a tuple (slides=None on a slide is outside the property's domain)."""
    n = p.size
    T = list(tak.MoveType)
    slides_t = [t for t in T if t.is_slide()]
    places_t = [t for t in T if not t.is_slide()]
    alpha = [-2, -1, 0, 1, 2, n, n + 1]
    lo, hi = -n - 1, 2 * n
    mover = p.to_move()
    own = [(x, y) for x in range(n) for y in range(n) if p.board[y * n + x] and p.board[y * n + x][0].color == mover]
    occ = [(x, y) for x in range(n) for y in range(n) if p.board[y * n + x]]
    out = []

    def rc():
        return rng.randint(lo, hi)

    def off_square():
        while True:
            x, y = rc(), rc()
            if not (0 <= x < n and 0 <= y < n):
                return x, y

    def rand_tuple(maxlen=None):
        ln = rng.choice([0, 1, 1, 2, 2, 3, n, n + 1]) if maxlen is None else rng.randint(0, maxlen)
        return tuple(rng.choice(alpha) for _ in range(min(ln, n + 1)))

    def some_square():
        r = rng.random()
        if own and r < 0.6:
            return rng.choice(own)
        if occ and r < 0.8:
            return rng.choice(occ)
        return rng.randrange(n), rng.randrange(n)

    while len(out) < k:
        r = rng.random()
        if r < 0.12:      # off-board origin, otherwise plausible placement (negative indices would alias squares)
            x, y = off_square()
            out.append(tak.Move(x, y, rng.choice(places_t), None))
        elif r < 0.24:    # off-board origin, plausible slide
            x, y = off_square()
            out.append(tak.Move(x, y, rng.choice(slides_t), rng.choice([(1,), (1, 1), (2,), rand_tuple()])))
        elif r < 0.30:    # edge aliases: x = -1, x = size, y = -1, y = size
            x, y = rng.choice([(-1, rng.randrange(n)), (n, rng.randrange(n)), (rng.randrange(n), -1),
                               (rng.randrange(n), n), (-1, -1), (n, n), (-n, 0), (0, -n)])
            t = rng.choice(T)
            out.append(tak.Move(x, y, t, (1,) if t.is_slide() else None))
        elif r < 0.62:    # on-board origin (mostly the mover's stacks), arbitrary tuple over the alphabet
            x, y = some_square()
            out.append(tak.Move(x, y, rng.choice(slides_t), rand_tuple()))
        elif r < 0.70:    # the empty tuple
            x, y = some_square()
            out.append(tak.Move(x, y, rng.choice(slides_t), ()))
        elif r < 0.82:    # positive drops whose sum passes the carry limit or the height, or that run off the board
            x, y = some_square()
            h = len(p.board[y * n + x])
            tup = rng.choice([(n + 1,), (n, 1), (1,) * (n + 1), (h + 1,), (h, 1), (1,) * n, (n,), (max(1, h),),
                              (2, n - 1), (1, n)])
            out.append(tak.Move(x, y, rng.choice(slides_t), tup))
        elif r < 0.90:    # zero / negative drops that keep a plausible sum (carry[-0:] hazard)
            x, y = some_square()
            tup = rng.choice([(0,), (1, 0), (0, 1), (2, 0), (0, 2), (3, -1), (-1, 3), (-1, 2), (1, 0, 1), (0, 0),
                              (-2, n), (n + 1, -1), (1, -1, 1)])
            out.append(tak.Move(x, y, rng.choice(slides_t), tup))
        else:             # placements carrying a stray tuple (accepted by the code, ignored by the rules)
            x, y = rng.randrange(n), rng.randrange(n)
            out.append(tak.Move(x, y, rng.choice(places_t), rand_tuple(2)))
    return out


# --------------------------------------------------------------------------
# executable oracle of the property's own statement (independent of game.py and of the Coq model):
# the rulebook relation, square by square
# --------------------------------------------------------------------------
FLAT, STANDING, CAP = 0, 1, 2
DIRS = {4: (-1, 0), 5: (1, 0), 6: (0, 1), 7: (0, -1)}


def rules_expected(p, m):
    """canonical successor the rules prescribe, or None when the rules refuse the move"""
    n, _, ply, board = canon_pos(p)
    res = [[s.stones, s.caps] for s in p.stones]
    x, y, t, drops = canon_move(m)
    if not (0 <= x < n and 0 <= y < n):
        return None
    mover = ply % 2
    nb = [list(s) for s in board]
    if t <= 3:
        kind = {1: FLAT, 2: STANDING, 3: CAP}[t]
        colour = mover
        if ply < 2:
            if kind != FLAT:
                return None
            colour = 1 - mover
        if board[y * n + x]:
            return None
        slot = 1 if kind == CAP else 0
        if res[colour][slot] <= 0:
            return None
        res[colour][slot] -= 1
        nb[y * n + x] = [(colour, kind)]
    else:
        if drops is None:
            raise ValueError("slide without a tuple: outside the domain")
        st = board[y * n + x]
        k = sum(drops)
        if ply < 2 or any(d < 1 for d in drops) or not (1 <= k <= n) or k > len(st) or st[0][0] != mover:
            return None
        dx, dy = DIRS[t]
        carry = st[:k]
        nb[y * n + x] = list(st[k:])
        done = 0
        for i, d in enumerate(drops, 1):
            X, Y = x + i * dx, y + i * dy
            if not (0 <= X < n and 0 <= Y < n):
                return None
            old = list(board[Y * n + X])
            remaining = carry[:k - done]
            if old and old[0][1] == CAP:
                return None
            if old and old[0][1] == STANDING:
                if not (i == len(drops) and d == 1 and len(remaining) == 1 and remaining[0][1] == CAP):
                    return None
                old[0] = (old[0][0], FLAT)
            nb[Y * n + X] = list(carry[k - done - d:k - done]) + old
            done += d
    return (n, tuple(tuple(r) for r in res), ply + 1, tuple(tuple(s) for s in nb))


def observe(tak, p, m):
    """('ok', successor) | ('illegal', None) | ('crash', 'ExcName: text')"""
    try:
        return "ok", p.move(m)
    except tak.IllegalMove:
        return "illegal", None
    except Exception as e:  # noqa  - any other exception is exactly what C01 forbids
        return "crash", f"{type(e).__name__}: {e}"


# --------------------------------------------------------------------------
# Python auditor of the C04 invariant (implementation side)
# --------------------------------------------------------------------------
def audit_inv(cfg, p):
    """list of the clauses of Inv that the position violates (empty = consistent)"""
    bad = []
    n = p.size
    if n != cfg.size or len(p.board) != n * n:
        bad.append("board-shape")
    cnt = [[0, 0], [0, 0]]
    total = 0
    for sq in p.board:
        for j, x in enumerate(sq):
            total += 1
            cnt[x.color.value][1 if x.kind.value == CAP else 0] += 1
            if j > 0 and x.kind.value != FLAT:
                bad.append("buried-wall-or-capstone")
    for c in (0, 1):
        s = p.stones[c]
        if cnt[c][0] + s.stones != cfg.flat_count:
            bad.append(f"stone-conservation-{'WB'[c]}")
        if cnt[c][1] + s.caps != cfg.capstone_count:
            bad.append(f"capstone-conservation-{'WB'[c]}")
        if s.stones < 0 or s.caps < 0:
            bad.append(f"negative-reserve-{'WB'[c]}")
    if p.ply < 0:
        bad.append("negative-ply")
    if (p.to_move().value == 0) != (p.ply % 2 == 0):
        bad.append("side-to-move")
    tops = [(x.color.value, x.kind.value) for sq in p.board for x in sq]
    if p.ply == 0 and total != 0:
        bad.append("ply0-board-not-empty")
    if p.ply == 1 and sorted(tops) != [(1, FLAT)]:
        bad.append("ply1-not-one-black-flat")
    if p.ply == 2 and sorted(tops) != [(0, FLAT), (1, FLAT)]:
        bad.append("ply2-not-one-flat-each")
    return sorted(set(bad))


def j_cfg(cfg):
    return {"size": cfg.size, "pieces": cfg.pieces, "capstones": cfg.capstones}


def short_hash(obj):
    return hashlib.sha256(json.dumps(obj, sort_keys=True, default=str).encode()).hexdigest()[:12]
