"""T20 - the Coq model of the two datasets is REGENERATED FROM THE SOURCE (gen/DatasetGen.v, harness/data2coq.py, written
against model/TorchData.v) and proved equal to the hand model model/Dataset.v (props/T20.v, proofs/DatasetGenEq.v).

Correspondence:
 (a) model/TorchData.v against the real interpreter: every operation of the library (slices with clamping, fancy
     indexing, range with a step, sum / max, next(iter(..)), dict set / get in insertion order, torch.cat, torch.zeros,
     block assignment, size / shape, .long()) is evaluated by CPython / torch on random small inputs and the outcome
     (value or exception class) is compared inside Coq;
 (b) the GENERATED functions, evaluated inside Coq with the observed randperm answers, against the implementation on
     usage histories of the file dataset (c20's generators; dtypes and trailing shapes are compared too) incl. a few
     out-of-domain ones (batch_size 0, an empty dict file) where the exception class is compared, and on replay windows.
search / replay: c20's implementation-only oracles (a proof or the translation broke: find the concrete input)."""
import pickle
import shutil
import tempfile

from .. import core
from ..core import cz, clist, copt, czlist, cstr
from . import c20gen


class _Lazy:
    def __getattr__(self, name):
        import importlib
        return getattr(importlib.import_module("harness.props.c20"), name)


c20 = _Lazy()

ID = "T20"
THEOREMS = ["T20_gen_new_eq", "T20_gen_next_epoch_eq", "T20_gen_fastforward_eq", "T20_gen_iter_eq", "T20_gen_pickle_eq",
            "T20_gen_cat_eq", "T20_gen_rb_iter_eq", "T20_gen_epoch_is_permutation", "T20_gen_fastforward_eq_consume",
            "T20_gen_pickle_restarts", "T20_gen_merge_padding", "T20_gen_rb_epoch_is_permutation"]
MODEL_TARGETS = ["model/Dataset.vo", "model/TorchData.vo", "model/Harness.vo", "gen/DatasetGen.vo"]
TRUSTED_BASE = [
    "model/TorchData.v (Python / torch semantics of dicts of tensors in insertion order, v[:k] / v[i:i+bs] with clamping, "
    "v[perm], range(a, b, step), sum / max, next(iter(..)), torch.cat, torch.zeros, block assignment, size / shape, .long(), "
    "PEP 479) - validated against the interpreter by this correspondence on every run",
    "harness/data2coq.py: statements -> Gallina scheme (binding in evaluation order, self / global-generator threading, loops "
    "as Fixpoints, yield as a collected list); pinned sources: __getstate__, __setstate__, pin, transient, Batch, "
    "ReplayBufferBatch, the attrs field lists (a change fails the translation); validated by running the generated functions "
    "against the implementation",
    "torch.load / torch.Generator().manual_seed / torch.randperm are the Section variables load / seed_gen / randperm with the "
    "permutation hypothesis (validated on every observed call, as in C20); .to(device) / pin are identities (cpu only)",
    "attrs: @define generates __init__ assigning the fields in order and calling __attrs_post_init__; transient fields are "
    "absent until assigned; pickle calls __getstate__ / __setstate__ on a fresh object (validated by pickle histories)",
]
ASSUMPTIONS = [
    "domain of the equalities: dict_ok (distinct keys), wf_dict (>= 1 field, equal row counts), batch_size >= 1 for __iter__; "
    "rb_dom for the replay buffer (non-empty window, every buffer with 2-D positions / mask of one shape and >= 1 row, integer / "
    "0-1 payloads, the first buffer's other keys with its trailing shapes and dtypes); outside it the generated code is still "
    "a model (Crash outcomes) and is compared with the implementation's exception classes on a few cases",
    "a generator is modelled completely consumed (list(ds)); `take k` in the histories is firstn k of that list",
]
_STATE = {}


def pregen(run):
    err = c20gen.pregen(run)
    _STATE["err"] = err
    return err


# --------------------------------------------------------------------------------------------------------------------
# literals
# --------------------------------------------------------------------------------------------------------------------
EXN = {"ValueError": "ValueError", "IndexError": "IndexError", "KeyError": "KeyError", "StopIteration": "StopIteration",
       "RuntimeError": "RuntimeError", "TypeError": "TypeError", "AttributeError": "AttributeError"}


def c_tensor(t):
    """torch tensor (>= 1-D) -> mkT literal"""
    return f"(mkT {c20.dt_code(t)} {czlist(list(t.shape[1:]))} {c20.c_rows(c20.rows_of(t))})"


def c_tdict(d):
    return clist([f"({cstr(k)}, {c_tensor(v)})" for k, v in d.items()])


def outcome(f, conv):
    """('V', literal) or ('E', exception constructor); unknown exception classes are re-raised"""
    try:
        v = f()
    except Exception as e:  # noqa
        name = type(e).__name__
        if name not in EXN:
            raise
        return f"(OE {EXN[name]})", name
    return f"(OV {conv(v)})", "value"


SEM_HEADER = """From Coq Require Import ZArith List Bool.
From TV Require Import model.Dataset model.TorchData.
Import ListNotations.
Open Scope Z_scope.
Definition zl_eqb := list_eqb Z.eqb.
Definition exn_eqb (a b : exn) : bool :=
  match a, b with
  | ValueError, ValueError | IndexError, IndexError | KeyError, KeyError | StopIteration, StopIteration
  | RuntimeError, RuntimeError | TypeError, TypeError | AttributeError, AttributeError => true
  | _, _ => false
  end.
Inductive ob (A : Type) := OV (v : A) | OE (e : exn).
Arguments OV {A} v. Arguments OE {A} e.
(* Unmodelled: the library takes no position; counted by the harness, never compared *)
Definition agree {A} (eqb : A -> A -> bool) (r : res A) (o : ob A) : bool :=
  match r, o with
  | Ok v, OV w => eqb v w
  | Crash Unmodelled, _ => true
  | Crash e, OE e' => exn_eqb e e'
  | _, _ => false
  end.
Definition tensor_eqb (a b : tensor) : bool :=
  (t_dtype a =? t_dtype b) && zl_eqb (t_tail a) (t_tail b) && rows_eqb (t_rows a) (t_rows b).
Definition tdict_eqb (a b : tdict) : bool :=
  list_eqb (fun x y => fname_eqb (fst x) (fst y) && tensor_eqb (snd x) (snd y)) a b.
Inductive pcase :=
| CSlice (t : tensor) (a b : option Z) (r : tensor)                 (* t[a:b] *)
| CLSlice (l : list Z) (a b : option Z) (r : list Z)                (* l[a:b] on a list *)
| CIndex (t : tensor) (idx : list Z) (o : ob tensor)                (* t[torch.tensor(idx)] *)
| CGet (l : list Z) (i : Z) (o : ob Z)                              (* tuple(l)[i] *)
| CRange (n : Z) (r : list Z)                                       (* list(range(n)) *)
| CRange3 (a b s : Z) (o : ob (list Z))                             (* list(range(a, b, s)) *)
| CSumMax (l : list Z) (s : Z) (m : ob Z)                           (* sum(x for x in l), max(x for x in l) *)
| CNext (d : tdict) (o : ob tensor)                                 (* next(iter(d.values())) *)
| CDict (pairs : list (fname * tensor)) (k : fname) (d : tdict) (o : ob tensor)   (* {k: v for ..} / d[k] = v in order; d[k] *)
| CCat (ts : list tensor) (o : ob tensor)                           (* torch.cat(ts) *)
| CZeros (n w code : Z) (o : ob tensor)                             (* torch.zeros((n, w), dtype) *)
| CSet (dst : tensor) (r0 r1 c1 : Z) (src : tensor) (o : ob tensor) (* dst[r0:r1, :c1] = src *)
| CSize (t : tensor) (i : Z) (o1 o2 : ob Z) (n : Z)                 (* t.size(i), t.shape[i], len(t) *)
| CLong (t : tensor) (o : ob tensor)                                (* t.long() *)
| CIn (k : fname) (l : list fname) (b : bool)                       (* k in [..] *)
| COpt (a : option Z) (b : Z) (o : ob Z) (c : bool).                (* a * b, a is not None *)
Definition pchk (c : pcase) : bool :=
  match c with
  | CSlice t a b r => tensor_eqb (t_slice t a b) r
  | CLSlice l a b r => zl_eqb (py_slice l a b) r
  | CIndex t idx o => agree tensor_eqb (t_index t idx) o
  | CGet l i o => agree Z.eqb (py_getitem l i) o
  | CRange n r => zl_eqb (py_range n) r
  | CRange3 a b s o => agree zl_eqb (py_range3 a b s) o
  | CSumMax l s m => (py_sum l =? s) && agree Z.eqb (py_max l) m
  | CNext d o => agree tensor_eqb (py_next (d_values d)) o
  | CDict pairs k d o => tdict_eqb (dict_of_pairs pairs) d && agree tensor_eqb (d_get (dict_of_pairs pairs) k) o
                         && zl_eqb (map (fun x => Z.of_nat (length x)) (d_keys d)) (map (fun x => Z.of_nat (length (fst x))) (d_items d))
  | CCat ts o => agree tensor_eqb (torch_cat ts) o
  | CZeros n w code o => agree tensor_eqb (torch_zeros2 n w code) o
  | CSet dst r0 r1 c1 src o => agree tensor_eqb (t_setblock dst r0 r1 c1 src) o
  | CSize t i o1 o2 n => agree Z.eqb (t_size t i) o1 && agree Z.eqb (py_getitem (t_shape t) i) o2 && (t_len t =? n)
  | CLong t o => agree tensor_eqb (t_long t) o
  | CIn k l b => Bool.eqb (str_in k l) b
  | COpt a b o c => agree Z.eqb (x <- py_int_of_opt a ;; Ok (x * b)) o && Bool.eqb (is_some a) c
  end.
(* does the library take a position on this case? *)
Definition unmodelled (c : pcase) : bool :=
  let u {A} (r : res A) := match r with Crash Unmodelled => true | _ => false end in
  match c with
  | CCat ts _ => u (torch_cat ts) | CSet dst r0 r1 c1 src _ => u (t_setblock dst r0 r1 c1 src) | CLong t _ => u (t_long t)
  | CIndex t idx _ => u (t_index t idx)
  | _ => false
  end.
"""

GEN_HEADER = SEM_HEADER + """From TV Require gen.DatasetGen.
Definition batches_eqb := list_eqb tdict_eqb.
Section Run.
  Variable t : oracle.
  Variable s0 : Z.
  Variable raw : tdict.
  Definition rp := tbl_randperm t.
  Definition sg (_ : Z) : Z := s0.
  Definition ld (_ : list Z) : tdict := raw.
  Definition gstep (o : dsobj Z) (z : zop) : res (list tdict * dsobj Z) :=
    let '(k, a) := z in
    if k =? 0 then DatasetGen.ds_iter Z rp o
    else if k =? 1 then '(ys, o1) <- DatasetGen.ds_iter Z rp o ;; Ok (firstn (Z.to_nat a) ys, o1)
    else if k =? 2 then o1 <- DatasetGen.ds_fastforward_epochs Z rp o a ;; Ok ([], o1)
    else st <- DatasetGen.ds_getstate Z o ;; o1 <- DatasetGen.ds_setstate Z sg ld st ;; Ok ([], o1).
  Fixpoint grun (ops : list zop) (o : dsobj Z) : list (list tdict) * option exn :=
    match ops with
    | [] => ([], None)
    | z :: r => match gstep o z with
                | Ok (ys, o1) => let '(l, e) := grun r o1 in (ys :: l, e)
                | Crash e => ([], Some e)
                end
    end.
  Definition grun_new (c : config) (ops : list zop) : list (list tdict) * option exn :=
    match DatasetGen.ds_new Z sg ld (cpath c) (batch_size c) (nbatches c) (cseed c) with
    | Ok o => grun ops o
    | Crash e => ([], Some e)
    end.
End Run.
Definition oexn_eqb (a b : option exn) : bool :=
  match a, b with Some x, Some y => exn_eqb x y | None, None => true | _, _ => false end.
Inductive gcase :=
| GFile (t : oracle) (s0 : Z) (raw : tdict) (c : config) (ops : list zop) (obs : list (list tdict)) (e : option exn)
| GReplay (t : oracle) (g0 : Z) (bufs : list tdict) (bs : Z) (flat : ob tdict) (obs : ob (list tdict)).
Definition gchk (c : gcase) : bool :=
  match c with
  | GFile t s0 raw c ops obs e =>
      let '(out, e') := grun_new t s0 raw c ops in list_eqb batches_eqb out obs && oexn_eqb e' e
  | GReplay t g0 bufs bs flat obs =>
      agree tdict_eqb (o <- DatasetGen.rb_new bufs bs ;; get_flat o) flat
      && agree batches_eqb (o <- DatasetGen.rb_new bufs bs ;; '(ys, _) <- DatasetGen.rb_iter Z (tbl_randperm t) o g0 ;; Ok ys) obs
  end.
Definition gshow (c : gcase) :=
  match c with
  | GFile t s0 raw c ops obs e => (grun_new t s0 raw c ops, Ok [])
  | GReplay t g0 bufs bs flat obs => (([], None), o <- DatasetGen.rb_new bufs bs ;; '(ys, _) <- DatasetGen.rb_iter Z (tbl_randperm t) o g0 ;; Ok ys)
  end.
"""


# --------------------------------------------------------------------------------------------------------------------
# (a) TorchData.v against the interpreter
# --------------------------------------------------------------------------------------------------------------------
DT = ["uint8", "int64", "int32", "bool", "float32"]


def rand_tensor(rng, torch, n=None, tail=None, dtype=None):
    n = rng.randrange(0, 6) if n is None else n
    tail = rng.choice([[], [], [0], [1], [2], [3], [2, 2]]) if tail is None else tail
    dtype = dtype or rng.choice(DT)
    cnt = n
    for s in tail:
        cnt *= s
    if dtype == "bool":
        vals = [rng.random() < 0.5 for _ in range(cnt)]
    elif dtype == "float32":
        vals = [rng.randrange(-16, 16) / 4.0 for _ in range(cnt)]
    elif dtype == "uint8":
        vals = [rng.randrange(256) for _ in range(cnt)]
    else:
        vals = [rng.randrange(-9, 10) for _ in range(cnt)]
    return torch.tensor(vals, dtype=getattr(torch, dtype)).reshape([n] + tail)


def sem_cases(run, n_cases):
    import torch
    rng = run.rng
    cs = core.Cases(ID, "sem", SEM_HEADER, "pcase", "pchk", shard=250)
    um = core.Cases(ID, "sem_unmodelled", SEM_HEADER, "pcase", "fun c => negb (unmodelled c)", shard=100000)
    dist = {}
    samples = []
    names = ["positions", "mask", "a", "b", "values", "moves"]

    def ob_opt(b):
        return copt(None if b is None else cz(b))

    def add(kind, term, meta, outc="value"):
        cs.add(term, dict(meta, kind=kind))
        um.add(term, dict(meta, kind=kind))
        key = f"{kind}:{outc}"
        dist[key] = dist.get(key, 0) + 1
        if len(samples) < 6 and rng.random() < 0.01:
            samples.append({"kind": kind, "case": term[:300]})

    kinds = ["slice", "lslice", "index", "get", "range", "range3", "summax", "next", "dict", "cat", "zeros", "set", "set",
             "size", "long", "in", "opt"]
    for _ in range(n_cases):
        k = rng.choice(kinds)
        if k == "slice":
            t = rand_tensor(rng, torch)
            n = t.shape[0]
            a = rng.choice([None, rng.randrange(-n - 3, n + 4)])
            b = rng.choice([None, rng.randrange(-n - 3, n + 4)])
            add(k, f"(CSlice {c_tensor(t)} {ob_opt(a)} {ob_opt(b)} {c_tensor(t[a:b])})", {"n": n, "a": a, "b": b})
        elif k == "lslice":
            l = [rng.randrange(-9, 10) for _ in range(rng.randrange(0, 7))]
            a = rng.choice([None, rng.randrange(-10, 11)])
            b = rng.choice([None, rng.randrange(-10, 11)])
            add(k, f"(CLSlice {czlist(l)} {ob_opt(a)} {ob_opt(b)} {czlist(l[a:b])})", {"l": l, "a": a, "b": b})
        elif k == "index":
            t = rand_tensor(rng, torch)
            n = t.shape[0]
            idx = [rng.randrange(-n - 2, n + 2) if rng.random() < 0.3 else rng.randrange(0, max(1, n)) for _ in range(rng.randrange(0, 6))]
            o, oc = outcome(lambda: t[torch.tensor(idx, dtype=torch.long)], c_tensor)
            add(k, f"(CIndex {c_tensor(t)} {czlist(idx)} {o})", {"n": n, "idx": idx}, oc)
        elif k == "get":
            l = [rng.randrange(-9, 10) for _ in range(rng.randrange(0, 5))]
            i = rng.randrange(-len(l) - 2, len(l) + 2)
            o, oc = outcome(lambda: tuple(l)[i], cz)
            add(k, f"(CGet {czlist(l)} {cz(i)} {o})", {"l": l, "i": i}, oc)
        elif k == "range":
            n = rng.randrange(-3, 9)
            add(k, f"(CRange {cz(n)} {czlist(list(range(n)))})", {"n": n})
        elif k == "range3":
            a, b, s = rng.randrange(-4, 6), rng.randrange(-6, 14), rng.randrange(-4, 6)
            o, oc = outcome(lambda: list(range(a, b, s)), czlist)
            add(k, f"(CRange3 {cz(a)} {cz(b)} {cz(s)} {o})", {"a": a, "b": b, "s": s}, oc)
        elif k == "summax":
            l = [rng.randrange(-9, 10) for _ in range(rng.randrange(0, 6))]
            o, oc = outcome(lambda: max(x for x in l), cz)
            add(k, f"(CSumMax {czlist(l)} {cz(sum(x for x in l))} {o})", {"l": l}, oc)
        elif k == "next":
            d = {nm: rand_tensor(rng, torch, n=rng.randrange(0, 3)) for nm in rng.sample(names, rng.randrange(0, 3))}
            o, oc = outcome(lambda: next(iter(d.values())), c_tensor)
            add(k, f"(CNext {c_tdict(d)} {o})", {"keys": list(d)}, oc)
        elif k == "dict":
            pairs = [(rng.choice(names[:4]), rand_tensor(rng, torch, n=rng.randrange(0, 3), tail=[])) for _ in range(rng.randrange(0, 6))]
            d = {}
            for kk, v in pairs:
                d[kk] = v
            d2 = {kk: v for kk, v in pairs}
            assert list(d) == list(d2)
            key = rng.choice(names[:5])
            o, oc = outcome(lambda: d[key], c_tensor)
            pl = clist([f"({cstr(kk)}, {c_tensor(v)})" for kk, v in pairs])
            add(k, f"(CDict {pl} {cstr(key)} {c_tdict(d)} {o})", {"keys": [p[0] for p in pairs], "key": key}, oc)
        elif k == "cat":
            tail = rng.choice([[], [2], [3], [2, 2]])
            dt = rng.choice(DT)
            ts = []
            for _ in range(rng.randrange(0, 4)):
                tl = tail if rng.random() < 0.85 else rng.choice([[], [2], [3], [1]])
                d = dt if rng.random() < 0.9 else rng.choice(DT)
                ts.append(rand_tensor(rng, torch, tail=tl, dtype=d))
            o, oc = outcome(lambda: torch.cat(ts), c_tensor)
            add(k, f"(CCat {clist([c_tensor(t) for t in ts])} {o})", {"shapes": [list(t.shape) for t in ts]}, oc)
        elif k == "zeros":
            n, w = rng.randrange(-1, 5), rng.randrange(-1, 5)
            dt = rng.choice(["long", "bool"])
            o, oc = outcome(lambda: torch.zeros((n, w), dtype=getattr(torch, dt)), c_tensor)
            add(k, f"(CZeros {cz(n)} {cz(w)} {1 if dt == 'long' else 4} {o})", {"n": n, "w": w}, oc)
        elif k == "set":
            N, W = rng.randrange(0, 6), rng.randrange(0, 6)
            ddt = rng.choice(["int64", "bool"])
            dst = rand_tensor(rng, torch, n=N, tail=[W], dtype=ddt) if rng.random() < 0.4 else torch.zeros((N, W), dtype=getattr(torch, ddt))
            fit = rng.random() < 0.6
            r0 = rng.randrange(0, N + 1) if fit else rng.randrange(-2, N + 3)
            r = rng.randrange(0, N - r0 + 1) if fit and r0 <= N else rng.randrange(0, 4)
            w = rng.randrange(0, W + 1) if fit else rng.randrange(0, W + 3)
            src = rand_tensor(rng, torch, n=r, tail=[w], dtype=rng.choice(["int64", "bool", "uint8", "int32", "int64", "bool"]))
            r1 = r0 + r if rng.random() < 0.8 else rng.randrange(-2, N + 3)
            c1 = w if rng.random() < 0.8 else rng.randrange(-2, W + 3)

            def f():
                x = dst.clone()
                x[r0:r1, :c1] = src
                return x
            o, oc = outcome(f, c_tensor)
            add(k, f"(CSet {c_tensor(dst)} {cz(r0)} {cz(r1)} {cz(c1)} {c_tensor(src)} {o})",
                {"dst": list(dst.shape), "r0": r0, "r1": r1, "c1": c1, "src": list(src.shape)}, oc)
        elif k == "size":
            t = rand_tensor(rng, torch)
            i = rng.randrange(-4, 4)
            o1, oc = outcome(lambda: t.size(i), cz)
            o2, _ = outcome(lambda: t.shape[i], cz)
            add(k, f"(CSize {c_tensor(t)} {cz(i)} {o1} {o2} {len(t)})", {"shape": list(t.shape), "i": i}, oc)
        elif k == "long":
            t = rand_tensor(rng, torch)
            o, oc = outcome(lambda: t.long(), c_tensor)
            add(k, f"(CLong {c_tensor(t)} {o})", {"dtype": str(t.dtype)}, oc)
        elif k == "in":
            key = rng.choice(names)
            l = rng.sample(names, rng.randrange(0, 4))
            add(k, f"(CIn {cstr(key)} {clist([cstr(x) for x in l])} {core.cbool(key in l)})", {"k": key, "l": l})
        else:
            a = rng.choice([None, rng.randrange(-5, 6)])
            b = rng.randrange(-5, 6)
            o, oc = outcome(lambda: a * b, cz)
            add(k, f"(COpt {ob_opt(a)} {cz(b)} {o} {core.cbool(a is not None)})", {"a": a, "b": b}, oc)
    return cs, um, dist, samples


# --------------------------------------------------------------------------------------------------------------------
# (b) the generated functions against the implementation
# --------------------------------------------------------------------------------------------------------------------
def run_file_tensors(spec, tmpdir):
    """like c20.run_file_impl, but keeps dtypes / shapes of everything yielded and stops at the first exception"""
    from xformer import data as xdata
    path, stored = c20.save_spec(spec, tmpdir)
    obs, exn = [], None
    with c20.Recorder() as rec:
        seed_state = rec.seed_state(spec["seed"])
        try:
            ds = xdata.Dataset(path, batch_size=spec["batch_size"], batches=spec["batches"], seed=spec["seed"])
            for kind, arg in spec["ops"]:
                out = []
                if kind == "iter":
                    out = [dict(b.data) for b in ds]
                elif kind == "take":
                    out = [dict(b.data) for b in ds][:arg]      # the model's generators are completely consumed
                elif kind == "ff":
                    ds.fastforward_epochs(arg)
                elif kind == "pickle":
                    ds = pickle.loads(pickle.dumps(ds))
                obs.append(out)
        except Exception as e:  # noqa
            if type(e).__name__ not in EXN:
                raise
            exn = type(e).__name__
    return {"seed_state": seed_state, "calls": rec.calls, "obs": obs, "exn": exn, "stored": stored}


def file_gcase(spec, o):
    tbl, _ = c20.oracle_table(o["calls"])
    t = clist([f"({cz(k[0])}, {cz(k[1])}, {czlist(v[0])}, {cz(v[1])})" for k, v in tbl.items()])
    cf = f"(mkConfig [] {cz(spec['batch_size'])} {copt(None if spec['batches'] is None else cz(spec['batches']))} {cz(spec['seed'])})"
    ops = clist([f"({c20.OPC[k]}, {cz(a)})" for k, a in spec["ops"]])
    obs = clist([clist([c_tdict(b) for b in e]) for e in o["obs"]])
    e = "None" if o["exn"] is None else f"(Some {EXN[o['exn']]})"
    return f"(GFile {t} {cz(o['seed_state'])} {c_tdict(o['stored'])} {cf} {ops} {obs} {e})"


def rb_gcase(spec):
    import torch
    from tak.alphazero import data as rbdata
    bufs = [{f["name"]: c20.mk_tensor(f) for f in b} for b in spec["buffers"]]
    with c20.Recorder() as rec:
        g0 = rec.sid(torch.default_generator.get_state())

        def mk():
            return rbdata.ReplayBufferDataset(bufs, batch_size=spec["batch_size"], device="cpu")
        flat, oc1 = outcome(lambda: mk().flat_replay_buffer, c_tdict)
        obs, oc2 = outcome(lambda: [dict(b.data) for b in mk()], lambda bs: clist([c_tdict(b) for b in bs]))
        calls = rec.calls
    g0 = calls[0][0] if calls else g0
    tbl, _ = c20.oracle_table(calls)
    t = clist([f"({cz(k[0])}, {cz(k[1])}, {czlist(v[0])}, {cz(v[1])})" for k, v in tbl.items()])
    return (f"(GReplay {t} {cz(g0)} {clist([c_tdict(b) for b in bufs])} {cz(spec['batch_size'])} {flat} {obs})", oc1, oc2)


def _crash_specs(rng):
    """out-of-domain histories: the exception class is part of the model"""
    out = []
    f2 = [{"name": "a", "dtype": "uint8", "shape": [4], "values": [1, 2, 3, 4]}, {"name": "b", "dtype": "int64", "shape": [4, 2], "values": list(range(8))}]
    for ops in ([["iter", 0]], [["ff", 1], ["iter", 0]], [["pickle", 0], ["take", 1]]):
        out.append({"kind": "file", "fields": f2, "batch_size": 0, "batches": None, "seed": 3, "ops": ops})        # ValueError in range()
        out.append({"kind": "file", "fields": [], "batch_size": 2, "batches": None, "seed": 3, "ops": ops})        # empty dict: StopIteration / RuntimeError
    out.append({"kind": "file", "fields": f2, "batch_size": -2, "batches": 1, "seed": 3, "ops": [["iter", 0], ["ff", -2], ["iter", 0]]})
    out.append({"kind": "file", "fields": f2, "batch_size": 3, "batches": -1, "seed": 3, "ops": [["iter", 0]]})
    return out


def correspondence(run):
    c20._setup()
    quick = run.quick
    # ---- (a)
    cs, um, dist, samples = sem_cases(run, 3000 if quick else 20000)
    failing, shard_fail, ns = cs.run()
    not_modelled, sf2, _ = um.run()
    run.oblige(f"correspondence:TorchData.v against CPython/torch ({ns} shards, {len(cs)} cases)", not shard_fail and not sf2,
               str(shard_fail + sf2)[:1500])
    dist["library takes no position (Crash Unmodelled: dtype promotion, broadcasting, float casts, unchecked index into empty rows)"] = len(not_modelled)
    run.count(len(cs), len(cs) - len(not_modelled),
              "one evaluation = one operation of model/TorchData.v on a random small input, outcome (value or exception class) "
              "compared with CPython / torch inside Coq; non-trivial = the library takes a position (not Crash Unmodelled)",
              samples, dist, label="TorchData.v")
    for meta in failing[:6]:
        run.violation(f"sem-{meta['kind']}-{core.hashlib.sha1(repr(sorted(meta.items())).encode()).hexdigest()[:10]}",
                      {"clause": "model/TorchData.v disagrees with the interpreter", "input": {"kind": "sem", "case": meta},
                       "model_view": cs.model_view(cs.terms[cs.metas.index(meta)]) if cs.show else None})
    # ---- (b)
    if _STATE.get("err"):
        run.extra["differential_skipped"] = "the translation failed; gen/DatasetGen.v is a stub"
        return
    rng = run.rng
    tmpdir = tempfile.mkdtemp(prefix="verif_t20_")
    try:
        n_file, n_rb = (260, 120) if quick else (2500, 1000)
        specs = c20._pinned_specs() + _crash_specs(rng)
        for _ in range(n_file):
            s = c20.gen_file_spec(rng, True)
            if s["fields"][0]["shape"][0] <= 60:
                specs.append(s)
        cg = core.Cases(ID, "gen", GEN_HEADER, "gcase", "gchk", show="gshow", shard=25)
        gdist = {"file_histories": 0, "file_crashing": {}, "replay_windows": 0, "replay_crashing": 0}
        crashes = []
        for spec in specs:
            try:
                o = run_file_tensors(spec, tmpdir)
            except Exception as e:  # noqa
                crashes.append((spec, repr(e)))
                continue
            cg.add(file_gcase(spec, o), {"kind": "file", "input": spec, "exception": o["exn"]})
            gdist["file_histories"] += 1
            if o["exn"]:
                gdist["file_crashing"][o["exn"]] = gdist["file_crashing"].get(o["exn"], 0) + 1
        rspecs = [c20.gen_rb_spec(rng, True) for _ in range(n_rb)]
        rspecs.append({"kind": "replay", "buffers": [], "batch_size": 2})
        b1 = [{"name": "positions", "dtype": "int64", "shape": [2, 2], "values": [1, 2, 3, 4]}, {"name": "mask", "dtype": "bool", "shape": [2, 2], "values": [True] * 4},
              {"name": "values", "dtype": "float32", "shape": [2], "values": [0.5, 1.0]}]
        b2 = [{"name": "positions", "dtype": "int64", "shape": [1, 3], "values": [5, 6, 7]}, {"name": "mask", "dtype": "bool", "shape": [1, 3], "values": [True] * 3}]
        rspecs.append({"kind": "replay", "buffers": [b1, b2], "batch_size": 2})                       # KeyError: 'values'
        rspecs.append({"kind": "replay", "buffers": [b1, [b2[0], {"name": "mask", "dtype": "bool", "shape": [1, 2], "values": [True] * 2},
                                                         {"name": "values", "dtype": "float32", "shape": [1], "values": [2.0]}]], "batch_size": 2})  # RuntimeError
        rspecs.append({"kind": "replay", "buffers": [b1], "batch_size": 0})                           # ValueError in range()
        for spec in rspecs:
            try:
                term, oc1, oc2 = rb_gcase(spec)
            except Exception as e:  # noqa
                crashes.append((spec, repr(e)))
                continue
            cg.add(term, {"kind": "replay", "input": spec, "outcomes": [oc1, oc2]})
            gdist["replay_windows"] += 1
            gdist["replay_crashing"] += oc1 != "value" or oc2 != "value"
        c20._size_shards(cg, target=100_000)
        gfail, gshard_fail, gn = cg.run()
        run.oblige(f"correspondence:gen/DatasetGen.v against the implementation ({gn} shards, {len(cg)} histories / windows)",
                   not gshard_fail, str(gshard_fail)[:1500])
        run.oblige("correspondence:harness (no unexpected exception class)", not crashes, "; ".join(c[1] for c in crashes[:3]))
        run.count(len(cg), len(cg),
                  "one evaluation = one usage history of Dataset (construct, iter / take / fastforward / pickle) or one ReplayBufferDataset "
                  "(flat_replay_buffer + one epoch) run on the implementation and on the GENERATED functions inside Coq with the observed "
                  "randperm answers: every yielded batch incl. dtype and trailing shape, or the class of the exception", [], gdist,
                  label="generated functions")
        for meta in sorted(gfail, key=lambda m: c20._size_of(m["input"]))[:6]:
            term = cg.terms[cg.metas.index(meta)]
            run.violation(f"gen-{meta['kind']}-{c20.spec_hash(meta['input'])}",
                          {"clause": "the functions translated from the source disagree with the implementation (translator / TorchData.v)",
                           "input": meta["input"], "observed": {k: v for k, v in meta.items() if k != "input"},
                           "model_view": cg.model_view(term) if c20._size_of(meta["input"]) < 3000 else "omitted"})
    finally:
        shutil.rmtree(tmpdir, ignore_errors=True)


def search(run, broken):
    """the translation or an equality broke while the generated functions still agree with the implementation: the SOURCE
    changed - find a concrete input with C20's implementation-only oracles"""
    return c20.search(run, broken)


def replay(run, rp):
    if rp.get("input", {}).get("kind") in ("file", "replay", "multi"):
        return c20.replay(run, rp)
    return {"violates": False, "note": "semantics-library cases are regenerated from the seed, not replayed individually"}
