"""C02 - game-over adjudication is right for every position.

Correspondence: positions (random boards, structured roads, playouts, corpus)
-> the implementation's winner() and has_road() -> cases evaluated inside Coq
against model/Road.v, which proofs/RoadProofs.v proves equal to the declarative
outcome of spec/RoadSpec.v.  An independent component-labelling oracle of the
property's own statement (this file, `oracle`) is used to name the clause a
disagreement violates and for the search when a proof or a shard broke."""
import hashlib
import json
import random
import time

from .. import core, takio
from ..core import cz

ID = "C02"
THEOREMS = ["C02_walk_is_path", "C02_color_road", "C02_has_road", "C02_winner", "C02_flat_count",
            "C02_has_road_agrees_winner", "C02_no_road_agrees_winner", "C02_tie_kind_is_road",
            "C02_source_winner_outcome",
            "C02_walk_py_reach", "C02_walk_py_eq", "C02_walk_py_is_path", "C02_has_road_py_eq", "C02_has_road_py",
            "C02_source_walk_eq", "C02_source_has_road_eq", "C02_source_winner_eq", "C02_source_has_road_verdict"]
MODEL_TARGETS = ["model/Tak.vo", "model/Road.vo", "model/RoadPy.vo", "model/Harness.vo", "model/Lit.vo"]
TRUSTED_BASE = [
    "CPython list indexing board[y*size+x] and stack[0] = top (validated by the correspondence)",
    "model/Road.v computes reachability by rounds of neighbour closure, not by the Python work-list: results are "
    "compared by the correspondence, the algorithm of _walk itself is not translated",
]
ASSUMPTIONS = [
    "theorems hold for every position with size >= 1 and len(board) = size^2 (wf_pos); each correspondence case "
    "re-checks that guard inside Coq",
    "positions with len(board) != size^2 (IndexError territory) are outside the property's domain and not generated",
]

HEADER = (
    "From Coq Require Import ZArith List Bool.\n"
    "From TV Require Import model.Tak model.Road model.Lit.\n"
    "Import ListNotations.\n"
    "Definition reason_eqb (a b : reason) : bool := match a, b with Road, Road | Flats, Flats => true | _, _ => false end.\n"
    "Definition wr_eqb (a b : option color * option reason) : bool :=\n"
    "  opt_eqb color_eqb (fst a) (fst b) && opt_eqb reason_eqb (snd a) (snd b).\n"
    "Definition wfb (p : position) : bool := (1 <=? size p)%Z && (zlen (board p) =? size p * size p)%Z."
)
CTYPE = "position * (option color * option reason) * option color"
CHECK = ("fun c => let '(p, w, h) := c in wfb p && wr_eqb (winner p) w && opt_eqb color_eqb (has_road p) h")
SHOW = ("fun c => let '(p, w, h) := c in (winner p, has_road p, (color_has_road p White, color_has_road p Black), "
        "(flat_count_of p White, flat_count_of p Black), (board_full p, out_of_pieces p))")

MAX_REPLAYS = 6


# --------------------------------------------------------------------------
# building positions
# --------------------------------------------------------------------------
def _P():
    import tak
    W, B = tak.Color.WHITE, tak.Color.BLACK
    F, S, C = tak.Kind.FLAT, tak.Kind.STANDING, tak.Kind.CAPSTONE
    return tak, W, B, F, S, C


def mkpos(n, board, ply, stones):
    import tak
    return tak.Position(size=n, ply=ply,
                        stones=(tak.StoneCounts(stones=stones[0][0], caps=stones[0][1]),
                                tak.StoneCounts(stones=stones[1][0], caps=stones[1][1])),
                        board=board)


RESERVE_STATES = ["plenty", "plenty", "plenty", "w0", "b0", "both0", "w_caponly", "b_caponly", "w_stoneonly",
                  "one_left", "cancel"]


def gen_reserves(rng, n, state=None):
    """all reserve states: plenty, either/both exhausted, only a capstone left, only stones left, one piece left,
    and the odd constructed state stones + caps = 0 with non-zero parts"""
    state = state or rng.choice(RESERVE_STATES)
    big = lambda: (rng.randint(1, 50), rng.randint(0, 2))  # noqa: E731
    w, b = big(), big()
    if state == "w0":
        w = (0, 0)
    elif state == "b0":
        b = (0, 0)
    elif state == "both0":
        w = b = (0, 0)
    elif state == "w_caponly":
        w = (0, 1)
    elif state == "b_caponly":
        b = (0, rng.randint(1, 2))
    elif state == "w_stoneonly":
        w = (rng.randint(1, 3), 0)
    elif state == "one_left":
        w, b = (1, 0), (0, 1)
    elif state == "cancel":
        if rng.random() < 0.5:
            w = (-1, 1)
        else:
            b = (1, -1)
    return (w, b), state


def rand_stack(rng, P, topcolor=None, topkind=None, maxh=4, wshare=0.5, wallp=0.15, capp=0.1):
    tak, W, B, F, S, C = P
    h = 1
    while h < maxh and rng.random() < 0.35:
        h += 1
    col = topcolor if topcolor is not None else (W if rng.random() < wshare else B)
    if topkind is None:
        r = rng.random()
        topkind = S if r < wallp else (C if r < wallp + capp else F)
    st = [tak.Piece.cached(col, topkind)]
    for _ in range(h - 1):
        st.append(tak.Piece.cached(W if rng.random() < 0.5 else B, F))
    return st


def random_board(rng, n, density, wshare, wallp):
    P = _P()
    return [rand_stack(rng, P, wshare=wshare, wallp=wallp) if rng.random() < density else [] for _ in range(n * n)]


def full_equal_flats(rng, n):
    """full board, equal numbers of white and black top flats, the rest walls and capstones; buried pieces differ"""
    P = _P()
    tak, W, B, F, S, C = P
    N = n * n
    k = rng.randint(0, N // 2)
    tops = [(W, F)] * k + [(B, F)] * k
    while len(tops) < N:
        tops.append((rng.choice([W, B]), rng.choice([S, S, C])))
    rng.shuffle(tops)
    return [rand_stack(rng, P, topcolor=c, topkind=kd) for c, kd in tops]


def sa_path(rng, n, lo=0, hi=None):
    """random self-avoiding path from x = 0 to x = n-1 inside rows lo..hi-1 (stops on first reaching the far edge)"""
    hi = n if hi is None else hi
    for _ in range(60):
        start = (0, rng.randrange(lo, hi))
        path, seen = [start], {start}
        while path[-1][0] != n - 1:
            x, y = path[-1]
            cand = [(x + 1, y), (x + 1, y), (x, y + 1), (x, y - 1), (x - 1, y)]
            cand = [(a, b) for a, b in cand if 0 <= a < n and lo <= b < hi and (a, b) not in seen]
            if not cand:
                break
            nx = rng.choice(cand)
            path.append(nx)
            seen.add(nx)
        else:
            return path
    y = rng.randrange(lo, hi)
    return [(x, y) for x in range(n)]


PERTURB = ["none", "wall", "oppcap", "buried", "hole", "crossing", "parallel", "detour_fill"]


def road_board(rng, n, kind):
    """a board built around a self-avoiding edge-to-edge path of colour c, then perturbed"""
    P = _P()
    tak, W, B, F, S, C = P
    c = rng.choice([W, B])
    o = c.flip()
    horiz = rng.random() < 0.5
    tr = (lambda x, y: (x, y)) if horiz else (lambda x, y: (y, x))
    board = [[] for _ in range(n * n)]

    def put(x, y, st):
        a, b = tr(x, y)
        board[b * n + a] = st

    if kind == "parallel":
        k = rng.randint(1, n - 1)
        pa, pb = sa_path(rng, n, 0, k), sa_path(rng, n, k, n)
        if rng.random() < 0.5:
            pa, pb = pb, pa
        for (x, y) in pa:
            put(x, y, rand_stack(rng, P, topcolor=c, topkind=rng.choice([F, F, F, C])))
        for (x, y) in pb:
            put(x, y, rand_stack(rng, P, topcolor=o, topkind=rng.choice([F, F, F, C])))
        if rng.random() < 0.3:     # spoil one of them
            x, y = rng.choice(pb)
            put(x, y, rand_stack(rng, P, topcolor=o, topkind=S))
        return board
    path = sa_path(rng, n)
    fillp = rng.choice([0.0, 0.15, 0.4]) if kind != "detour_fill" else 0.6
    for y in range(n):
        for x in range(n):
            if rng.random() < fillp:
                if kind == "detour_fill":
                    put(x, y, rand_stack(rng, P, topcolor=c if rng.random() < 0.6 else o, wallp=0.2))
                else:
                    put(x, y, rand_stack(rng, P, topcolor=o if rng.random() < 0.8 else c,
                                         topkind=None if rng.random() < 0.8 else S))
    for (x, y) in path:
        put(x, y, rand_stack(rng, P, topcolor=c, topkind=rng.choice([F, F, F, C])))
    if kind in ("wall", "oppcap", "buried", "hole", "detour_fill"):
        x, y = rng.choice(path)
        a, b = tr(x, y)
        old = board[b * n + a]
        if kind in ("wall", "detour_fill"):
            put(x, y, [tak.Piece.cached(c, S)] + old[1:])
        elif kind == "oppcap":
            put(x, y, [tak.Piece.cached(o, C)] + old[1:])
        elif kind == "buried":
            put(x, y, [tak.Piece.cached(o, F)] + [tak.Piece.cached(c, F)] + old[1:])
        else:
            put(x, y, [])
    elif kind == "crossing":
        cross = sa_path(rng, n)
        for (x, y) in cross:      # other orientation, other colour
            put(y, x, rand_stack(rng, P, topcolor=o, topkind=rng.choice([F, F, C])))
    return board


def random_move(rng, pos):
    """a random candidate move (legality decided by the implementation)"""
    import tak
    n = pos.size
    for _ in range(200):
        x, y = rng.randrange(n), rng.randrange(n)
        sq = pos.board[y * n + x]
        if not sq:
            t = rng.choice([tak.MoveType.PLACE_FLAT] * 4 + [tak.MoveType.PLACE_STANDING, tak.MoveType.PLACE_CAPSTONE])
            m = tak.Move(x, y, t)
        else:
            t = rng.choice([tak.MoveType.SLIDE_LEFT, tak.MoveType.SLIDE_RIGHT, tak.MoveType.SLIDE_UP, tak.MoveType.SLIDE_DOWN])
            k = rng.randint(1, min(n, len(sq)))
            drops = []
            while k > 0:
                d = rng.randint(1, k)
                drops.append(d)
                k -= d
            m = tak.Move(x, y, t, tuple(drops))
        try:
            return pos.move(m)
        except tak.IllegalMove:
            continue
    return None


def playout_positions(rng, n, maxply, small):
    import tak
    cfg = tak.Config(size=n, pieces=rng.randint(2, n + 2), capstones=rng.randint(0, 1)) if small else tak.Config(size=n)
    pos = tak.Position.from_config(cfg)
    out = []
    over_for = 0
    for _ in range(maxply):
        nxt = random_move(rng, pos)
        if nxt is None:
            break
        pos = nxt
        out.append(pos)
        if pos.winner()[1] is not None:
            over_for += 1
            if over_for > 3:        # a few plies past the end: double roads, refilled reserves never
                break
    return out


# --------------------------------------------------------------------------
# independent oracle of the property's statement (component labelling)
# --------------------------------------------------------------------------
def oracle(pos):
    """(winner pair, has_road) as the property text states them; also returns the size of the largest
    road component (for the non-triviality rule)"""
    import tak
    n = pos.size
    W, B = tak.Color.WHITE, tak.Color.BLACK

    def top(x, y):
        st = pos.board[y * n + x]
        return st[0] if st else None

    def has(color):
        label = {}
        best = 0
        found = False
        for y0 in range(n):
            for x0 in range(n):
                t = top(x0, y0)
                if (x0, y0) in label or t is None or t.color != color or t.kind == tak.Kind.STANDING:
                    continue
                comp = [(x0, y0)]
                label[(x0, y0)] = True
                i = 0
                while i < len(comp):
                    x, y = comp[i]
                    i += 1
                    for a, b in ((x + 1, y), (x - 1, y), (x, y + 1), (x, y - 1)):
                        if 0 <= a < n and 0 <= b < n and (a, b) not in label:
                            t2 = top(a, b)
                            if t2 is not None and t2.color == color and t2.kind != tak.Kind.STANDING:
                                label[(a, b)] = True
                                comp.append((a, b))
                xs = {x for x, _ in comp}
                ys = {y for _, y in comp}
                if (0 in xs and n - 1 in xs) or (0 in ys and n - 1 in ys):
                    found = True
                best = max(best, len(comp))
        return found, best

    w, wb = has(W)
    b, bb = has(B)
    mover = B if pos.ply % 2 == 0 else W      # the player who just moved
    road = mover if (w and b) else (W if w else (B if b else None))
    if road is not None:
        res = (road, tak.WinReason.ROAD)
    else:
        full = all(len(st) > 0 for st in pos.board)
        out = any(s.stones + s.caps == 0 for s in pos.stones)
        if full or out:
            fw = sum(1 for st in pos.board if st and st[0].kind == tak.Kind.FLAT and st[0].color == W)
            fb = sum(1 for st in pos.board if st and st[0].kind == tak.Kind.FLAT and st[0].color == B)
            res = ((W if fw > fb else (B if fb > fw else None)), tak.WinReason.FLATS)
        else:
            res = (None, None)
    return res, road, (max(wb, bb), w and b)


def observe(pos):
    """run the implementation; exceptions are canonicalised"""
    try:
        w = pos.winner()
        h = pos.has_road()
    except Exception as e:  # noqa
        return None, None, f"Crash {type(e).__name__}"
    return w, h, None


def c_reason(r):
    return "None" if r is None else ("(Some Road)" if r.name == "ROAD" else "(Some Flats)")


def case_term(pos, w, h):
    return f"({takio.c_pos(pos)}, ({takio.c_color(w[0])}, {c_reason(w[1])}), {takio.c_color(h)})"


def j_out(w, h):
    return {"winner": [None if w[0] is None else w[0].name, None if w[1] is None else w[1].name],
            "has_road": None if h is None else h.name}


def pack(pos):
    """compact, hashable form of a position (kept for every case; expanded only for failing ones)"""
    return (pos.size, pos.ply, tuple((st.stones, st.caps) for st in pos.stones),
            ";".join(" ".join(takio.c_piece(x) for x in sq) for sq in pos.board))


def unpack(pk):
    n, ply, stones, b = pk
    return takio.mk_pos({"size": n, "ply": ply, "stones": [list(x) for x in stones],
                         "board": [sq.split() for sq in b.split(";")]})


def poshash(pk):
    return hashlib.sha256(repr((pk[0], pk[1] % 2, pk[2], pk[3])).encode()).hexdigest()[:16]


def outcome_class(w):
    if w[1] is None:
        return "not-over"
    if w[1].name == "ROAD":
        return "road-" + w[0].name[0]
    return "flats-" + ("draw" if w[0] is None else w[0].name[0])


def clause_of(pos, w, h, ow, oh):
    """which sentence of the property the implementation's answer contradicts"""
    import tak
    if h != oh:
        return "road-query: has_road() is not 'a colour's top flats/capstones join two opposite edges (both -> player who just moved)'"
    if w[1] != ow[1]:
        if ow[1] == tak.WinReason.ROAD or w[1] == tak.WinReason.ROAD:
            return "winner(): road win reported exactly when a road exists"
        return "winner(): the game ends by flats exactly when every square is occupied or a reserve is empty"
    if w[0] != ow[0]:
        if ow[1] == tak.WinReason.ROAD:
            return "winner(): road winner (both roads -> the player who just moved; one -> that colour)"
        return "winner(): flat win for the colour owning more top flats, draw when equal"
    return "winner() and has_road() agree with the property's statement but not with the Coq model"


# --------------------------------------------------------------------------
# the input streams
# --------------------------------------------------------------------------
def corpus_positions():
    out = []
    f = core.VERIF / "corpus" / "C02.json"
    if f.exists():
        for d in json.loads(f.read_text()):
            out.append(("corpus:" + d.get("name", "?"), takio.mk_pos(d["position"])))
    return out


def streams(run, scale=1.0):
    """yields (category, position)"""
    rng = run.rng
    quick = run.quick
    mult = (1 if quick else 15) * scale
    for item in corpus_positions():
        yield item
    sizes = range(3, 9)
    # (a) random boards: every size x four densities, both parities, all reserve states
    per = max(1, int(500 * mult))
    for n in sizes:
        for dens in (0.25, 0.5, 0.75, 1.0):
            for i in range(per):
                wshare = rng.choice([0.5, 0.5, 0.7, 0.85, 0.3])
                wallp = rng.choice([0.05, 0.15, 0.3])
                board = random_board(rng, n, dens, wshare, wallp)
                stones, _ = gen_reserves(rng, n)
                yield (f"random-d{dens}", mkpos(n, board, rng.randint(0, 80), stones))
    # (b) full boards with equal top-flat counts (draws), buried pieces differing
    per = max(1, int(150 * mult))
    for n in sizes:
        for i in range(per):
            stones, _ = gen_reserves(rng, n)
            yield ("full-equal-flats", mkpos(n, full_equal_flats(rng, n), rng.randint(0, 80), stones))
    # (c) structured roads and their perturbations
    per = max(1, int(105 * mult))
    for n in sizes:
        for kind in PERTURB:
            for i in range(per):
                stones, _ = gen_reserves(rng, n)
                yield (f"road-{kind}", mkpos(n, road_board(rng, n, kind), rng.randint(0, 80), stones))
    # (d) positions of random legal playouts (standard and tiny reserves)
    games = max(1, int(14 * mult))
    for n in sizes:
        for g in range(games):
            small = g % 2 == 1
            for pos in playout_positions(rng, n, 40 if quick else 120, small):
                yield ("playout-small" if small else "playout", pos)


# --------------------------------------------------------------------------
def _report(run, meta, extra=None, clause_if_agree=None):
    pos = unpack(meta["pk"])
    jp = takio.j_pos(pos)
    w, h, crash = observe(pos)
    ow, oh, _ = oracle(pos)
    if crash:
        clause = "winner()/has_road() raised " + crash
        impl = {"crash": crash}
    else:
        clause = clause_of(pos, w, h, ow, oh)
        if clause_if_agree and w == ow and h == oh:
            clause = clause_if_agree
        impl = j_out(w, h)
    rp = {"clause": clause, "input": {"position": jp, "category": meta["category"]},
          "impl_output": impl, "property_says": j_out(ow, oh)}
    if extra:
        rp.update(extra)
    run.violation(f"{clause.split(':')[0]}|{poshash(meta['pk'])}", rp)


BATCH = 60000


def correspondence(run):
    core.setup_impl()
    seen = set()
    dist = {"size": {}, "category": {}, "outcome": {}, "reserve_end": 0, "both_roads": 0}
    st = {"nontrivial": 0, "total": 0, "gen_s": 0.0, "coq_s": 0.0, "shards": 0, "reported": 0, "disagree": 0}
    crashes, samples, shard_fails = [], [], []

    def flush(cs):
        if not len(cs):
            return
        # balance the shards (an 8x8 full board costs ~40 ms in Coq, a 3x3 one < 1 ms): corpus first, rest shuffled
        k0 = sum(1 for m in cs.metas if m["category"].startswith("corpus:"))
        order = list(range(k0, len(cs.terms)))
        run.rng.shuffle(order)
        order = list(range(k0)) + order
        cs.terms = [cs.terms[i] for i in order]
        cs.metas = [cs.metas[i] for i in order]
        t1 = time.time()
        failing, shard_fail, nshards = cs.run()
        st["coq_s"] += time.time() - t1
        st["shards"] += nshards
        st["disagree"] += len(failing)
        shard_fails.extend(shard_fail)
        for meta in failing:
            if st["reported"] >= MAX_REPLAYS:
                break
            view = cs.model_view(cs.terms[cs.metas.index(meta)]) if st["reported"] < 2 else None
            _report(run, meta, {"model_view": view})
            st["reported"] += 1

    def new_cases():
        return core.Cases(ID, "adjudicate", HEADER, CTYPE, CHECK, show=SHOW, shard=320)

    cs = new_cases()
    t0 = time.time()
    for cat, pos in streams(run):
        w, h, crash = observe(pos)
        pk = pack(pos)
        meta = {"category": cat, "pk": pk}
        st["total"] += 1
        if crash:
            crashes.append(meta)
            continue
        cs.add(case_term(pos, w, h), meta)
        if len(cs) >= BATCH:
            st["gen_s"] += time.time() - t0
            flush(cs)
            cs = new_cases()
            t0 = time.time()
        # statistics over distinct inputs (size, ply parity, reserves, board)
        hk = poshash(pk)
        if hk in seen:
            continue
        seen.add(hk)
        ow, oh, comp = oracle(pos)
        oc = outcome_class(w)
        dist["size"][pos.size] = dist["size"].get(pos.size, 0) + 1
        c0 = cat.split(":")[0]
        dist["category"][c0] = dist["category"].get(c0, 0) + 1
        dist["outcome"][oc] = dist["outcome"].get(oc, 0) + 1
        if ow[1] is not None or comp[0] >= pos.size:
            st["nontrivial"] += 1
        if comp[1]:
            dist["both_roads"] += 1
        if ow[1] is not None and ow[1].name == "FLATS" and not all(pos.board):
            dist["reserve_end"] += 1
        if len(samples) < 4 and oc != "not-over" and pos.size >= 5:
            jp = takio.j_pos(pos)
            samples.append({"position": jp["tps"] or jp, "stones": jp["stones"], "impl": j_out(w, h)})
    st["gen_s"] += time.time() - t0
    flush(cs)
    run.extra["c02_gen_s"] = round(st["gen_s"], 1)
    run.extra["c02_coq_s"] = round(st["coq_s"], 1)
    run.oblige(f"correspondence:adjudicate ({st['shards']} shards)", not shard_fails, str(shard_fails)[:1500])
    run.oblige("correspondence:no exception escapes winner()/has_road()", not crashes,
               str([c["category"] for c in crashes[:5]]))
    run.count(st["total"], st["nontrivial"],
              "positions (random boards sizes 3-8 x densities .25/.5/.75/1, full boards with equal top flats, "
              "self-avoiding edge-to-edge roads perturbed by wall/capstone/buried/hole/crossing/parallel road, playout "
              "positions; both ply parities; reserve states plenty/exhausted/capstone-only/one-left): winner() and "
              "has_road() compared with model/Road.v inside Coq; distinct by (size, ply parity, reserves, board); "
              "non-trivial = the game is over or some road component has >= size squares",
              samples, dist, label="adjudicate")
    for meta in crashes[:MAX_REPLAYS]:
        _report(run, meta)
    run.extra["c02_disagreements"] = st["disagree"] + len(crashes)
    correspondence_walkpy(run)


# --------------------------------------------------------------------------
# the Python work-list itself: model/RoadPy.v (statement-by-statement mirror of _walk / has_road, evaluated in
# Coq with walk_fuel p = 5*size^2 + size + 1 loop iterations) against the four _walk calls of has_road
# --------------------------------------------------------------------------
HEADER_PY = (
    "From Coq Require Import ZArith List Bool.\n"
    "From TV Require Import model.Tak model.Road model.RoadPy model.Lit.\n"
    "Import ListNotations.\n"
    "Definition pyb (a : pyres bool) (b : bool) : bool := match a with Done x => Bool.eqb x b | OutOfFuel => false end.\n"
    "Definition pyc (a : pyres (option color)) (b : option color) : bool :=\n"
    "  match a with Done x => opt_eqb color_eqb x b | OutOfFuel => false end.\n"
    "Definition wfb (p : position) : bool := (1 <=? size p)%Z && (zlen (board p) =? size p * size p)%Z."
)
CTYPE_PY = "position * (bool * bool * bool * bool) * option color"
CHECK_PY = ("fun cs => let '(p, (wl, wt, bl, bt), h) := cs in let f := walk_fuel p in wfb p && "
            "pyb (walk_py f p (left_seeds p) White true) wl && pyb (walk_py f p (top_seeds p) White false) wt && "
            "pyb (walk_py f p (left_seeds p) Black true) bl && pyb (walk_py f p (top_seeds p) Black false) bt && "
            "pyc (has_road_py f p) h && "
            # ... and the closure model (Road.walk) agrees with each of the four calls as well
            "Bool.eqb (walk p White true) wl && Bool.eqb (walk p White false) wt && "
            "Bool.eqb (walk p Black true) bl && Bool.eqb (walk p Black false) bt")
SHOW_PY = ("fun cs => let '(p, _, _) := cs in let f := walk_fuel p in (f, walk_py f p (left_seeds p) White true, "
           "walk_py f p (top_seeds p) White false, walk_py f p (left_seeds p) Black true, "
           "walk_py f p (top_seeds p) Black false, has_road_py f p)")


def walkpy_stream(run):
    rng = run.rng
    for item in corpus_positions():
        yield item
    per = 5 if run.quick else 40
    for n in range(3, 9):
        for kind in PERTURB:
            for _ in range(per):
                stones, _s = gen_reserves(rng, n)
                yield (f"road-{kind}", mkpos(n, road_board(rng, n, kind), rng.randint(0, 80), stones))
        for dens in (0.5, 0.75, 1.0, 1.0):
            for _ in range(per):
                board = random_board(rng, n, dens, rng.choice([0.5, 0.8, 0.95]), rng.choice([0.0, 0.1]))
                stones, _s = gen_reserves(rng, n)
                yield (f"random-d{dens}", mkpos(n, board, rng.randint(0, 80), stones))


def observe_walks(pos):
    import tak
    n = pos.size
    left = [(0, i) for i in range(n)]
    top = [(i, 0) for i in range(n)]
    try:
        ws = (pos._walk(left, tak.Color.WHITE, True), pos._walk(top, tak.Color.WHITE, False),
              pos._walk(left, tak.Color.BLACK, True), pos._walk(top, tak.Color.BLACK, False))
        return ws, pos.has_road(), None
    except Exception as e:  # noqa
        return None, None, f"Crash {type(e).__name__}"


def correspondence_walkpy(run):
    cs = core.Cases(ID, "walkpy", HEADER_PY, CTYPE_PY, CHECK_PY, show=SHOW_PY, shard=40)
    crashes = []
    dist = {"size": {}, "walk_true": 0, "walk_false": 0}
    seen = set()
    for cat, pos in walkpy_stream(run):
        ws, h, crash = observe_walks(pos)
        meta = {"category": "walkpy:" + cat, "pk": pack(pos)}
        if crash:
            crashes.append(meta)
            continue
        cs.add(f"({takio.c_pos(pos)}, ({', '.join(core.cbool(bool(w)) for w in ws)}), {takio.c_color(h)})", meta)
        seen.add(poshash(meta["pk"]))
        dist["size"][pos.size] = dist["size"].get(pos.size, 0) + 1
        dist["walk_true"] += sum(1 for w in ws if w)
        dist["walk_false"] += sum(1 for w in ws if not w)
    t1 = time.time()
    failing, shard_fail, nshards = cs.run()
    run.extra["c02_walkpy_coq_s"] = round(time.time() - t1, 1)
    run.oblige(f"correspondence:walkpy ({nshards} shards)", not shard_fail and not crashes,
               str(shard_fail)[:1200] + str([c["category"] for c in crashes[:3]]))
    run.count(len(cs) * 4, len(seen),
              "the four _walk(seeds, colour, horiz) calls of has_road and has_road() itself compared with "
              "model/RoadPy.v (work-list mirror, walk_fuel = 5*size^2+size+1 iterations, OutOfFuel counts as a "
              "failure) and with Road.walk, inside Coq; sizes 3-8; distinct positions",
              [], dist, label="walkpy")
    for meta in (crashes + failing)[:2]:
        view = None if meta in crashes else cs.model_view(cs.terms[cs.metas.index(meta)])
        pos = unpack(meta["pk"])
        ws, h, crash = observe_walks(pos)
        _report(run, meta, {"family": "walkpy", "impl_walks(left W, top W, left B, top B)": ws or crash,
                            "model_view(fuel, walk_py x4, has_road_py)": view},
                clause_if_agree="_walk: a single _walk(seeds, colour, horiz) call does not answer 'a chain of road squares "
                                "of the colour joins the near edge to the far edge' (has_road() happens to be right)")


def search(run, broken):
    """a proof / tie / shard broke without a concrete disagreement: test the property's own statement (the
    component-labelling oracle above) on the implementation over the generated inputs"""
    core.setup_impl()
    run.rng = random.Random(run.seed + 1)
    for cat, pos in streams(run, scale=0.5):
        w, h, crash = observe(pos)
        ow, oh, _ = oracle(pos)
        if crash or w != ow or h != oh:
            _report(run, {"category": cat, "pk": pack(pos)}, {"found_by": "search (oracle of the property statement)"})
            return True
    return False


def replay(run, rp):
    core.setup_impl()
    pos = takio.mk_pos(rp["input"]["position"])
    w, h, crash = observe(pos)
    ow, oh, _ = oracle(pos)
    out = {"property_says": j_out(ow, oh)}
    if crash:
        out.update({"violates": True, "impl_output": {"crash": crash}})
        return out
    cs = core.Cases(ID, "replay", HEADER, CTYPE, CHECK, show=SHOW, shard=1)
    cs.add(case_term(pos, w, h), {"replay": True})
    failing, shard_fail, _ = cs.run()
    out.update({"impl_output": j_out(w, h), "model_agrees": not failing and not shard_fail,
                "model_view": cs.model_view(cs.terms[0]),
                "violates": bool(failing or shard_fail or w != ow or h != oh)})
    if out["violates"]:
        out["clause"] = clause_of(pos, w, h, ow, oh)
    return out


def pregen(run):
    """regenerate gen/GameGen.v (the shallow embedding of game.py/moves.py/pieces.py) from the tree under test"""
    from . import c01gen
    return c01gen.pregen(run)
