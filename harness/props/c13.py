"""C13 - TPS position notation is faithful and round-trips.

Correspondence (model evaluated inside Coq on what the implementation just did):
  fmt    positions of sizes 3-8 (random playouts, constructed tall stacks, standard and custom
         reserves, large plies): format_tps(p) and parse_tps(format_tps(p)) of the implementation
         against format_tps / parse_tps of the model;
  canon  canonical strings produced by an INDEPENDENT writer (this file, from the TPS standard,
         not the repository's formatter) from positions and from a string grammar: parsed by the
         implementation, compared with the model's parse and with the position written;
  mut    grammar-directed mutations of valid strings: observed Accept position / IllegalTPS /
         other exception; model Reject must meet IllegalTPS, model Accept the same position.
The model never answers Unspecified (C13_never_unspecified); move numbers of more than 4300 digits (int() limit)
are generated on purpose and compared like everything else: IllegalTPS against Reject."""
import contextlib
import hashlib
import os

from .. import core, takio
from ..core import clist, cstr

ID = "C13"
THEOREMS = ["C13_parse_format", "C13_format_parse_canonical", "C13_canonical_format", "C13_parse_meaning",
            "C13_parse_reserves", "C13_parse_refuses", "C13_never_unspecified",
            "C13_split_characterised", "C13_decimal_round_trip", "C13_defaults_tie",
            "C13_source_parse_tps_eq", "C13_source_parse_total", "C13_source_format_tps_eq", "C13_source_parse_format", "C13_source_format_parse_canonical", "C13_source_parse_meaning", "C13_source_parse_refuses"]
MODEL_TARGETS = ["model/Tak.vo", "model/Harness.vo", "model/Lit.vo", "model/Tps.vo"]
TRUSTED_BASE = [
    "CPython str.split / str.join / str.isascii / str.isdigit / int() / str() on the strings involved (modelled in "
    "model/Tps.v over lists of code points; validated by the correspondence)",
    "the independent TPS writer and reference reader in harness/props/c13.py (used to produce canonical strings and by the search)",
]
ASSUMPTIONS = [
    "sys.int_max_str_digits = 4300 (CPython default): a longer all-digit move number makes int() raise ValueError, which "
    "parse_tps turns into IllegalTPS; the model refuses on length > 4300 (the over-limit strings of the mut stream tie this)",
    "format_tps is compared for positions with ply // 2 + 1 < 10^4300 only (str() of a larger int raises ValueError; wf carries the guard)",
]

HEADER = """From Coq Require Import ZArith List Bool.
From TV Require Import model.Tak model.Lit model.Tps.
Import ListNotations.
Inductive obs := OAcc (p : position) | OIll | OCrash.
Definition is_unspec (r : tps_result) : bool := match r with Unspecified => true | _ => false end.
Definition res_ok (r : tps_result) (o : obs) : bool :=
  match r, o with
  | Accept p, OAcc q => position_eqb p q
  | Reject, OIll => true
  | _, _ => false
  end.
(* u = the harness expects the model to answer Unspecified (such cases are skipped and counted) *)
Definition res_chk (u : bool) (r : tps_result) (o : obs) : bool :=
  if u then is_unspec r else res_ok r o.
Definition show_res (r : tps_result) := r."""

MAXD = 4300


# --------------------------------------------------------------------------
# implementation runners
# --------------------------------------------------------------------------
@contextlib.contextmanager
def memory_guard(extra=3 << 30):
    """while the implementation runs on mutated text: cap the address space a little above the present size, so that a
    parser that allocates without bound (the unrepaired one builds [[]] * int('99999999')) raises MemoryError - observed
    as a crash - instead of getting the whole check killed"""
    try:
        import resource
        with open("/proc/self/statm") as f:
            vsz = int(f.read().split()[0]) * os.sysconf("SC_PAGE_SIZE")
        soft, hard = resource.getrlimit(resource.RLIMIT_AS)
        want = vsz + extra
        if hard != resource.RLIM_INFINITY:
            want = min(want, hard)
        resource.setrlimit(resource.RLIMIT_AS, (want, hard))
    except Exception:  # noqa  (no /proc or no resource module: run unguarded)
        yield
        return
    try:
        yield
    finally:
        resource.setrlimit(resource.RLIMIT_AS, (soft, hard))


def observe(s):
    """parse_tps of the tree under test on s -> ('acc', position) | ('ill', msg) | ('crash', class name)"""
    from tak.ptn import tps
    try:
        p = tps.parse_tps(s)
    except tps.IllegalTPS as e:
        return ("ill", str(e)[:80])
    except BaseException as e:  # noqa
        return ("crash", type(e).__name__)
    return ("acc", p)


def c_num(n):
    """Z literal; very large ones in hexadecimal (Coq 8.16 needs ~35 s to read one 4300-digit decimal literal, and
    milliseconds for the same number in hexadecimal)"""
    n = int(n)
    if abs(n) < 10 ** 60:
        return core.cz(n)
    return hex(n) if n >= 0 else f"({hex(n)})"


def c_pos(p):
    st = p.stones
    return (f"(P {c_num(p.size)} {c_num(st[0].stones)} {c_num(st[0].caps)} {c_num(st[1].stones)} {c_num(st[1].caps)} "
            f"{c_num(p.ply)} {takio.c_board(p.board)})")


def c_obs(o):
    if o[0] == "acc":
        try:
            return f"(OAcc {c_pos(o[1])})"
        except Exception:  # noqa  (a result that is not a position of pieces)
            return "OCrash"
    return "OIll" if o[0] == "ill" else "OCrash"


def j_obs(o):
    if o[0] == "acc":
        try:
            return {"result": "Accept", "position": takio.j_pos(o[1])}
        except Exception as e:  # noqa
            return {"result": "Accept", "position": repr(o[1])[:300], "unprintable": repr(e)}
    return {"result": "IllegalTPS" if o[0] == "ill" else "Crash", "detail": o[1]}


def expect_unspec(s):
    """inputs on which the model is expected to answer Unspecified: none (C13_never_unspecified); the flag is still
    carried through the cases so that a model change that re-introduces the class is seen inside Coq"""
    return False


def over_limit(s):
    bits = s.split(" ")
    return len(bits) == 3 and len(bits[2]) > MAXD


# --------------------------------------------------------------------------
# independent writer / reference reader (from the TPS standard, not from the repository)
# --------------------------------------------------------------------------
def dec(n):
    assert n >= 0
    out = ""
    while True:
        out = "0123456789"[n % 10] + out
        n //= 10
        if n == 0:
            return out


def indep_write(size, board, ply):
    """board: list of size*size stacks, index = rank_index*size + file_index with rank 1 first, each stack a list
    of (color 0|1, kind 0 flat|1 standing|2 capstone) with the TOP piece first.  Ranks are written from the top rank
    down, files left to right, stacks bottom to top, wall/capstone mark after the top piece, empty runs x / x<n>."""
    ranks = []
    for rank in range(size - 1, -1, -1):
        cells, run = [], 0
        for f in range(size):
            st = board[rank * size + f]
            if not st:
                run += 1
                continue
            if run:
                cells.append("x" if run == 1 else "x" + dec(run))
                run = 0
            txt = "".join("12"[c] for c, _ in reversed(st))
            txt += ["", "S", "C"][st[0][1]]
            cells.append(txt)
        if run:
            cells.append("x" if run == 1 else "x" + dec(run))
        ranks.append(",".join(cells))
    return "/".join(ranks) + " " + "12"[ply % 2] + " " + dec(ply // 2 + 1)


DEFAULT_PIECES = {3: 10, 4: 15, 5: 21, 6: 30, 7: 40, 8: 50}   # the rule book's piece sets
DEFAULT_CAPS = {3: 0, 4: 0, 5: 1, 6: 1, 7: 1, 8: 2}


def ref_read(s):
    """reference reader written from the property text.  -> ('acc', size, board, ply, lenient) | ('refuse', why)
    board as in indep_write.  lenient = leading zeros in the move number or an 'x1' cell (no position taken)."""
    f = s.split(" ")
    if len(f) != 3:
        return ("refuse", "field count")
    b, w, m = f
    if w not in ("1", "2"):
        return ("refuse", "player")
    if m == "" or any(c not in "0123456789" for c in m):
        return ("refuse", "move number")
    if len(m) > MAXD:
        return ("refuse", "move number longer than int() converts")
    lenient = len(m) > 1 and m[0] == "0"
    mv = 0
    for c in m:
        mv = 10 * mv + "0123456789".index(c)
    if mv < 1:
        return ("refuse", "move number < 1")
    groups = b.split("/")
    n = len(groups)
    if not 3 <= n <= 8:
        return ("refuse", "size")
    board = [None] * (n * n)
    for gi, g in enumerate(groups):
        rank = n - 1 - gi
        fidx = 0
        for cell in g.split(","):
            if cell == "":
                return ("refuse", "empty cell")
            if cell[0] == "x":
                if cell == "x":
                    k = 1
                elif len(cell) == 2 and cell[1] in "12345678":
                    k = "012345678".index(cell[1])
                    lenient = lenient or k == 1
                else:
                    return ("refuse", "bad x")
                for _ in range(k):
                    if fidx >= n:
                        return ("refuse", "ragged")
                    board[rank * n + fidx] = []
                    fidx += 1
                continue
            body, kind = cell, 0
            if cell[-1] in "SC":
                body, kind = cell[:-1], 1 if cell[-1] == "S" else 2
            if body == "" or any(c not in "12" for c in body):
                return ("refuse", "bad stack text")
            st = [("12".index(c), 0) for c in reversed(body)]
            st[0] = (st[0][0], kind)
            if fidx >= n:
                return ("refuse", "ragged")
            board[rank * n + fidx] = st
            fidx += 1
        if fidx != n:
            return ("refuse", "ragged")
    return ("acc", n, board, 2 * (mv - 1) + (1 if w == "1" else 2) - 1, lenient)


def is_canonical_text(s):
    """Python mirror of spec/TpsSpec.v `canonical` (for texts with three fields): in every '/'-group no cell is "x1" and no
    two neighbouring cells are both empty-run cells (runs of empty squares are maximal), and the move number has no
    leading zero.  Only for such texts does the property demand format(parse(s)) = s."""
    f = s.split(" ")
    if len(f) != 3:
        return False
    if f[2].startswith("0"):
        return False
    for g in f[0].split("/"):
        cells = g.split(",")
        for i, c in enumerate(cells):
            if c == "x1":
                return False
            if c.startswith("x") and i + 1 < len(cells) and cells[i + 1].startswith("x"):
                return False
    return True


def board_of(p):
    return [[(x.color.value, x.kind.value) for x in sq] for sq in p.board]


def std_reserves(size, board):
    cnt = [[0, 0], [0, 0]]
    for st in board:
        for c, k in st:
            cnt[c][1 if k == 2 else 0] += 1
    return [[DEFAULT_PIECES[size] - cnt[c][0], DEFAULT_CAPS[size] - cnt[c][1]] for c in (0, 1)]


def same_as_ref(p, ref):
    _, n, board, ply, _ = ref
    return (p.size == n and p.ply == ply and board_of(p) == board
            and [[s.stones, s.caps] for s in p.stones] == std_reserves(n, board))


# --------------------------------------------------------------------------
# generators
# --------------------------------------------------------------------------
HISTORY = {}      # id(position reached by play) -> the moves that produced it from the initial position (for replays)


def history_of(p):
    h = HISTORY.get(id(p))
    return None if h is None or h[0] is not p else h[1]


def playout_positions(rng, size, n_games, per_game):
    import tak
    out = []
    for _ in range(n_games):
        p = tak.Position.from_config(tak.Config(size=size))
        seen = [p]
        hist = []
        for _ply in range(rng.randint(2, 12 * size)):
            ms = p.all_moves()
            rng.shuffle(ms)
            nxt = None
            for m in ms[:40]:
                try:
                    nxt = p.move(m)
                    break
                except tak.IllegalMove:
                    continue
            if nxt is None:
                break
            hist.append(takio.j_move(m))
            p = nxt
            seen.append(p)
            HISTORY[id(p)] = (p, list(hist))
            if p.winner()[0] is not None:
                break
        k = min(per_game, len(seen))
        out += rng.sample(seen, k)
    return out


def random_board(rng, size, tall):
    """stacks with flats below and any kind on top; tall = occasional stacks far higher than any game allows"""
    board = []
    fill = rng.choice([0.0, 0.15, 0.4, 0.7, 1.0])
    for _ in range(size * size):
        if rng.random() >= fill:
            board.append([])
            continue
        h = rng.randint(1, 3)
        if tall and rng.random() < 0.25:
            h = rng.randint(4, 40)
        st = [(rng.randint(0, 1), 0) for _ in range(h)]
        st[0] = (st[0][0], rng.choice([0, 0, 1, 2]))
        board.append(st)
    return board


def mk_position(size, board, ply, pieces=None, caps=None):
    import tak
    sq = [[tak.Piece.cached(tak.Color(c), tak.Kind(k)) for c, k in st] for st in board]
    return tak.Position.from_squares(tak.Config(size=size, pieces=pieces, capstones=caps), sq, ply)


def random_ply(rng):
    r = rng.random()
    if r < 0.5:
        return rng.randint(0, 60)
    if r < 0.8:
        return rng.randint(0, 5000)
    if r < 0.95:
        return rng.randint(0, 10 ** rng.randint(4, 40))
    return rng.choice([0, 1, 2, 17, 18, 19, 198, 199, 1998, 10 ** 9, 10 ** 18 + 1])


def constructed_positions(rng, size, k):
    out = []
    for i in range(k):
        board = random_board(rng, size, tall=(i % 2 == 0))
        ply = random_ply(rng)
        if i % 3 == 2:     # custom reserves: format -> parse cannot carry them
            out.append((mk_position(size, board, ply, pieces=rng.randint(1, 60), caps=rng.randint(0, 3)), "custom"))
        else:
            out.append((mk_position(size, board, ply), "constructed"))
    return out


def grammar_canonical(rng):
    """a canonical string straight from the grammar (no Position involved)"""
    n = rng.randint(3, 8)
    rows = []
    for _ in range(n):
        cells, left, last_x = [], n, False
        while left:
            if not last_x and rng.random() < 0.45:
                k = rng.randint(1, left)
                cells.append("x" if k == 1 else "x" + str(k))
                left -= k
                last_x = True
            else:
                h = rng.choice([1, 1, 1, 2, 3, rng.randint(1, 12)])
                cells.append("".join(rng.choice("12") for _ in range(h)) + rng.choice(["", "", "S", "C"]))
                left -= 1
                last_x = False
        rows.append(",".join(cells))
    mv = rng.choice([1, 1, 2, 3, 9, 10, 11, 99, 100, rng.randint(1, 10 ** rng.randint(1, 25))])
    return "/".join(rows) + " " + rng.choice("12") + " " + dec(mv)


MOVE_BAD = ["0", "00", "01", "007", "-3", "+1", "1_0", "1 ", " 1", "", "1.0", "1e3", "0x1", "١", "٣٢",
            "²", "½", "１", "१", "1\n", "\n1", "1\t", "one", "1,", "1/2", "--1", "1-", "①", "\U0001d7cf"]
WHO_BAD = ["12", "", "3", "0", "21", "11", "1 ", " 2", "１", "١", "+1", "01", "1\n", "w", "W", "b", "-1", "2.", "²"]
CELL_BAD = ["x0", "x9", "x12", "x1", "xa", "xx", "x-1", "x 2", "x2x", "X", "X2", "1S2", "1SC", "1CS", "S", "C", "SC", "S1",
            "C2", "1s", "1c", "12a", "3", "0", "1 2", "1F", "F", "1٢", "１", "", "x٢", "x２", "1Sx", "x1S",
            "1x", "21CC", "2S1S", "x8", "x3", "x08", "x+2"]
ALPHABET = list(" /,x12SC0123456789-+_\n\t.abX") + ["٣", "²", "１", "١", "\x00", " ", "\U0001d7d0"]


def mutate_once(rng, s):
    """one grammar-directed mutation; returns (string, tag)"""
    fields = s.split(" ")
    k = rng.randint(0, 19)
    if k <= 2 and s:
        i = rng.randrange(len(s))
        return s[:i] + s[i + 1:], "delete-char"
    if k <= 4 and s:
        i = rng.randrange(len(s))
        return s[:i] + s[i] + s[i:], "duplicate-char"
    if k == 5 and len(s) > 1:
        i = rng.randrange(len(s) - 1)
        return s[:i] + s[i + 1] + s[i] + s[i + 2:], "swap-chars"
    if k <= 7:
        i = rng.randrange(len(s) + 1)
        c = rng.choice(ALPHABET)
        if rng.random() < 0.5 and i < len(s):
            return s[:i] + c + s[i + 1:], "replace-char"
        return s[:i] + c + s[i:], "insert-char"
    if k == 8:
        f = list(fields)
        op = rng.randint(0, 4)
        if op == 0 and len(f) > 1:
            i = rng.randrange(len(f) - 1)
            f[i], f[i + 1] = f[i + 1], f[i]
        elif op == 1 and f:
            del f[rng.randrange(len(f))]
        elif op == 2:
            f.insert(rng.randint(0, len(f)), rng.choice(["1", "2", "", "x3/x3/x3", "3", "x"]))
        elif op == 3:
            return rng.choice(["", " ", "\n", "\t"]) + s + rng.choice(["", " ", "\n", "\r\n", "  "]), "pad"
        else:
            return rng.choice([" ", "  ", "\t", " ", "_", ""]).join(f), "field-separator"
        return " ".join(f), "splice-fields"
    if len(fields) != 3:
        i = rng.randrange(len(s) + 1)
        return s[:i] + rng.choice(ALPHABET) + s[i:], "insert-char"
    b, w, m = fields
    if k == 9:
        return " ".join([b, w, rng.choice(MOVE_BAD)]), "move-number"
    if k == 10:
        z = rng.choice(["0", "00", "+", "-", "_", " ", "٠"])
        return " ".join([b, w, (z + m) if rng.random() < 0.7 else (m[:1] + z + m[1:])]), "move-number-decor"
    if k == 11:
        return " ".join([b, rng.choice(WHO_BAD), m]), "player"
    rows = b.split("/")
    if k == 12:
        op = rng.randint(0, 7)
        r = list(rows)
        if op >= 6:         # a self-consistent board of an illegal size (ranks of the matching width)
            return " ".join([square_board(rng, rng.choice([1, 2, 9, 9, 10, 11])), w, m]), "square-board-illegal-size"
        if op == 0:
            r = r[:2]
        elif op == 1:
            r = (r * 4)[:9]
        elif op == 2 and r:
            del r[rng.randrange(len(r))]
        elif op == 3 and r:
            r.insert(rng.randint(0, len(r)), rng.choice(r))
        elif op == 4:
            r.insert(rng.randint(0, len(r)), "")
        else:
            r = r[::-1][:rng.randint(0, len(r))]
        return " ".join(["/".join(r), w, m]), "row-count"
    ri = rng.randrange(len(rows))
    cells = rows[ri].split(",")
    ci = rng.randrange(len(cells))
    if k <= 15:
        c2 = list(cells)
        c2[ci] = rng.choice(CELL_BAD)
        tag = "cell"
    elif k == 16:
        c2 = list(cells)
        op = rng.randint(0, 3)
        if op == 0:
            del c2[ci]
        elif op == 1:
            c2.insert(ci, rng.choice(["1", "2", "x", "x2", "12S"]))
        elif op == 2:
            c2.insert(ci, "")
        else:
            c2 = c2 + ["x"]
        tag = "ragged"
    elif k == 17:
        c2 = list(cells)
        t = c2[ci]
        j = rng.randint(0, len(t))
        c2[ci] = t[:j] + rng.choice("SC12x") + t[j:]
        tag = "mark-or-piece-inserted"
    elif k == 18:
        # split an empty run / merge into the lenient or non-canonical spellings
        c2 = list(cells)
        t = c2[ci]
        if t.startswith("x"):
            n = 1 if t == "x" else (int(t[1:]) if (t[1:].isascii() and t[1:].isdigit() and len(t) < 6) else 1)
            if n >= 2 and rng.random() < 0.6:
                a = rng.randint(1, n - 1)
                c2[ci:ci + 1] = ["x" + (str(a) if a > 1 or rng.random() < 0.5 else ""),
                                 "x" + (str(n - a) if n - a > 1 or rng.random() < 0.5 else "")]
            else:
                c2[ci] = "x" + str(n)
        else:
            c2[ci] = t[::-1]
        tag = "empty-run-spelling"
    else:
        rows2 = list(rows)
        rows2[ri] = rows[ri].replace(",", rng.choice([";", ", ", ",,", "", "/"]), 1)
        return " ".join(["/".join(rows2), w, m]), "cell-separator"
    rows2 = list(rows)
    rows2[ri] = ",".join(c2)
    return " ".join(["/".join(rows2), w, m]), tag


def mutated(rng, s):
    depth = rng.choice([1, 1, 1, 2, 2, 3])
    tags = []
    for _ in range(depth):
        s, t = mutate_once(rng, s)
        tags.append(t)
    return s, "+".join(tags)


FIXED_STRINGS = [
    "", " ", "  ", "x3/x3/x3", "x3/x3/x3 1", "x3/x3/x3 1 1 1", "x3/x3/x3 1 1", "x3/x3/x3 2 1", "x3/x3/x3 12 1",
    "x3/x3/x3 1 0", "x3/x3/x3 1 -3", "x3/x3/x3 1 1_0", "x3/x3/x3 1 +1", "x3/x3/x3 1 ٣", "x3/x3/x3 1 01",
    "x3/x3/x3 1 1\n", "x3/x3/x3 1 1 ", " x3/x3/x3 1 1", "x3/x3/x3  1 1", "x3/x3/x3\t1\t1", "x3/x3/x3 1 1\r\n",
    "x3/x3/,x2 1 1", "x3/x3/x2, 1 1", "x3//x3 1 1", "x3/x3/ 1 1", "/x3/x3/x3 1 1", "x3/x3/x3/ 1 1",
    "x3/x3/xa,x 1 1", "x3/x3/x0,x3 1 1", "x0,x3/x3/x3 1 1", "x3/x3/x9 1 1", "x3/x3/x12 1 1", "x3/x3/x1,x2 1 1",
    "x3/x3/x,x,x 1 1", "x3/x3/x2,x 1 1", "1S2,x2/x3/x3 1 1", "1SC,x2/x3/x3 1 1", "S,x2/x3/x3 1 1", "C,x2/x3/x3 1 1",
    "1C,x2/x3/x3 1 1", "12S,x2/x3/x3 2 7", "x2/x2 1 1", "x2/x2/x2 1 1", "x4/x4/x4 1 1", "x3/x3/x3/x3 1 1",
    "x9/x9/x9/x9/x9/x9/x9/x9/x9 1 1", "x8/x8/x8/x8/x8/x8/x8/x8/x8 1 1", "x8/x8/x8/x8/x8/x8/x8/x8 1 1",
    "x1/x1/x1 1 1", "x/x/x 1 1", "1/1/1 1 1", "x3/x3 1 1", "x3/x3/x3 1 4294967297", "x3/x3/x3 1 18446744073709551617",
    "x3/x3/3,x2 1 1", "x3/x3/1 2,x 1 1", "x3,x3,x3 1 1", "x3/x3/x3 1 1.", "X3/x3/x3 1 1", "x3/x3/x3 1 ²",
    "x3/x3/x3 １ 1", "x3/x3/x3 1 １", "x3/x3/x2,１ 1 1", "x3/x3/x٣ 1 1", "x3/x3/x³ 1 1",
    "2,x,1/x3/21C,x,12S 2 12", "x5/x5/x2,2221,x2/x5/x5 1 5",
]


# --------------------------------------------------------------------------
# correspondence
# --------------------------------------------------------------------------
def corpus_texts():
    """corpus/C13.json: run first (self-consistent boards of illegal sizes, '' and '12' as the side to move, ...)"""
    import json
    f = core.VERIF / "corpus" / "C13.json"
    return list(json.load(open(f))["texts"]) if f.exists() else []


def _empty_run_cells(k):
    out = []
    while k > 0:
        c = min(8, k)
        out.append("x" if c == 1 else "x" + str(c))
        k -= c
    return out


def square_board(rng, n):
    """n ranks of width n (self-consistent), for any n: empty runs are spelled with legal tokens only (x8,x for nine)"""
    rows = []
    for _ in range(n):
        cells, left = [], n
        while left:
            if rng.random() < 0.5:
                k = rng.randint(1, left)
                cells += _empty_run_cells(k)
                left -= k
            else:
                cells.append("".join(rng.choice("12") for _ in range(rng.randint(1, 3))) + rng.choice(["", "", "S", "C"]))
                left -= 1
        rows.append(",".join(cells))
    return "/".join(rows)


def _key(kind, text):
    return kind + ":" + hashlib.sha256(text.encode("utf-8", "surrogatepass")).hexdigest()[:10]


def _report(run, cs, failing, limit, describe):
    for meta in failing[:limit]:
        view = cs.model_view(cs.terms[cs.metas.index(meta)])
        rp = describe(meta)
        rp["model_view"] = view
        run.violation(meta["key"], rp)
    if len(failing) > limit:
        run.extra.setdefault("more_failing_cases", {})[cs.name] = len(failing) - limit


def _shard(cs, lo, hi):
    """cases per file so that the family is one wave of about NPROC parallel coqc processes (bounded)"""
    cs.shard = max(lo, min(hi, -(-len(cs) // max(1, core.NPROC))))
    return cs


def _split_hits(direct, failing, shard_fail):
    """oracle hits -> (confirmed by a model disagreement on the same case, not confirmed).  The last component of a hit
    is the key of its case (None: no case could be written, e.g. format_tps raised).  With a broken shard nothing can be
    said about its cases, so the hits stand."""
    bad = {m["key"] for m in failing}
    conf, over = [], []
    for h in direct:
        (conf if (h[-1] is None or h[-1] in bad or shard_fail) else over).append(h)
    return conf, over


def _positions(run):
    rng = run.rng
    if run.quick:
        plan = {3: (30, 6, 125), 4: (30, 6, 125), 5: (30, 6, 125), 6: (25, 6, 110), 7: (16, 6, 90), 8: (14, 6, 80)}
    else:
        plan = {3: (700, 8, 3600), 4: (700, 8, 3600), 5: (700, 8, 3600), 6: (600, 8, 3200), 7: (450, 8, 2800), 8: (350, 8, 2400)}
    out = []
    for size, (games, per, constructed) in plan.items():
        out += [(p, "playout") for p in playout_positions(rng, size, games, per)]
        out += constructed_positions(rng, size, constructed)
    return out


def _cases_fmt(run, positions):
    """implementation: t = format_tps(p), o = parse_tps(t).  Coq: format_tps p = t and parse_tps t agrees with o"""
    from tak.ptn import tps
    cs = core.Cases(ID, "fmt", HEADER, "position * list Z * obs",
                    "fun c => let '(p, t, o) := c in str_eqb (format_tps p) t && res_ok (parse_tps (format_tps p)) o",
                    show="fun c => let '(p, t, o) := c in (format_tps p, show_res (parse_tps (format_tps p)))", shard=100)
    dist, seen, nontriv, samples, direct = {}, set(), 0, [], []
    for p, origin in positions:
        try:
            t = tps.format_tps(p)
        except BaseException as e:  # noqa
            direct.append((p, origin, "format_tps raised " + type(e).__name__, None))
            continue
        o = observe(t)
        key = _key("fmt", t + "|" + str([[s.stones, s.caps] for s in p.stones]))
        # the property's own statement on the implementation (the search oracle, exercised on every input of every run)
        why = oracle_position(p, t, o)
        if why:
            direct.append((p, origin, why, key))
        else:
            eq = oracle_equal(p, o)
            if eq:                      # key None: stands without confirmation by the model (see oracle_equal)
                direct.append((p, origin, eq, None))
        cs.add(f"({c_pos(p)}, {cstr(t)}, {c_obs(o)})",
               {"key": key, "kind": "fmt", "origin": origin, "position": takio.j_pos(p), "impl_text": t, "impl_parse": j_obs(o)})
        d = f"size{p.size}/{origin}"
        dist[d] = dist.get(d, 0) + 1
        if key not in seen:
            seen.add(key)
            nontriv += any(len(sq) >= 2 for sq in p.board) or any(sq and sq[0].kind.value for sq in p.board)
        if len(samples) < 2 and origin != "playout":
            samples.append({"tps": t[:200], "origin": origin})
    return cs, dist, nontriv, samples, direct


def _cases_canon(run, positions, n_grammar):
    """independent writer -> implementation parser; Coq: model parse agrees, model format gives the text back"""
    from tak.ptn import tps
    cs = core.Cases(ID, "canon", HEADER, "list Z * obs * list Z",
                    "fun c => let '(t, o, back) := c in res_ok (parse_tps t) o && "
                    "match parse_tps t with Accept p => str_eqb (format_tps p) t && str_eqb (format_tps p) back | _ => false end",
                    show="fun c => let '(t, o, back) := c in (show_res (parse_tps t), "
                         "match parse_tps t with Accept p => format_tps p | _ => [] end)", shard=150)
    direct, seen, samples = [], set(), []
    dist = {"from-position": 0, "from-grammar": 0}
    texts = []
    for p, origin in positions:
        texts.append((indep_write(p.size, board_of(p), p.ply), p, "from-position"))
    for _ in range(n_grammar):
        texts.append((grammar_canonical(run.rng), None, "from-grammar"))
    for t, p, origin in texts:
        o = observe(t)
        key = _key("canon", t)
        why = oracle_text(t, o)
        if why is None and not is_canonical_text(t):
            why = "HARNESS: the independent writer produced a text that is not canonical"
        if why is None and p is not None:
            ref = ref_read(t)
            if ref[0] != "acc" or ref[1] != p.size or ref[2] != board_of(p) or ref[3] != p.ply:
                why = "HARNESS: reference reader and independent writer disagree"
        if why:
            direct.append((t, origin, why, o, key))
        back = t
        if o[0] == "acc":      # what the implementation writes for the position it read (t itself when nothing was read)
            try:
                back = tps.format_tps(o[1])
            except BaseException as e:  # noqa
                back = "<" + type(e).__name__ + ">"
        cs.add(f"({cstr(t)}, {c_obs(o)}, {cstr(back)})",
               {"key": key, "kind": "canon", "origin": origin, "text": t, "impl_parse": j_obs(o), "impl_written_back": back})
        dist[origin] += 1
        seen.add(key)
        if len(samples) < 2 and origin == "from-grammar":
            samples.append({"tps": t[:200], "origin": origin})
    return cs, dist, len(seen), samples, direct


def _cases_mut(run, seeds, n_mut):
    cs = core.Cases(ID, "mut", HEADER, "bool * list Z * obs",
                    "fun c => let '(u, t, o) := c in res_chk u (parse_tps t) o",
                    show="fun c => let '(u, t, o) := c in show_res (parse_tps t)", shard=400)
    rng = run.rng
    dist, tags, seen, samples = {"Accept": 0, "IllegalTPS": 0, "Crash": 0, "Unspecified(skipped)": 0}, {}, set(), []
    items = [(s, "corpus") for s in corpus_texts()] + [(s, "fixed") for s in FIXED_STRINGS]
    for _ in range(n_mut):
        items.append(mutated(rng, rng.choice(seeds)))
    # the interpreter-limit class, with a well-formed and an ill-formed board.  The long digit runs are emitted as
    # `repeat d n` (a 4300-element list literal costs Coq's parser seconds and hundreds of MB)
    long_terms = {}

    def long_item(head, runs, tag):
        text = head + "".join(ch * n for ch, n in runs)
        long_terms[text] = "(" + " ++ ".join([cstr(head)] + [f"repeat {ord(ch)} {n}%nat" for ch, n in runs]) + ")%list"
        items.append((text, tag))

    for b in ("x3/x3/x3", "x3/x3/xa", "x3/x3"):
        long_item(f"{b} {rng.choice('12')} ", [("1", MAXD + 1)], "int-limit")
        long_item(f"{b} {rng.choice('12')} ", [("0", MAXD), ("1", 1)], "int-limit")
        long_item(f"{b} {rng.choice('12')} ", [("9", MAXD + 7)], "int-limit")
    long_item("x3/x3/x3 1 ", [("1", MAXD)], "int-limit-edge")
    long_item("x3/x3/x3 1 ", [("0", MAXD - 1), ("7", 1)], "int-limit-edge")
    long_item("x3/x3/x3 3 ", [("1", MAXD + 1)], "int-limit-player-first")
    lenient = noncanon = 0
    direct = []
    for s, tag in items:
        o = observe(s)
        u = expect_unspec(s)
        ref = ref_read(s)
        key = _key("mut", s)
        if over_limit(s):
            dist["over the int() limit (compared)"] = dist.get("over the int() limit (compared)", 0) + 1
        if u:
            dist["Unspecified(skipped)"] += 1
        else:
            dist[{"acc": "Accept", "ill": "IllegalTPS", "crash": "Crash"}[o[0]]] += 1
            # the property's own statement on the implementation (the search oracle, exercised on every input)
            why = oracle_text(s, o)
            if why:
                direct.append((s, tag, why, o, key))
            if ref[0] == "acc" and not is_canonical_text(s):
                noncanon += 1
            if ref[0] == "acc" and ref[4]:
                lenient += 1
        for t in tag.split("+"):
            tags[t] = tags.get(t, 0) + 1
        cs.add(f"({core.cbool(u)}, {long_terms.get(s) or cstr(s)}, {c_obs(o)})",
               {"key": key, "kind": "mut", "mutation": tag, "text": s if len(s) < 300 else s[:120] + f"...({len(s)} chars)",
                "text_codepoints": [ord(c) for c in s] if len(s) < 6000 else None, "expect_unspecified": u, "impl": j_obs(o)})
        seen.add(key)
        if len(samples) < 3 and tag not in ("fixed", "corpus") and o[0] == "ill":
            samples.append({"text": s[:120], "mutation": tag, "impl": "IllegalTPS"})
    dist["lenient (leading zeros / x1), compared exactly"] = lenient
    dist["well-formed but not canonical (meaning only, no write-back demanded)"] = noncanon
    dist["by mutation"] = tags
    return cs, dist, len(seen), samples, direct


def correspondence(run):
    core.setup_impl()
    positions = _positions(run)
    lim = 3

    with memory_guard():
        cs, dist, nontriv, samples, direct = _cases_fmt(run, positions)
    failing, shard_fail, nshards = _shard(cs, 60, 100).run()
    run.oblige(f"correspondence:fmt ({nshards} shards)", not shard_fail, str(shard_fail)[:1500])
    run.count(len(cs), nontriv,
              "positions of sizes 3-8 (random playouts, constructed boards with stacks up to 40 high, standard and custom "
              "reserves, plies up to 10^40): implementation's format_tps(p) = model's, and parse_tps(format_tps(p)) of the "
              "implementation = model's result (custom reserves come back as the default set in both); "
              "non-trivial = a stack of height >= 2 or a wall/capstone on the board",
              samples, dist, label="fmt")
    _report(run, cs, failing, lim, lambda m: {"clause": "format then parse gives an equal position / text is what the model writes",
                                              "input": m})
    overdemand = []      # oracle hits that the model (proved equal to the spec) does not confirm: the oracle asks too much
    n_oracle = len(positions)
    confirmed, over = _split_hits(direct, failing, shard_fail)
    overdemand += [{"kind": "fmt", "position": takio.j_pos(h[0]), "oracle": h[2]} for h in over]
    for p, origin, why, _k in confirmed[:lim]:
        tag = "fmt-eq" if isinstance(why, dict) else "fmt-direct"
        run.violation(_key(tag, str(takio.j_pos(p))), {"clause": "formatting a position and parsing it back gives an equal position",
                                                       "kind": "fmt", "input": {"position": takio.j_pos(p), "origin": origin, "history": history_of(p),
                                                                                "stones_container": type(p.stones).__name__},
                                                       "observed": why})
    run.extra["round_trip_equal_by_python_eq"] = {"positions_compared": len(positions),
                                                  "not_equal": sum(1 for h in direct if isinstance(h[2], dict))}

    n_grammar = 300 if run.quick else 20000
    with memory_guard():
        cs2, dist2, n2, samples2, direct2 = _cases_canon(run, positions, n_grammar)
    failing2, shard_fail2, nshards2 = _shard(cs2, 80, 150).run()
    run.oblige(f"correspondence:canon ({nshards2} shards)", not shard_fail2, str(shard_fail2)[:1500])
    run.count(len(cs2), n2,
              "canonical strings from the independent writer (from every position above, plus strings drawn from the TPS "
              "grammar): implementation's parse = model's parse = the position written (reference reader), and "
              "format(parse(s)) = s in the model and in the implementation; distinct texts counted",
              samples2, dist2, label="canon")
    _report(run, cs2, failing2, lim, lambda m: {"clause": "canonical text is read as the standard says and written back unchanged",
                                                "input": m})
    n_oracle += len(cs2)
    confirmed2, over2 = _split_hits(direct2, failing2, shard_fail2)
    overdemand += [{"kind": "canon", "text": h[0][:300], "oracle": h[2]} for h in over2]
    for t, origin, why, o, _k in confirmed2[:lim]:
        run.violation(_key("canon-direct", t), {"clause": "canonical TPS means what the standard says and is written back unchanged",
                                                "kind": "canon", "input": {"text": t, "origin": origin}, "observed": why, "impl": j_obs(o)})

    n_mut = 10000 if run.quick else 500000
    seeds = [indep_write(p.size, board_of(p), p.ply) for p, _ in positions if p.size <= 6 or run.rng.random() < 0.3]
    seeds = [s for s in seeds if len(s) < 160] or ["x3/x3/x3 1 1"]
    with memory_guard():
        cs3, dist3, n3, samples3, direct3 = _cases_mut(run, seeds, n_mut)
    failing3, shard_fail3, nshards3 = _shard(cs3, 300, 700).run()
    run.oblige(f"correspondence:mut ({nshards3} shards)", not shard_fail3, str(shard_fail3)[:1500])
    run.count(len(cs3), n3,
              "grammar-directed mutations (depth <= 3) of valid strings plus a fixed list of malformed texts: observed "
              "Accept position / IllegalTPS / other exception against the model's Accept / Reject (incl. move numbers over the int() limit, "
              "which must be refused); the model answers Unspecified nowhere, nothing is skipped; distinct texts counted",
              samples3, dist3, label="mut")
    run.extra["model_unspecified_skipped"] = dist3["Unspecified(skipped)"]
    _report(run, cs3, failing3, lim, lambda m: {"clause": "malformed text is refused with IllegalTPS; well-formed text is read as written",
                                                "input": m})
    n_oracle += len(cs3)
    confirmed3, over3 = _split_hits(direct3, failing3, shard_fail3)
    overdemand += [{"kind": "mut", "text": h[0][:300], "mutation": h[1], "oracle": h[2]} for h in over3]
    for s, tag, why, o, _k in confirmed3[:lim]:
        run.violation(_key("mut-direct", s), {"clause": "text that is not well-formed TPS is refused with the parser's own error",
                                              "kind": "mut", "input": {"text": s, "text_codepoints": [ord(c) for c in s] if len(s) < 6000 else None, "mutation": tag},
                                              "observed": why, "impl": j_obs(o)})
    # self-test of the search oracle: it ran on every input of all three streams (positions, canonical texts, mutated /
    # lenient / non-canonical / over-limit texts); wherever it objected, the model must have objected too
    run.oblige(f"selftest:search-oracle never demands more than the model ({n_oracle} inputs of all kinds)", not overdemand,
               "oracle objects where implementation and model agree: " + str(overdemand[:5]))
    run.extra["search_oracle_selftest"] = {"inputs": n_oracle, "hits_confirmed_by_model": len(confirmed) + len(confirmed2) + len(confirmed3),
                                           "hits_not_confirmed": len(overdemand)}


# --------------------------------------------------------------------------
# search / replay
# --------------------------------------------------------------------------
def oracle_text(s, o=None):
    """the property's statement on one text, on the implementation only.  -> None or a description of the failure.
    Demanded: (a) nothing but IllegalTPS escapes; (b) text that is not well-formed TPS (reference reader refuses, incl. a
    move number over the int() limit) is refused; (c) an ACCEPTED well-formed text is read as the standard says (cells,
    ply, standard reserves); (d) a CANONICAL text (is_canonical_text, the mirror of the spec's `canonical`) is accepted
    and written back unchanged.  Nothing else: a well-formed text that is not canonical (x1, leading zeros, split runs
    such as x,x,x) may be accepted or refused, and no write-back is demanded for it."""
    from tak.ptn import tps
    if o is None:
        o = observe(s)
    ref = ref_read(s)
    if o[0] == "crash":
        return "parse_tps raised " + o[1] + " instead of IllegalTPS"
    if ref[0] == "refuse":
        return None if o[0] == "ill" else "must-refuse text (" + ref[1] + ") accepted"
    canonical = is_canonical_text(s)
    if o[0] == "ill":
        return "canonical text refused" if canonical else None
    if not same_as_ref(o[1], ref):
        return "text read differently from what it says"
    if canonical:
        try:
            back = tps.format_tps(o[1])
        except BaseException as e:  # noqa
            return "format_tps raised " + type(e).__name__
        if back != s:
            return "canonical text not written back unchanged: " + back[:200]
    return None


def oracle_position(p, t=None, o=None):
    """format then parse on one well-formed position (sizes 3-8, marks on top, ply // 2 + 1 < 10^4300)"""
    from tak.ptn import tps
    if t is None:
        try:
            t = tps.format_tps(p)
        except BaseException as e:  # noqa
            return "format_tps raised " + type(e).__name__
    if o is None:
        o = observe(t)
    if o[0] != "acc":
        return "parse_tps(format_tps(p)) did not accept: " + str(o[1])
    q = o[1]
    if board_of(q) != board_of(p) or q.ply != p.ply or q.size != p.size:
        return "parse_tps(format_tps(p)) differs from p (board / side to move / move number)"
    if [[x.stones, x.caps] for x in p.stones] == std_reserves(p.size, board_of(p)) and \
            [[x.stones, x.caps] for x in q.stones] != [[x.stones, x.caps] for x in p.stones]:
        return "reserves not restored for a standard piece set"
    return None


def _tyname(v):
    if isinstance(v, (list, tuple)):
        inner = sorted({type(x).__name__ for x in v})
        return f"{type(v).__name__}[{', '.join(inner)}]"
    return type(v).__name__


def oracle_equal(p, o):
    """"formatting a position and parsing it back gives an EQUAL position" in the API's own sense: Python's == on the
    Position objects (standard piece sets only).  This is beyond the Coq model, which has one representation of a
    position; a hit is therefore reported without asking the model.  -> None or a dict naming the differing fields
    with the Python types on both sides."""
    if o[0] != "acc":
        return None                                      # oracle_position's business
    q = o[1]
    if [[x.stones, x.caps] for x in p.stones] != std_reserves(p.size, board_of(p)):
        return None                                      # custom piece set: the text cannot carry it
    try:
        if q == p and not (q != p):
            return None
    except BaseException as e:  # noqa
        return {"what": "round-trip-not-equal-by-==", "comparison_raised": type(e).__name__}
    fields = []
    for f in ("size", "stones", "ply", "board"):
        a, b = getattr(p, f, None), getattr(q, f, None)
        if not (a == b):
            fields.append({"field": f, "original": _tyname(a), "parsed_back": _tyname(b),
                           "values_equal_as_lists": (list(a) == list(b)) if isinstance(a, (list, tuple)) and isinstance(b, (list, tuple)) else False})
    return {"what": "round-trip-not-equal-by-==", "differing_fields": fields,
            "type_of_original": type(p).__name__, "type_of_parsed_back": type(q).__name__}


def _model_confirms_text(run, s, o):
    cs = core.Cases(ID, "confirm", HEADER, "bool * list Z * obs",
                    "fun c => let '(u, t, o) := c in res_chk u (parse_tps t) o")
    cs.add(f"({core.cbool(expect_unspec(s))}, {cstr(s)}, {c_obs(o)})", {"key": "confirm"})
    failing, shard_fail, _ = cs.run()
    if failing or shard_fail:
        return True
    # the parse agrees; for a canonical text the write-back is the model's business too
    if o[0] == "acc" and is_canonical_text(s):
        from tak.ptn import tps
        try:
            back = tps.format_tps(o[1])
        except BaseException:  # noqa
            return True
        return back != s            # model: format (parse s) = s is a theorem for canonical s
    return False


def search(run, broken):
    core.setup_impl()
    with memory_guard():
        return _search(run, broken)


def _search(run, broken):
    """the oracle over the whole input stream of the correspondence (positions, their canonical texts, grammar strings,
    fixed malformed texts, mutations, over-limit numbers).  A hit is reported as a concrete failing input only when the
    model, evaluated inside Coq on that very input, disagrees with the implementation as well; a hit the model does
    not confirm is an over-demanding oracle and is recorded as a broken self-test obligation instead."""
    over = []

    def hit_text(s, why):
        o = observe(s)
        if _model_confirms_text(run, s, o):
            run.violation(_key("search-text", s), {"clause": "faithful reading / refusal", "kind": "mut",
                                                   "input": {"text": s, "text_codepoints": [ord(c) for c in s] if len(s) < 6000 else None},
                                                   "observed": why, "impl": j_obs(o)})
            return True
        over.append({"text": s[:300], "oracle": why})
        return False

    found = False
    positions = _positions(run)
    from tak.ptn import tps as _tps
    for p, origin in positions:
        why = oracle_position(p)
        if not why:
            try:
                eq = oracle_equal(p, observe(_tps.format_tps(p)))
            except BaseException:  # noqa
                eq = None
            if eq:
                run.violation(_key("search-eq", str(takio.j_pos(p))), {"clause": "formatting a position and parsing it back gives an equal position",
                                                                       "kind": "fmt", "input": {"position": takio.j_pos(p), "origin": origin, "history": history_of(p),
                                                                                                "stones_container": type(p.stones).__name__},
                                                                       "observed": eq})
                found = True
                break
        if why:
            cs, _, _, _, _ = _cases_fmt(run, [(p, origin)])
            failing, shard_fail, _ = cs.run() if len(cs) else ([1], [], 0)
            if failing or shard_fail:
                run.violation(_key("search-pos", str(takio.j_pos(p))), {"clause": "format/parse round trip", "kind": "fmt",
                                                                        "input": {"position": takio.j_pos(p), "origin": origin}, "observed": why})
                found = True
                break
            over.append({"position": takio.j_pos(p), "oracle": why})
            if len(over) >= 5:
                break
    if not found and len(over) < 5:
        seeds = [indep_write(p.size, board_of(p), p.ply) for p, _ in positions] + [grammar_canonical(run.rng) for _ in range(300)]
        short = [t for t in seeds if len(t) < 160] or ["x3/x3/x3 1 1"]
        stream = corpus_texts() + list(FIXED_STRINGS) + [" ".join([square_board(run.rng, n), "1", "1"]) for n in (9, 10, 2, 1, 9, 10, 11) for _ in range(6)] + seeds + [mutated(run.rng, run.rng.choice(short))[0] for _ in range(20000)]
        stream += ["x3/x3/x3 1 " + "1" * (MAXD + 1), "x3/x3/xa 2 " + "9" * (MAXD + 7), "x3/x3/x3 1 " + "0" * MAXD + "1",
                   "x3/x3/x3 1 " + "1" * MAXD, "x3/x3/x3 3 " + "1" * (MAXD + 1)]
        for s in stream:
            why = oracle_text(s)
            if why:
                if hit_text(s, why):
                    found = True
                    break
                if len(over) >= 5:
                    break
    if over:
        run.oblige("selftest:search-oracle never demands more than the model (search stream)", False,
                   "oracle objects where implementation and model agree: " + str(over[:5]))
    return found


def replay(run, rp):
    core.setup_impl()
    inp = rp.get("input", {})
    kind = rp.get("kind") or inp.get("kind")
    if kind == "fmt":
        p = takio.mk_pos(inp["position"])
        if inp.get("history"):          # a position reached by play is rebuilt by play (its Python representation matters)
            import tak
            p = tak.Position.from_config(tak.Config(size=inp["position"]["size"]))
            for jm in inp["history"]:
                p = p.move(takio.mk_move(jm))
        why = oracle_position(p)
        cs, _, _, _, direct = _cases_fmt(run, [(p, inp.get("origin", "replay"))])
        failing, shard_fail, _ = cs.run()
        eq = [h[2] for h in direct if isinstance(h[2], dict)]
        return {"violates": bool(why or failing or shard_fail or direct), "oracle": why, "model_disagrees": bool(failing),
                "not_equal_by_python_eq": eq[:1], "impl_text": cs.metas[0]["impl_text"] if cs.metas else None}
    cps = inp.get("text_codepoints")
    s = "".join(chr(c) for c in cps) if cps else inp.get("text", "")
    with memory_guard():
        why = oracle_text(s)
        o = observe(s)
    cs = core.Cases(ID, "replay", HEADER, "bool * list Z * obs",
                    "fun c => let '(u, t, o) := c in res_chk u (parse_tps t) o", show="fun c => let '(u, t, o) := c in show_res (parse_tps t)")
    cs.add(f"({core.cbool(expect_unspec(s))}, {cstr(s)}, {c_obs(o)})", {"key": "replay"})
    failing, shard_fail, _ = cs.run()
    return {"violates": bool(why or failing or shard_fail), "oracle": why, "model_disagrees": bool(failing), "impl": j_obs(o),
            "model_view": cs.model_view(cs.terms[0])}


# ---- translator tie (T): the C13_source_* theorems quantify over gen/TpsGen.v (parse_tps/format_tps regenerated from the
# source by harness/py2coq.py against model/PySem.v); t13's correspondence validates PySem.v's string semantics.
def pregen(run):
    from . import t13
    return t13.pregen(run)


from . import t13 as _t13  # noqa: E402

MODEL_TARGETS = sorted(set(list(MODEL_TARGETS) + list(_t13.MODEL_TARGETS)))
TRUSTED_BASE = list(TRUSTED_BASE) + [
    "translator harness/py2coq.py and model/PySem.v (str.split/join/isascii/isdigit, int() with its digit limit, str(), "
    "list semantics), validated against CPython and the implementation on every run",
]
_c13_correspondence = correspondence


def correspondence(run):
    _c13_correspondence(run)
    _t13.correspondence(run)
