"""T13 - the TPS reader and writer of python/tak/ptn/tps.py are REGENERATED FROM THE SOURCE and proved equal to the
hand-written model (model/Tps.v): props/T13.v, proofs/TpsGenEq.v; the main C13 theorems are transported to the generated
functions.

`pregen` regenerates gen/GameGen.v (Position.from_squares / Config are used by parse_tps) and gen/TpsGen.v.
Correspondence:
 (a) the STRING semantics added to model/PySem.v for this package against CPython, evaluated inside Coq: s.split(c),
     sep.join(l), s.isascii(), s.isdigit() (random strings incl. non-ASCII digits and blanks, empty fields; plus the WHOLE
     table of digit code points recomputed from the running interpreter), int(s) on ASCII digits incl. the 4300-digit
     limit, str(n) incl. the limit, l * n, `a, b, c = l`, try/except, x in "chars";
 (b) the GENERATED parse_tps / format_tps, evaluated inside Coq, against the implementation on c13's inputs: positions
     (playouts, constructed boards), canonical texts of the independent writer, grammar-directed mutations, the fixed
     malformed strings and the int()-limit strings."""
import sys

from .. import core, takio
from ..core import cbool, clist, copt, cstr, cz, czlist
from . import c01gen, c13gen



class _Lazy:
    """c13.py may import this module (to run its correspondence too): import c13 on first use"""

    def __getattr__(self, name):
        import importlib
        return getattr(importlib.import_module("harness.props.c13"), name)


c13 = _Lazy()

ID = "T13"
THEOREMS = ["T13_gen_parse_tps_eq", "T13_gen_parse_row_eq", "T13_gen_parse_total", "T13_gen_format_tps_eq",
            "T13_gen_format_row_eq", "T13_gen_format_square_eq", "T13_gen_from_squares_eq", "T13_pysem_strings",
            "T13_gen_parse_format", "T13_gen_format_parse_canonical", "T13_gen_parse_meaning", "T13_gen_parse_reserves",
            "T13_gen_parse_refuses"]
MODEL_TARGETS = ["model/Tak.vo", "model/Road.vo", "model/PySem.vo", "model/Harness.vo", "model/Lit.vo", "model/Tps.vo",
                 "gen/GameGen.vo", "gen/TpsGen.vo"]
TRUSTED_BASE = [
    "model/PySem.v, string part: a str is the list of its code points; split / join / isascii / isdigit (table of digit "
    "code points) / int() on ASCII digits with the 4300-digit limit (NO position on other strings: Crash Unmodelled) / "
    "str() with the limit / list repetition / unpacking / try-except - validated against CPython inside Coq on every run",
    "harness/py2coq.py: statements -> Gallina; `while` loops on fuel given by an annotation (len(row) + 1), OutOfFuel "
    "being an explicit outcome that the theorems exclude; validated by running the generated functions against the "
    "implementation",
]
ASSUMPTIONS = [
    "gen_parse_tps_eq: every string, no guard.  gen_format_tps_eq: size and move number below 10^4300 (str() raises "
    "ValueError above; C13's wf carries the same bound)",
]
_STATE = {}


def pregen(run):
    e1 = c01gen.pregen(run)
    e2 = c13gen.pregen(run)
    _STATE["err"] = e1 or e2
    return _STATE["err"]


# --------------------------------------------------------------------------------------------------------------------
# (a) PySem strings vs CPython
# --------------------------------------------------------------------------------------------------------------------
SEM_HEADER = """From Coq Require Import ZArith String List Bool.
From TV Require Import model.Tak model.PySem model.Lit.
Import ListNotations.
Open Scope Z_scope.
Definition zl_eqb := list_eqb Z.eqb.
Definition zll_eqb := list_eqb zl_eqb.
Inductive ob (A : Type) := OV (v : A) | OE (e : exn).
Arguments OV {A} v. Arguments OE {A} e.
Definition agree {A} (eqb : A -> A -> bool) (r : res A) (o : ob A) : bool :=
  match r, o with
  | Ok v, OV w => eqb v w
  | Crash e, OE e' => exn_eqb e e'
  | _, _ => false
  end.
Definition unmodelled {A} (r : res A) : bool := match r with Crash Unmodelled => true | _ => false end.
Inductive scase :=
| SSplit (sep : Z) (s : list Z) (r : list (list Z))          (* s.split(chr(sep)) *)
| SJoin (sep : list Z) (l : list (list Z)) (r : list Z)      (* sep.join(l) *)
| SPred (s : list Z) (ascii digit : bool)                    (* s.isascii(), s.isdigit() *)
| SInt (s : list Z) (o : ob Z)                               (* int(s), s of ASCII digits *)
| SIntOther (s : list Z)                                     (* int(s), any other s: PySem must take no position *)
| SStr (n : Z) (o : ob (list Z))                             (* str(n) *)
| SRepeat (l : list Z) (n : Z) (r : list Z)                  (* l * n *)
| SUnpack3 (l : list Z) (o : ob (Z * Z * Z))                 (* a, b, c = l *)
| SIn (c : Z) (s : list Z) (r : bool)                        (* chr(c) in s *)
| SEq (a b : list Z) (r : bool)                              (* a == b *)
| SRev (l r : list Z)                                        (* list(reversed(l)) *)
| STry (s : list Z) (o : ob Z)                               (* try: int(s) except ValueError: -1   (ASCII digits) *)
| STable (t : list (Z * Z)) (lim : Z).                       (* all c with chr(c).isdigit(), sys.get_int_max_str_digits() *)
Definition schk (c : scase) : bool :=
  match c with
  | SSplit sep s r => zll_eqb (py_split1 sep s) r
  | SJoin sep l r => zl_eqb (py_join sep l) r
  | SPred s a d => Bool.eqb (py_isascii s) a && Bool.eqb (py_isdigit s) d
  | SInt s o => agree Z.eqb (py_int_str s) o
  | SIntOther s => unmodelled (py_int_str s)
  | SStr n o => agree zl_eqb (py_str_int n) o
  | SRepeat l n r => zl_eqb (py_list_repeat l n) r
  | SUnpack3 l o => agree (fun x y => let '(a, b, c) := x in let '(a', b', c') := y in (a =? a') && (b =? b') && (c =? c'))
                          (py_unpack3 l) o
  | SIn c s r => Bool.eqb (existsb (Z.eqb c) s) r
  | SEq a b r => Bool.eqb (pystr_eqb a b) r
  | SRev l r => zl_eqb (rev l) r
  | STry s o => agree Z.eqb (py_try (py_int_str s) ValueError (Ok (-1))) o
  | STable t lim => list_eqb (fun a b => (fst a =? fst b) && (snd a =? snd b)) py_digit_ranges t && (py_int_max_str_digits =? lim)
  end.
"""
ALPHA = list(" /,x12SC0123456789-+_\n\t.abX") + ["٣", "²", "１", "١", "\x00", " ", "\U0001d7d0",
                                                  "३", "①", "〇", " ", "½"]
MAXD = 4300


def _digit_ranges():
    rs, start = [], None
    for c in range(0x110000):
        d = chr(c).isdigit()
        if d and start is None:
            start = c
        if not d and start is not None:
            rs.append((start, c - 1))
            start = None
    return rs


def _cps(s):
    return czlist([ord(c) for c in s])


def _long_digits(runs):
    """a long digit string as a Coq term without a long literal"""
    return "(" + " ++ ".join(f"repeat {ord(ch)} {n}%nat" for ch, n in runs) + ")%list"


def sem_cases(run, n):
    rng = run.rng
    cs = core.Cases(ID, "pystr", SEM_HEADER, "scase", "schk", shard=300)
    cl = core.Cases(ID, "pystrlim", SEM_HEADER, "scase", "schk", shard=1)     # the expensive 4300-digit cases, one per file
    dist = {}

    def rs(maxlen=8, alpha=ALPHA):
        return "".join(rng.choice(alpha) for _ in range(rng.randint(0, maxlen)))

    def add(kind, term, meta):
        dist[kind] = dist.get(kind, 0) + 1
        meta["kind"] = kind
        (cl if kind in ("int-limit", "str-limit", "try-limit") else cs).add(term, meta)

    def ob(f, emit):
        try:
            return f"(OV {emit(f())})"
        except ValueError:
            return "(OE ValueError)"

    add("table", f"STable {clist([f'({a}, {b})' for a, b in _digit_ranges()])} {sys.get_int_max_str_digits()}",
        {"expr": "[c for c in range(0x110000) if chr(c).isdigit()], sys.get_int_max_str_digits()"})
    # the int() / str() limits, without long literals
    for runs in ([("1", MAXD)], [("1", MAXD + 1)], [("0", MAXD), ("1", 1)], [("0", MAXD - 1), ("7", 1)], [("9", MAXD + 7)]):
        s = "".join(ch * k for ch, k in runs)
        try:
            v = int(s)
            o = f"(OV (fold_left (fun a c => 10 * a + (c - 48)) {_long_digits(runs)} 0))"
        except ValueError:
            v, o = None, "(OE ValueError)"
        add("int-limit", f"SInt {_long_digits(runs)} {o}", {"expr": f"int({runs})", "raises": v is None})
    # str() at the limit: digit extraction of a 4300-digit number costs Coq's binary arithmetic ~1 minute per case:
    # thorough tier only (the quick tier checks str() up to 10^40 and the limit constant itself through STable)
    for nexpr, pyv in (() if run.quick else (("(10 ^ 4300 - 1)", 10 ** 4300 - 1), ("(10 ^ 4300)", 10 ** 4300),
                                             ("(- (10 ^ 4300 - 1))", -(10 ** 4300 - 1)), ("(- 10 ^ 4300)", -(10 ** 4300)))):
        try:
            t = str(pyv)
            neg = t.startswith("-")
            body = t[1:] if neg else t
            assert set(body) == {"9"}
            o = f"(OV ({'[45] ++ ' if neg else ''}repeat 57 {len(body)}%nat)%list)"
        except ValueError:
            o = "(OE ValueError)"
        add("str-limit", f"SStr {nexpr} {o}", {"expr": f"str({nexpr})"})
    kinds = ["split"] * 6 + ["join"] * 3 + ["pred"] * 6 + ["int"] * 3 + ["intother"] * 2 + ["str"] * 3 + \
        ["repeat", "unpack", "in", "eq", "rev", "try"]
    for _ in range(n):
        k = rng.choice(kinds)
        if k == "split":
            sep = rng.choice([" ", "/", ",", ",", rng.choice(ALPHA)])
            s = rs(14, ALPHA + [sep] * 6)
            add(k, f"SSplit {ord(sep)} {_cps(s)} {clist([_cps(x) for x in s.split(sep)])}", {"expr": f"{s!r}.split({sep!r})"})
        elif k == "join":
            sep = rng.choice(["", " ", "/", ",", rs(2)])
            l = [rs(4) for _ in range(rng.randint(0, 5))]
            add(k, f"SJoin {_cps(sep)} {clist([_cps(x) for x in l])} {_cps(sep.join(l))}", {"expr": f"{sep!r}.join({l!r})"})
        elif k == "pred":
            s = rs(5, rng.choice([ALPHA, list("0123456789"), list("0123456789") + ["٣", "²", "１"]]))
            add(k, f"SPred {_cps(s)} {cbool(s.isascii())} {cbool(s.isdigit())}", {"expr": f"{s!r}.isascii(), .isdigit()"})
        elif k == "int":
            s = "".join(rng.choice("0123456789") for _ in range(rng.randint(1, rng.choice([1, 3, 12, 40]))))
            add(k, f"SInt {_cps(s)} (OV {cz(int(s))})", {"expr": f"int({s!r})"})
        elif k == "intother":
            s = rs(4)
            if s and s.isascii() and s.isdigit():
                s = "+" + s
            add(k, f"SIntOther {_cps(s)}", {"expr": f"int({s!r}): PySem takes no position"})
        elif k == "str":
            v = rng.choice([rng.randint(-20, 120), rng.randint(-10 ** 6, 10 ** 12), rng.randint(0, 10 ** 40), 0, 9, 10, 99, 100])
            add(k, f"SStr {cz(v)} (OV {_cps(str(v))})", {"expr": f"str({v})"})
        elif k == "repeat":
            l = [rng.randint(0, 9) for _ in range(rng.randint(0, 3))]
            m = rng.randint(-2, 9)
            add(k, f"SRepeat {czlist(l)} {cz(m)} {czlist(l * m)}", {"expr": f"{l} * {m}"})
        elif k == "unpack":
            l = [rng.randint(0, 9) for _ in range(rng.randint(0, 5))]

            def f():
                a, b, c = l
                return (a, b, c)
            add(k, f"SUnpack3 {czlist(l)} {ob(f, lambda t: f'({t[0]}, {t[1]}, {t[2]})')}", {"expr": f"a, b, c = {l}"})
        elif k == "in":
            s = rs(8)
            c = rng.choice(ALPHA)
            add(k, f"SIn {ord(c)} {_cps(s)} {cbool(c in s)}", {"expr": f"{c!r} in {s!r}"})
        elif k == "eq":
            a = rs(3, list("12x"))
            b = rng.choice([a, rs(3, list("12x"))])
            add(k, f"SEq {_cps(a)} {_cps(b)} {cbool(a == b)}", {"expr": f"{a!r} == {b!r}"})
        elif k == "rev":
            l = [rng.randint(0, 9) for _ in range(rng.randint(0, 6))]
            add(k, f"SRev {czlist(l)} {czlist(list(reversed(l)))}", {"expr": f"list(reversed({l}))"})
        else:
            s = "".join(rng.choice("0123456789") for _ in range(rng.randint(1, 6)))
            add(k, f"STry {_cps(s)} (OV {cz(int(s))})", {"expr": f"try: int({s!r}) except ValueError: -1"})
    for runs in ([("1", MAXD + 1)], [("3", MAXD)]):
        s = "".join(ch * k for ch, k in runs)
        try:
            int(s)
            o = f"(OV (fold_left (fun a c => 10 * a + (c - 48)) {_long_digits(runs)} 0))"
        except ValueError:
            o = "(OV (-1))"
        add("try-limit", f"STry {_long_digits(runs)} {o}", {"expr": f"try: int({runs}) except ValueError: -1"})
    return cs, cl, dist


# --------------------------------------------------------------------------------------------------------------------
# (b) the generated reader / writer against the implementation
# --------------------------------------------------------------------------------------------------------------------
GEN_HEADER = """From Coq Require Import ZArith String List Bool.
From TV Require Import model.Tak model.Road model.PySem model.Lit.
From TV Require gen.GameGen gen.TpsGen.
Import ListNotations.
Open Scope Z_scope.
Inductive pobs := PAcc (p : position) | PIll | PCrash.
Definition psame (r : res position) (o : pobs) : bool :=
  match r, o with
  | Ok p, PAcc q => position_eqb p q
  | Illegal, PIll => true
  | _, _ => false
  end.
Definition unmodelled {A} (r : res A) : bool := match r with Crash Unmodelled => true | _ => false end.
(* a text and what parse_tps did with it.  An answer `Crash Unmodelled` of the generated function (PySem takes no
   position on int() of a string that is not ASCII digits) is not compared: counted by the harness *)
Definition tchk (c : list Z * pobs) : bool := unmodelled (TpsGen.parse_tps (fst c)) || psame (TpsGen.parse_tps (fst c)) (snd c).
Definition tview (c : list Z * pobs) := TpsGen.parse_tps (fst c).
(* a position, format_tps(p) or None when it raised, parse_tps of that text *)
Definition fchk (c : position * option (list Z) * pobs) : bool :=
  let '(p, t, o) := c in
  match TpsGen.format_tps p, t with
  | Ok s, Some s' => pystr_eqb s s' && psame (TpsGen.parse_tps s) o
  | Crash _, None => true
  | _, _ => false
  end.
Definition fview (c : position * option (list Z) * pobs) := let '(p, t, o) := c in TpsGen.format_tps p.
"""


def _c_pos(p):
    """takio.c_pos, except that a ply above 10^60 is written as a hexadecimal Z literal: Coq 8.16 needs ~35 s to read one
    4300-digit DECIMAL literal (the move number of the int()-limit texts) and 0.2 s for the same number in hex"""
    if abs(p.ply) < 10 ** 60:
        return takio.c_pos(p)
    s = p.stones
    ply = hex(p.ply) if p.ply >= 0 else f"(-{hex(-p.ply)})"
    return (f"(P {cz(p.size)} {cz(s[0].stones)} {cz(s[0].caps)} {cz(s[1].stones)} {cz(s[1].caps)} "
            f"{ply} {takio.c_board(p.board)})")


def _pobs(o):
    if o[0] == "acc":
        try:
            return f"(PAcc {_c_pos(o[1])})"
        except Exception:  # noqa
            return "PCrash"
    return "PIll" if o[0] == "ill" else "PCrash"


def text_cases(run, items, name="text"):
    cs = core.Cases(ID, name, GEN_HEADER, "list Z * pobs", "tchk", show="tview", shard=250)
    dist = {"Accept": 0, "IllegalTPS": 0, "Crash": 0}
    long_terms = {}
    for s, tag in items:
        o = c13.observe(s)
        dist[{"acc": "Accept", "ill": "IllegalTPS", "crash": "Crash"}[o[0]]] += 1
        term = cstr(s)
        if len(s) > 2000:
            # long digit runs as `repeat`: head, then maximal runs of one character
            head = s[:s.rindex(" ") + 1]
            tail = s[len(head):]
            runs, i = [], 0
            while i < len(tail):
                j = i
                while j < len(tail) and tail[j] == tail[i]:
                    j += 1
                runs.append((tail[i], j - i))
                i = j
            term = "(" + " ++ ".join([cstr(head)] + [f"repeat {ord(ch)} {k}%nat" for ch, k in runs]) + ")%list"
        cs.add(f"({term}, {_pobs(o)})",
               {"key": c13._key("t13", s), "mutation": tag, "text": s if len(s) < 300 else s[:120] + f"...({len(s)} chars)",
                "text_codepoints": [ord(c) for c in s] if len(s) < 6000 else None, "impl": c13.j_obs(o)})
    return cs, dist


def pos_cases(run, positions, name="fmt"):
    from tak.ptn import tps
    cs = core.Cases(ID, name, GEN_HEADER, "position * option (list Z) * pobs", "fchk", show="fview", shard=100)
    nontriv = 0
    for p, origin in positions:
        try:
            t = tps.format_tps(p)
            o = c13.observe(t)
        except BaseException as e:  # noqa
            t, o = None, ("crash", type(e).__name__)
        cs.add(f"({_c_pos(p)}, {copt(None if t is None else cstr(t))}, {_pobs(o)})",
               {"key": c13._key("t13fmt", str(takio.j_pos(p))), "origin": origin, "position": takio.j_pos(p), "impl_text": t,
                "impl_parse": c13.j_obs(o)})
        nontriv += any(len(sq) >= 2 for sq in p.board) or any(sq and sq[0].kind.value for sq in p.board)
    return cs, nontriv


def _texts(run, positions):
    rng = run.rng
    items = [(s, "fixed") for s in c13.FIXED_STRINGS]
    canon = [c13.indep_write(p.size, c13.board_of(p), p.ply) for p, _ in positions[:400 if run.quick else 3000]]
    canon += [c13.grammar_canonical(rng) for _ in range(200 if run.quick else 2000)]
    items += [(t, "canonical") for t in canon]
    for _ in range(3000 if run.quick else 30000):
        items.append(c13.mutated(rng, rng.choice(canon)))
    for b in ("x3/x3/x3", "x3/x3/xa"):
        items.append((f"{b} 1 " + "1" * (MAXD + 1), "int-limit"))
        items.append((f"{b} 2 " + "0" * MAXD + "1", "int-limit"))
    items.append(("x3/x3/x3 1 " + "1" * MAXD, "int-limit-edge"))
    return items


def correspondence(run):
    core.setup_impl()
    err = _STATE.get("err", "unset")
    if err == "unset":
        err = pregen(run)
    cs, cl, dist = sem_cases(run, 2500 if run.quick else 15000)
    failing, shard_fail, nshards = cs.run()
    f2, sf2, n2 = cl.run()
    failing, shard_fail, nshards = failing + f2, shard_fail + sf2, nshards + n2
    run.oblige(f"correspondence:pysem-strings ({nshards} shards)", not shard_fail, str(shard_fail)[:1500])
    run.count(len(cs) + len(cl), len(set(cs.terms)) + len(cl),
              "PySem.v string semantics vs CPython: split / join / isascii / isdigit over an alphabet with non-ASCII "
              "digits (Arabic-Indic, superscript, full-width, mathematical, Devanagari, circled), blanks (NBSP, EM SPACE), "
              "NUL; the complete table of digit code points and sys.get_int_max_str_digits(); int() on ASCII digits incl. "
              "4300 / 4301 digits and leading zeros; int() elsewhere must be Unmodelled; str() incl. +-(10^4300 - 1) and "
              "+-10^4300; list repetition incl. negative counts; 3-unpacking; try/except ValueError",
              [m for m in cs.metas[1:4]], dist, label="pysem-strings")
    for meta in failing[:8]:
        run.violation("pysem:" + c13._key("s", repr(meta)), {"clause": "model/PySem.v disagrees with CPython", "input": meta})
    if err:
        run.extra["differential_skipped"] = "the translation failed; gen/TpsGen.v is a stub"
        return
    allpos = c13._positions(run)
    run.rng.shuffle(allpos)
    positions = allpos[:600 if run.quick else 6000]
    with c13.memory_guard():
        cf, nontriv = pos_cases(run, positions)
        items = _texts(run, positions)
        ct, tdist = text_cases(run, items)
    failing, shard_fail, nshards = cf.run()
    run.oblige(f"correspondence:generated-format_tps ({nshards} shards)", not shard_fail, str(shard_fail)[:1500])
    run.count(len(cf), nontriv, "TpsGen.format_tps p (translated source, evaluated in Coq) = the implementation's text, and "
              "TpsGen.parse_tps of it = the implementation's parse; c13's positions of sizes 3-8 (playouts, constructed boards "
              "with stacks to 40, plies to 10^40, custom reserves); non-trivial = a stack or a wall / capstone",
              [{"tps": m["impl_text"][:120]} for m in cf.metas[:2]], label="format")
    for meta in failing[:3]:
        run.violation(meta["key"], {"clause": "the translated writer / reader reproduce the implementation", "kind": "fmt",
                                    "input": {"position": meta["position"], "origin": meta["origin"]},
                                    "impl_text": meta["impl_text"], "impl_parse": meta["impl_parse"],
                                    "generated_view": cf.model_view(cf.terms[cf.metas.index(meta)])})
    failing, shard_fail, nshards = ct.run()
    run.oblige(f"correspondence:generated-parse_tps ({nshards} shards)", not shard_fail, str(shard_fail)[:1500])
    run.count(len(ct), len({m["key"] for m in ct.metas}),
              "TpsGen.parse_tps s (translated source, evaluated in Coq) = the implementation's outcome (position / "
              "IllegalTPS; any other exception never matches) on c13's fixed malformed strings, canonical texts of the "
              "independent writer and of the grammar, depth <= 3 mutations, int()-limit strings", [
                  {"text": m["text"][:80], "impl": m["impl"]["result"]} for m in ct.metas[80:83]], tdist, label="parse")
    for meta in failing[:3]:
        run.violation(meta["key"], {"clause": "the translated reader reproduces the implementation", "kind": "mut",
                                    "input": {"text": meta["text"], "text_codepoints": meta["text_codepoints"]},
                                    "impl": meta["impl"], "mutation": meta["mutation"],
                                    "generated_view": ct.model_view(ct.terms[ct.metas.index(meta)])})
    if len(failing) > 3:
        run.extra["more_failing_parse_cases"] = len(failing) - 3


def search(run, broken):
    """the proof broke (or the translation failed) and the generated functions still agree with the implementation: the
    SOURCE changed.  c13's oracles of the property's own statement (independent writer, reference reader) on the
    implementation."""
    core.setup_impl()
    with c13.memory_guard():
        found = c13._search(run, broken)
    return found


def replay(run, rp):
    core.setup_impl()
    inp = rp.get("input", {})
    kind = rp.get("kind") or inp.get("kind")
    out = {}
    viol = False
    err = pregen(run)
    if not err:
        with core.BuildLock():
            core.coq_make(MODEL_TARGETS)
    if kind == "fmt" and "position" in inp:
        p = takio.mk_pos(inp["position"])
        out["oracle"] = c13.oracle_position(p)
        viol = bool(out["oracle"])
        if not err:
            cs, _ = pos_cases(run, [(p, "replay")], name="replay")
            failing, shard_fail, _ = cs.run()
            out["generated_agrees_with_impl"] = not (failing or shard_fail)
            viol = viol or bool(failing or shard_fail)
    elif "text" in inp or "text_codepoints" in inp:
        cps = inp.get("text_codepoints")
        s = "".join(chr(c) for c in cps) if cps else inp.get("text", "")
        with c13.memory_guard():
            out["oracle"] = c13.oracle_text(s)
            out["impl"] = c13.j_obs(c13.observe(s))
        viol = bool(out["oracle"])
        if not err:
            cs, _ = text_cases(run, [(s, "replay")], name="replay")
            failing, shard_fail, _ = cs.run()
            out["generated_agrees_with_impl"] = not (failing or shard_fail)
            if failing:
                out["generated_view"] = cs.model_view(cs.terms[0])
            viol = viol or bool(failing or shard_fail)
    else:
        return {"violates": False, "note": "replay file carries no input", "stored": rp.get("broken_obligations")}
    if err:
        out["translation"] = err
    out["violates"] = viol
    return out
