"""T01 - the model of the rules is REGENERATED FROM THE SOURCE and proved equal to the hand-written model.

`pregen` (harness/py2coq.py) translates the current text of python/tak/game.py, moves.py, pieces.py into
coq/gen/GameGen.v, a shallow embedding written against coq/model/PySem.v (Python's semantics of indexing with
negative indices and IndexError, slices with clamping, item assignment, tuple indexing, getattr, attrs.evolve,
exceptions as outcomes).  props/T01.v: the generated functions equal model/Tak.v / model/Road.v on the stated
domains and never crash there; C01 / C02 / C03 / C04 transported to the generated functions.

What remains trusted is PySem.v and the translator's statement-to-Gallina scheme, so the correspondence here
(a) validates every PySem operation against CPython on random inputs, evaluated inside Coq, and
(b) runs the GENERATED functions (`GameGen.move`, `all_moves`, `winner`, `flat_counts`, `all_moves_for_size`)
    against the implementation on (position, move) pairs incl. ill-formed moves and slides without a tuple."""
import re

from .. import core, takio
from ..core import clist, copt, cz, czlist
from . import _wpa, c01gen



class _Lazy:
    """c01.py imports this module at its end (its correspondence runs this one too): import it on first use"""

    def __getattr__(self, name):
        import importlib
        return getattr(importlib.import_module("harness.props.c01"), name)


c01 = _Lazy()

ID = "T01"
THEOREMS = [
    "T01_gen_move_eq", "T01_gen_move_never_crashes", "T01_gen_move_slide_none", "T01_gen_move_ok_iff",
    "T01_gen_slide_loop_eq", "T01_gen_all_moves_eq", "T01_gen_table_eq", "T01_gen_all_slides_eq",
    "T01_gen_walk_loop_eq", "T01_gen_walk_eq", "T01_gen_has_road_eq", "T01_gen_has_road_ok", "T01_gen_winner_eq",
    "T01_gen_winner_ok", "T01_gen_has_road_verdict", "T01_gen_flat_counts_eq", "T01_gen_flats_winner_eq", "T01_gen_small_functions",
    "T01_gen_from_squares_eq",
    "T01_gen_move_iff", "T01_gen_move_total", "T01_gen_generator_complete", "T01_gen_generator_complete_rulebook",
    "T01_gen_inv_step", "T01_gen_wf_step", "T01_gen_winner_outcome",
]
MODEL_TARGETS = ["model/Tak.vo", "model/Road.vo", "model/PySem.vo", "model/Harness.vo", "model/Lit.vo",
                 "gen/GameGen.vo"]
TRUSTED_BASE = [
    "model/PySem.v: the Python semantics of l[i] (negative indices wrap, IndexError outside), l[a:b] (clamping), "
    "l[i] = v, tuple indexing, range, sum, getattr(StoneCounts, name), attrs.evolve, iteration of None, Enum(value), "
    "dict lookup - validated against CPython on random inputs inside Coq on every run",
    "harness/py2coq.py: the scheme statements -> Gallina (rebinding instead of mutation on lists the function created "
    "itself, `delta[k] = list variable` as a reference resolved at exit, for loops as structural recursion, "
    "exceptions as outcomes, `while` on annotated fuel with OutOfFuel an outcome the theorems exclude); "
    "Piece.cached(c, k) entered as `mkPiece c k` (source pinned) - validated by running the generated functions "
    "against the implementation; Position.has_road / _walk are translated too (a set is a list used as a set)",
]
ASSUMPTIONS = [
    "equalities hold for every position whose board list has size^2 entries (`shape`; part of wf_pos) and EVERY move "
    "value; a slide whose slides field is None (TypeError in the code) is modelled as Crash TypeError "
    "(T01_gen_move_slide_none) and excluded by `slide_has_drops` where a statement needs it",
    "all_moves: additionally size <= 8; all_moves_for_size: size <= 8 (ALL_SLIDES has nine entries)",
]

_STATE = {}


def pregen(run):
    """regenerate coq/gen/GameGen.v from the tree under test (harness/py2coq.py); remembers whether it failed"""
    err = c01gen.pregen(run)
    _STATE["err"] = err
    return err


# --------------------------------------------------------------------------------------------------------------------
# (a) PySem.v against CPython
# --------------------------------------------------------------------------------------------------------------------
SEM_HEADER = """From Coq Require Import ZArith String List Bool.
From TV Require Import model.Tak model.Road model.PySem model.Lit.
Import ListNotations.
Open Scope Z_scope.
Definition zl_eqb := list_eqb Z.eqb.
Definition exn_eqb (a b : exn) : bool :=
  match a, b with
  | IndexError, IndexError | TypeError, TypeError | ValueError, ValueError | KeyError, KeyError
  | AssertionError, AssertionError | AttributeError, AttributeError | ZeroDivisionError, ZeroDivisionError => true
  | _, _ => false
  end.
(* observed outcome of the Python expression: a value, or the class of the exception *)
Inductive ob (A : Type) := OV (v : A) | OE (e : exn).
Arguments OV {A} v. Arguments OE {A} e.
Definition agree {A} (eqb : A -> A -> bool) (r : res A) (o : ob A) : bool :=
  match r, o with
  | Ok v, OV w => eqb v w
  | Crash e, OE e' => exn_eqb e e'
  | _, _ => false
  end.
Definition sc_eqb (a b : stonecounts) : bool := (sc_stones a =? sc_stones b) && (sc_caps a =? sc_caps b).
Inductive pcase :=
| CGet (l : list Z) (i : Z) (o : ob Z)                        (* l[i] *)
| CSet (l : list Z) (i v : Z) (o : ob (list Z))               (* l2 = list(l); l2[i] = v; l2 *)
| CSlice (l : list Z) (a b : option Z) (r : list Z)           (* l[a:b] *)
| CTup (a b i : Z) (o : ob Z)                                 (* (a, b)[i] *)
| CRange (n : Z) (r : list Z)                                 (* list(range(n)) *)
| CRange2 (a b : Z) (r : list Z)                              (* list(range(a, b)) *)
| CSum (l : list Z) (r : Z)                                   (* sum(l) *)
| CLen (l : list Z) (r : Z) (t : bool)                        (* len(l), bool(l) *)
| CMod (a b r : Z)                                            (* a % b, b <> 0 *)
| CIter (o : option (list Z)) (r : ob (list Z))               (* [x for x in o] *)
| CGetattr (s c : Z) (name : string) (o : ob Z)               (* getattr(StoneCounts(s, c), name) *)
| CEvolve (s c : Z) (name : string) (v : Z) (o : ob stonecounts)   (* attrs.evolve(StoneCounts(s, c), **{name: v}) *)
| CEnum (which i : Z) (o : ob Z)                              (* Color(i) / Kind(i) / MoveType(i): index of the member *)
| CDir (t : mtype) (o : ob (Z * Z))                           (* DIRECTIONS[t] *)
| CCat (l1 l2 r : list Z)                                     (* l1 + l2 *)
| CAnyAll (l : list (list Z)) (a b : bool)                    (* all(l), any(len(x) == 0 for x in l) *)
| CPop (l : list Z) (o : ob (Z * list Z)).                    (* x = l.pop(): (x, l afterwards) *)                   (* all(l), any(len(x) == 0 for x in l) *)
Definition pchk (c : pcase) : bool :=
  match c with
  | CGet l i o => agree Z.eqb (py_getitem l i) o
  | CSet l i v o => agree zl_eqb (py_setitem l i v) o
  | CSlice l a b r => zl_eqb (py_slice l a b) r
  | CTup a b i o => agree Z.eqb (py_tuple2_get (a, b) i) o
  | CRange n r => zl_eqb (py_range n) r
  | CRange2 a b r => zl_eqb (py_range2 a b) r
  | CSum l r => py_sum l =? r
  | CLen l r t => (len l =? r) && Bool.eqb (truthy_list l) t
  | CMod a b r => (a mod b) =? r
  | CIter o r => agree zl_eqb (py_iter_opt o) r
  | CGetattr s c name o => agree Z.eqb (py_getattr_sc (mkSC s c) name) o
  | CEvolve s c name v o => agree sc_eqb (sc_evolve (mkSC s c) name v) o
  | CEnum which i o =>
      if which =? 0 then agree Z.eqb (res_map GameGen.Color_value (GameGen.Color_of_value i)) o
      else if which =? 1 then agree Z.eqb (res_map GameGen.Kind_value (GameGen.Kind_of_value i)) o
      else agree Z.eqb (res_map GameGen.MoveType_value (GameGen.MoveType_of_value i)) o
  | CDir t o => agree (fun a b => (fst a =? fst b) && (snd a =? snd b)) (py_dict_get mtype_eqb GameGen.DIRECTIONS t) o
  | CCat l1 l2 r => zl_eqb (l1 ++ l2) r
  | CAnyAll l a b => Bool.eqb (forallb truthy_list l) a && Bool.eqb (existsb (fun x => len x =? 0) l) b
  | CPop l o => agree (fun a b => (fst a =? fst b) && zl_eqb (snd a) (snd b)) (py_pop l) o
  end.
"""
SEM_HEADER = SEM_HEADER.replace("From TV Require Import model.Tak model.Road model.PySem model.Lit.",
                                "From TV Require Import model.Tak model.Road model.PySem model.Lit.\n"
                                "From TV Require gen.GameGen.")
# when the translation failed gen/GameGen.v is a stub: PySem.v is still validated, without the two kinds of cases
# that read the generated enum tables
SEM_HEADER_NOGEN = re.sub(r"  \| CEnum which i o =>.*?\n  \| CDir t o => [^\n]*\n", "  | CEnum _ _ _ => true\n  | CDir _ _ => true\n",
                          SEM_HEADER.replace("From TV Require gen.GameGen.\n", ""), flags=re.S)
assert "GameGen" not in SEM_HEADER_NOGEN
EXN = {"IndexError", "TypeError", "ValueError", "KeyError", "AssertionError", "AttributeError", "ZeroDivisionError"}


def _ob(f, emit):
    """observe a Python expression: (coq term of type ob _, json view)"""
    try:
        v = f()
        return f"(OV {emit(v)})", {"value": repr(v)}
    except Exception as e:  # noqa
        n = type(e).__name__
        if n not in EXN:
            raise
        return f"(OE {n})", {"raises": n}


def _cstr(s):
    return f'"{s}"%string'


def sem_cases(run, tak, n, with_gen=True):
    """n random Python expressions over lists / slices / indices ..., evaluated by CPython, as cases for Coq"""
    import attrs
    rng = run.rng
    cs = core.Cases(ID, "pysem", SEM_HEADER if with_gen else SEM_HEADER_NOGEN, "pcase", "pchk", shard=400)
    dist = {}
    distinct = set()

    def rl(maxlen=7):
        return [rng.randint(-9, 9) for _ in range(rng.randint(0, maxlen))]

    def ri(l):
        k = len(l)
        return rng.choice([rng.randint(-k - 3, k + 2), rng.randint(-12, 12), 0, -1, k, -k, k - 1, -k - 1])

    def rb(l):
        return None if rng.random() < 0.25 else ri(l)

    def add(kind, term, meta):
        dist[kind] = dist.get(kind, 0) + 1
        distinct.add(term)
        meta["kind"] = kind
        cs.add(term, meta)

    zopt = lambda b: copt(None if b is None else cz(b))  # noqa
    kinds = ["get"] * 6 + ["set"] * 4 + ["slice"] * 10 + ["tup"] * 2 + ["range", "range2", "sum", "len", "mod", "iter",
                                                                         "getattr", "evolve", "enum", "dir", "cat", "anyall", "pop", "pop"]
    MT = list(tak.MoveType)
    if not with_gen:
        kinds = [k for k in kinds if k not in ("enum", "dir")]
    for _ in range(n):
        k = rng.choice(kinds)
        if k == "get":
            l = rl()
            i = ri(l)
            t, j = _ob(lambda: l[i], cz)
            add(k, f"CGet {czlist(l)} {cz(i)} {t}", {"expr": f"{l}[{i}]", **j})
        elif k == "set":
            l = rl()
            i, v = ri(l), rng.randint(-9, 9)

            def f():
                l2 = list(l)
                l2[i] = v
                return l2
            t, j = _ob(f, czlist)
            add(k, f"CSet {czlist(l)} {cz(i)} {cz(v)} {t}", {"expr": f"l = {l}; l[{i}] = {v}", **j})
        elif k == "slice":
            l = rl()
            a, b = rb(l), rb(l)
            # the shapes the code uses: stack[:n], stack[n:], carry[-d:], carry[:-d] with d over negative, 0, positive
            r = rng.random()
            if r < 0.2:
                a = None
            elif r < 0.4:
                b = None
            res = l[a:b]
            add(k, f"CSlice {czlist(l)} {zopt(a)} {zopt(b)} {czlist(res)}", {"expr": f"{l}[{a}:{b}]", "value": repr(res)})
        elif k == "tup":
            a, b, i = rng.randint(-9, 9), rng.randint(-9, 9), rng.randint(-4, 4)
            t, j = _ob(lambda: (a, b)[i], cz)
            add(k, f"CTup {cz(a)} {cz(b)} {cz(i)} {t}", {"expr": f"({a}, {b})[{i}]", **j})
        elif k == "range":
            m = rng.randint(-3, 10)
            add(k, f"CRange {cz(m)} {czlist(list(range(m)))}", {"expr": f"range({m})"})
        elif k == "range2":
            a, b = rng.randint(-4, 10), rng.randint(-4, 10)
            add(k, f"CRange2 {cz(a)} {cz(b)} {czlist(list(range(a, b)))}", {"expr": f"range({a}, {b})"})
        elif k == "sum":
            l = rl()
            add(k, f"CSum {czlist(l)} {cz(sum(l))}", {"expr": f"sum({l})"})
        elif k == "len":
            l = rl(3)
            add(k, f"CLen {czlist(l)} {cz(len(l))} {core.cbool(bool(l))}", {"expr": f"len({l}), bool({l})"})
        elif k == "mod":
            a = rng.randint(-40, 40)
            b = rng.choice([2, 2, 2, 3, 7, -2, -3, 1, -1])
            add(k, f"CMod {cz(a)} {cz(b)} {cz(a % b)}", {"expr": f"{a} % {b}"})
        elif k == "iter":
            o = None if rng.random() < 0.4 else tuple(rl(4))
            t, j = _ob(lambda: [x for x in o], czlist)
            add(k, f"CIter {copt(None if o is None else czlist(o))} {t}", {"expr": f"[x for x in {o}]", **j})
        elif k == "getattr":
            s, c = rng.randint(-3, 30), rng.randint(-3, 3)
            name = rng.choice(["stones", "caps", "stone", "cap", "Stones", ""])
            t, j = _ob(lambda: getattr(tak.StoneCounts(s, c), name), cz)
            add(k, f"CGetattr {cz(s)} {cz(c)} {_cstr(name)} {t}", {"expr": f"getattr(StoneCounts({s}, {c}), {name!r})", **j})
        elif k == "evolve":
            s, c, v = rng.randint(-3, 30), rng.randint(-3, 3), rng.randint(-3, 30)
            name = rng.choice(["stones", "caps", "stone", "capstones", "size"])
            t, j = _ob(lambda: attrs.evolve(tak.StoneCounts(s, c), **{name: v}),
                       lambda r: f"(mkSC {cz(r.stones)} {cz(r.caps)})")
            add(k, f"CEvolve {cz(s)} {cz(c)} {_cstr(name)} {cz(v)} {t}",
                {"expr": f"attrs.evolve(StoneCounts({s}, {c}), **{{{name!r}: {v}}})", **j})
        elif k == "enum":
            which = rng.randint(0, 2)
            cls = [tak.Color, tak.Kind, tak.MoveType][which]
            i = rng.randint(-2, 9)
            t, j = _ob(lambda: cls(i).value, cz)
            add(k, f"CEnum {which} {cz(i)} {t}", {"expr": f"{cls.__name__}({i})", **j})
        elif k == "dir":
            mt = rng.choice(MT)
            t, j = _ob(lambda: tak.moves.DIRECTIONS[mt], lambda d: f"({cz(d[0])}, {cz(d[1])})")
            add(k, f"CDir {takio.MT[mt.value]} {t}", {"expr": f"DIRECTIONS[{mt.name}]", **j})
        elif k == "cat":
            a, b = rl(4), rl(4)
            add(k, f"CCat {czlist(a)} {czlist(b)} {czlist(a + b)}", {"expr": f"{a} + {b}"})
        elif k == "pop":
            l = rl(4)

            def f():
                l2 = list(l)
                x = l2.pop()
                return (x, l2)
            t, j = _ob(f, lambda r: f"({cz(r[0])}, {czlist(r[1])})")
            add(k, f"CPop {czlist(l)} {t}", {"expr": f"l = {l}; l.pop()", **j})
        else:
            ll = [rl(2) for _ in range(rng.randint(0, 4))]
            add(k, f"CAnyAll {clist([czlist(x) for x in ll])} {core.cbool(all(ll))} "
                   f"{core.cbool(any(len(x) == 0 for x in ll))}", {"expr": f"all({ll}), any(len(x) == 0 for x in {ll})"})
    return cs, dist, len(distinct)


# --------------------------------------------------------------------------------------------------------------------
# (b) the generated functions against the implementation
# --------------------------------------------------------------------------------------------------------------------
GEN_HEADER = """From Coq Require Import ZArith String List Bool.
From TV Require Import model.Tak model.Road model.PySem model.Lit.
From TV Require gen.GameGen.
Import ListNotations.
Open Scope Z_scope.
Inductive obs := ObOk (q : position) | ObIllegal | ObCrash (e : exn) | ObOther.
Definition exn_eqb (a b : exn) : bool :=
  match a, b with
  | IndexError, IndexError | TypeError, TypeError | ValueError, ValueError | KeyError, KeyError
  | AssertionError, AssertionError | AttributeError, AttributeError | ZeroDivisionError, ZeroDivisionError => true
  | _, _ => false
  end.
Definition same (r : res position) (o : obs) : bool :=
  match r, o with
  | Ok q, ObOk q' => position_eqb q q'
  | Illegal, ObIllegal => true
  | Crash e, ObCrash e' => exn_eqb e e'
  | _, _ => false
  end.
Definition wr_eqb (a b : option color * option reason) : bool :=
  opt_eqb color_eqb (fst a) (fst b) && opt_eqb reason_eqb (snd a) (snd b).
Definition okb {A} (eqb : A -> A -> bool) (r : res A) (v : A) : bool :=
  match r with Ok w => eqb w v | _ => false end.
(* position, (move, observed outcome) list, observed all_moves, winner, flat_counts, has_road *)
Definition gcase := (position * list (mv * obs) * list mv * (option color * option reason) * (Z * Z) * option color)%type.
Definition chk1 (p : position) (mo : mv * obs) : bool := same (GameGen.move p (fst mo)) (snd mo).
Definition gchk (c : gcase) : bool :=
  let '(p, l, am, w, fc, hr) := c in
  forallb (chk1 p) l && okb (list_eqb mv_eqb) (GameGen.all_moves p) am && okb wr_eqb (GameGen.winner p) w &&
  okb (fun a b => (fst a =? fst b) && (snd a =? snd b)) (GameGen.flat_counts p) fc &&
  okb (opt_eqb color_eqb) (GameGen.has_road p) hr.
Definition view (c : gcase) :=
  let '(p, l, am, w, fc, hr) := c in
  (bad_indices (chk1 p) l, map (fun mo => GameGen.move p (fst mo)) (filter (fun mo => negb (chk1 p mo)) l),
   okb (list_eqb mv_eqb) (GameGen.all_moves p) am, GameGen.winner p, GameGen.flat_counts p, GameGen.has_road p).
"""


def _obs_term(kind, q):
    if kind == "ok":
        return f"(ObOk {takio.c_pos(q)})"
    if kind == "illegal":
        return "ObIllegal"
    name = str(q).split(":")[0]
    return f"(ObCrash {name})" if name in EXN else "ObOther"


def _c_reason(r):
    return "None" if r is None else ("(Some Road)" if r.name == "ROAD" else "(Some Flats)")


def gen_pairs(run, tak):
    """a few hundred (position, move) pairs: positions of c01's generators (thinned), per position a sample of the
    moves c01 would try (table + ill-formed stream) plus slides WITHOUT a tuple, which C01 leaves out"""
    rng = run.rng
    positions = c01.gen_positions(run, tak)
    rng.shuffle(positions)
    positions = positions[:24 if run.quick else 80]
    corpus = {}
    for p, m in c01._corpus(tak):
        corpus.setdefault(id(p), (p, []))[1].append(m)
    for p, _ in corpus.values():
        positions.append(("corpus", p))
    seen, out = set(), []
    slides_t = [t for t in tak.MoveType if t.is_slide()]
    for label, p in positions:
        k = _wpa.canon_pos(p)
        if k in seen:
            continue
        seen.add(k)
        ms = c01.gen_moves(run, tak, p)
        rng.shuffle(ms)
        ms = ms[:18 if run.quick else 40]
        ms += corpus.get(id(p), (p, []))[1]
        n = p.size
        for _ in range(2):
            ms.append(tak.Move(rng.randint(-1, n), rng.randint(-1, n), rng.choice(slides_t), None))
        # accepted moves are rare in the streams above: add generated moves the implementation accepts, slides first
        cand = p.all_moves()
        rng.shuffle(cand)
        cand.sort(key=lambda m: 0 if m.type.is_slide() else 1)
        acc = []
        for m in cand[:150]:
            if _wpa.observe(tak, p, m)[0] == "ok":
                acc.append(m)
            if len(acc) >= (8 if run.quick else 20):
                break
        ms += acc
        out.append((label, p, ms))
    return out


def gen_cases(run, tak, triples, name="gen"):
    cs = core.Cases(ID, name, GEN_HEADER, "gcase", "gchk", show="view", shard=12)
    stats = {"pairs": 0, "distinct": set(), "nontrivial": set(), "dist": {}, "samples": []}
    for label, p, ms in triples:
        items, mj = [], []
        for m in ms:
            kind, q = _wpa.observe(tak, p, m)
            items.append(f"({takio.c_move(m)}, {_obs_term(kind, q)})")
            h = _wpa.pair_hash(p, m)
            stats["pairs"] += 1
            stats["distinct"].add(h)
            if m.type.is_slide() and m.slides is None:
                cat, nontriv = "slide-without-tuple:" + kind, True
            else:
                cat, nontriv = c01._classify(p, m, kind, q)
            if nontriv:
                stats["nontrivial"].add(h)
            stats["dist"][cat] = stats["dist"].get(cat, 0) + 1
            mj.append({"move": takio.j_move(m), "impl": kind if kind != "crash" else q,
                       "impl_successor": takio.j_pos(q) if kind == "ok" else None})
            if nontriv and len(stats["samples"]) < 4 and cat not in [s["category"] for s in stats["samples"]]:
                stats["samples"].append({"category": cat, "position": takio.j_pos(p)["tps"], "size": p.size,
                                         "ply": p.ply, "move": takio.j_move(m), "impl": kind})
        am = p.all_moves()
        w = p.winner()
        fc = p.flat_counts()
        term = (f"({takio.c_pos(p)}, {clist(items)}, {clist([takio.c_move(m) for m in am])}, "
                f"({takio.c_color(w[0])}, {_c_reason(w[1])}), ({cz(fc[0])}, {cz(fc[1])}), {takio.c_color(p.has_road())})")
        cs.add(term, {"label": label, "position": takio.j_pos(p), "moves": mj,
                      "impl_all_moves": len(am), "impl_winner": [str(w[0]), str(w[1])], "impl_flat_counts": list(fc)})
    return cs, stats


TABLE_HEADER = GEN_HEADER


def table_cases(tak):
    cs = core.Cases(ID, "table", TABLE_HEADER, "Z * list mv",
                    "fun c => okb (list_eqb mv_eqb) (GameGen.all_moves_for_size (fst c)) (snd c)", shard=2)
    for n in (0, 1, 2, 3, 4, 5, 6):
        t = tak.moves.all_moves_for_size(n)
        cs.add(f"({n}, {clist([takio.c_move(m) for m in t])})", {"size": n, "entries": len(t)})
    return cs


def _report(run, cs, failing, label):
    for meta in failing[:6]:
        term = cs.terms[cs.metas.index(meta)]
        view = cs.model_view(term)
        key = f"{label}:{_wpa.short_hash([meta.get('position'), meta.get('expr'), meta.get('size')])}"
        idx = None
        m = re.search(r"\(\[(.*?)\],", view or "", re.S)
        if m:
            idx = [int(x) for x in re.findall(r"-?\d+", m.group(1))]
        entry = None
        if idx and "moves" in meta and 0 <= idx[0] < len(meta["moves"]):
            entry = meta["moves"][idx[0]]
        rp = {"clause": "the functions translated from the source, evaluated in Coq, reproduce what the implementation "
                        "does (translator / PySem.v disagree with CPython)",
              "generated_functions_view": view, "generator": meta.get("label")}
        if entry is not None:
            rp["input"] = {"position": meta["position"], "move": entry["move"]}
            rp["impl"] = entry["impl"]
            rp["impl_successor"] = entry["impl_successor"]
        else:
            rp["input"] = {k: v for k, v in meta.items() if k != "moves"}
        run.violation(key, rp)


def correspondence(run):
    core.setup_impl()
    import tak
    err = _STATE.get("err", "unset")
    if err == "unset":      # called without the driver's pregen (e.g. --no-build): regenerate
        err = pregen(run)
    # (a) PySem.v itself
    n = 3000 if run.quick else 20000
    cs, dist, ndist = sem_cases(run, tak, n, with_gen=not err)
    failing, shard_fail, nshards = cs.run()
    run.oblige(f"correspondence:pysem ({nshards} shards)", not shard_fail, str(shard_fail)[:1500])
    run.count(len(cs), ndist, "PySem.v vs CPython: random expressions l[i], l[i] = v, l[a:b] (a, b absent / negative / "
              "past the end), (a, b)[i], range, sum, len / bool, a % b, iteration of None, getattr / attrs.evolve of "
              "StoneCounts with right and wrong names, Enum(value), DIRECTIONS[t], +, all / any; lists over [-9, 9] of "
              "length 0..7, indices and bounds in [-len-3, len+2] and [-12, 12]; distinct = distinct case terms",
              [m for m in cs.metas[:3]], dist, label="pysem")
    for meta in failing[:8]:
        run.violation(f"pysem:{_wpa.short_hash(meta)}", {
            "clause": "model/PySem.v (the trusted Python semantics) disagrees with CPython", "input": meta})
    if err:
        run.extra["differential_skipped"] = "the translation failed; gen/GameGen.v is a stub"
        return
    # (b) generated functions vs the implementation
    triples = gen_pairs(run, tak)
    cs, st = gen_cases(run, tak, triples)
    failing, shard_fail, nshards = cs.run()
    run.oblige(f"correspondence:generated-vs-implementation ({nshards} shards)", not shard_fail, str(shard_fail)[:1500])
    run.count(st["pairs"], len(st["nontrivial"]),
              "GameGen.move (the translated source, evaluated in Coq) vs Position.move on (position, move) pairs: c01's "
              "position generators thinned, per position a sample of table moves + the ill-formed stream + slides "
              "without a tuple (TypeError expected and modelled); plus GameGen.all_moves / winner / flat_counts per "
              "position (lists compared in order); non-trivial as in C01 or a slide without a tuple",
              st["samples"], st["dist"], label="generated")
    run.extra["positions"] = len(triples)
    _report(run, cs, failing, "generated")
    ct = table_cases(tak)
    failing, shard_fail, nshards = ct.run()
    run.oblige(f"correspondence:all_moves_for_size 0..6 ({nshards} shards)", not shard_fail, str(shard_fail)[:1500])
    run.count(len(ct), len(ct), "GameGen.all_moves_for_size n = the implementation's table, n = 0..6, in order",
              [m for m in ct.metas[3:5]], label="table")
    for meta in failing:
        run.violation(f"table:{meta['size']}", {"clause": "translated all_moves_for_size differs from the implementation's",
                                                "input": meta})


def search(run, broken):
    """a proof broke (the translated source no longer equals the hand model, or the translation failed) and the
    generated functions still agree with the implementation: the SOURCE changed.  Look for a concrete input on which
    the implementation breaks the property the theorems transport (C01: accepted iff the rules allow it, with the
    prescribed successor, no other exception), using the executable rulebook oracle of _wpa (independent of
    game.py and of the Coq model)."""
    core.setup_impl()
    import tak
    pools = [("corpus", p, [m]) for p, m in c01._corpus(tak)]
    pools += [(label, p, None) for label, p in c01.gen_positions(run, tak)]
    for label, p, ms in pools:
        for m in (ms if ms is not None else c01.gen_moves(run, tak, p)):
            kind, q = _wpa.observe(tak, p, m)
            exp = _wpa.rules_expected(p, m)
            got = _wpa.canon_pos(q) if kind == "ok" else None
            if kind == "crash" or got != exp:
                run.violation(f"oracle:{_wpa.pair_hash(p, m)}", {
                    "clause": "accepted iff the rules allow it, with the prescribed successor; no other exception "
                              "(executable rulebook oracle; found after the equivalence proof of the translated source broke)",
                    "input": {"position": takio.j_pos(p), "move": takio.j_move(m)},
                    "impl": kind if kind != "crash" else q,
                    "impl_successor": takio.j_pos(q) if kind == "ok" else None,
                    "rules_oracle_accepts": exp is not None, "generator": label,
                    "broken_obligations": [o[0] for o in broken]})
                return True
    # the generator and the adjudication: translated theorems also cover all_moves / winner
    for label, p in c01.gen_positions(run, tak)[:200]:
        listed = {_wpa.canon_move(m) for m in p.all_moves()}
        for m in tak.moves.all_moves_for_size(p.size):
            if _wpa.rules_expected(p, m) is not None and _wpa.canon_move(m) not in listed:
                run.violation(f"oracle-gen:{_wpa.pair_hash(p, m)}", {
                    "clause": "every legal move is generated", "input": {"position": takio.j_pos(p), "move": takio.j_move(m)},
                    "generator": label, "broken_obligations": [o[0] for o in broken]})
                return True
    # has_road / winner are translated as well: C02's component-labelling oracle of the road / outcome statement
    import importlib
    return bool(importlib.import_module("harness.props.c02").search(run, broken))


def replay(run, rp):
    core.setup_impl()
    import tak
    inp = rp.get("input") or {}
    if "position" not in inp or "move" not in inp:
        return {"violates": False, "note": "replay file carries no (position, move) input", "stored": inp or rp.get("broken_obligations")}
    p, m = takio.mk_pos(inp["position"]), takio.mk_move(inp["move"])
    kind, q = _wpa.observe(tak, p, m)
    out = {"impl": kind if kind != "crash" else q, "impl_successor": takio.j_pos(q) if kind == "ok" else None}
    viol = False
    if not (m.type.is_slide() and m.slides is None):
        exp = _wpa.rules_expected(p, m)
        got = _wpa.canon_pos(q) if kind == "ok" else None
        out["rules_oracle_accepts"] = exp is not None
        out["impl_agrees_with_rules_oracle"] = kind != "crash" and got == exp
        viol = not out["impl_agrees_with_rules_oracle"]
    err = c01gen.pregen(run)
    if not err:
        with core.BuildLock():
            core.coq_make(MODEL_TARGETS)
        cs, _ = gen_cases(run, tak, [("replay", p, [m])], name="replay")
        failing, shard_fail, _ = cs.run()
        out["generated_functions_agree_with_impl"] = not (failing or shard_fail)
        if failing:
            out["generated_functions_view"] = cs.model_view(cs.terms[0])
        viol = viol or bool(failing or shard_fail)
    else:
        out["translation"] = err
    out["violates"] = bool(viol)
    return out
