"""T15 - the model of tak/symmetry/symmetry.py is regenerated from the source (harness/sym2coq.py -> gen/SymmetryGen.v)
and proved equal to the hand-written model (proofs/SymmetryGenEq.v); C15's main theorems are transported
(proofs/SymmetryGenCor.v, props/T15.v).

Correspondence (what is still trusted is validated on every run):
(a) model/NumpyLite.v against the real numpy: every operation on random small integer arrays and shapes (value or
    exception class), compared inside Coq;
(b) the generated functions against the implementation: SYMMETRIES, transform_position, transform_move, symmetries
    evaluated in Coq on (matrix, position, move) triples, including boards of the wrong length (IndexError expected
    and modelled)."""
from .. import core, takio
from ..core import cz, czlist, clist
from . import c01gen, c15gen

ID = "T15"
THEOREMS = ["T15_gen_symmetries_const", "T15_gen_transform_position_eq", "T15_gen_transform_position_never_crashes",
            "T15_gen_transform_move_eq", "T15_gen_symmetries_eq", "T15_gen_move_commutes", "T15_gen_winner_invariant",
            "T15_gen_symmetries_spec", "T15_example", "T15_keyerror_modelled"]
MODEL_TARGETS = ["model/Tak.vo", "model/Road.vo", "model/PySem.vo", "model/NumpyLite.vo", "model/Symmetry.vo",
                 "model/Harness.vo", "model/Lit.vo", "gen/GameGen.vo", "gen/SymmetryGen.vo"]
TRUSTED_BASE = [
    "harness/sym2coq.py (the translator: fail-closed, ast only) and model/PySem.v + model/NumpyLite.v (the Python / numpy "
    "semantics of the constructs symmetry.py uses; validated against the interpreter and numpy on every run)",
    "numpy arrays of symmetry.py hold only integers (floats with integer values < 2^53): float arithmetic on them is exact, "
    ".astype(int) is the identity; numpy integers behave as Python ints as dict keys and in int()",
    "attrs.evolve(pos, board=sqs) and the attrs-generated Position.__eq__ (PySem.evolve_position, Tak.position_eqb)",
    "the load-time `assert all(abs(np.linalg.det(m)) == 1 ...)` is pinned by the translator and not modelled",
]
ASSUMPTIONS = ["theorems about the generated transform_position / symmetries carry 1 <= size p: NumpyLite takes no position on "
               "arrays with an empty axis"]
_STATE = {}

SEM_HEADER = """From Coq Require Import ZArith String List Bool.
From TV Require Import model.Tak model.PySem model.NumpyLite model.Lit model.Symmetry.
From TV Require gen.Consts gen.GameGen gen.SymmetryGen.
Import ListNotations.
Open Scope Z_scope.
Definition zl_eqb := list_eqb Z.eqb.
Definition zll_eqb := list_eqb zl_eqb.
Definition zlll_eqb := list_eqb zll_eqb.
Inductive ob (A : Type) := OV (v : A) | OE (e : exn).
Arguments OV {A} v. Arguments OE {A} e.
(* strict = false: the case has an empty axis; NumpyLite may answer `Crash Unmodelled` (no position) *)
Definition agree {A} (strict : bool) (eqb : A -> A -> bool) (r : res A) (o : ob A) : bool :=
  match r, o with
  | Ok v, OV w => eqb v w
  | Crash Unmodelled, _ => negb strict
  | Crash e, OE e' => exn_eqb e e'
  | _, _ => false
  end.
Definition t3_eqb (a b : Z * Z * Z) : bool :=
  (fst (fst a) =? fst (fst b)) && (snd (fst a) =? snd (fst b)) && (snd a =? snd b).
Inductive ncase :=
| NArray (s : bool) (rows : list (list Z)) (o : ob arr2)
| NIdentity (s : bool) (k : Z) (o : ob arr2)
| NMatmul (s : bool) (a b : arr2) (o : ob arr2)
| NMatvec (s : bool) (a : arr2) (v : arr1) (o : ob arr1)
| NTranspose (s : bool) (a : arr2) (o : ob arr2)
| NStack (s : bool) (a b c : arr1) (o : ob arr2)
| NRepeat (a : arr1) (k : Z) (o : ob arr1)
| NTile (a : arr1) (k : Z) (o : ob arr1)
| NArange (k : Z) (r : arr1)
| NOnesTimes (c k : Z) (o : ob arr1)
| NAstype (l r : arr1)
| NReshape (s : bool) (a : arr2) (d0 d1 d2 : Z) (o : ob arr3)
| NGet (a : arr3) (i j : Z) (o : ob arr1)
| NSnoc (a b c : Z) (r : arr1)
| NUnpack3 (l : arr1) (o : ob (Z * Z * Z)).
Definition nchk (c : ncase) : bool :=
  match c with
  | NArray s rows o => agree s zll_eqb (np_array rows) o
  | NIdentity s k o => agree s zll_eqb (np_identity k) o
  | NMatmul s a b o => agree s zll_eqb (np_matmul a b) o
  | NMatvec s a v o => agree s zl_eqb (np_matvec a v) o
  | NTranspose s a o => agree s zll_eqb (np_transpose a) o
  | NStack s a b c o => agree s zll_eqb (np_stack_last3 a b c) o
  | NRepeat a k o => agree true zl_eqb (np_repeat a k) o
  | NTile a k o => agree true zl_eqb (np_tile a k) o
  | NArange k r => zl_eqb (np_arange k) r
  | NOnesTimes c k o => agree true zl_eqb (t <- np_ones k ;; ret (np_scale c t)) o
  | NAstype l r => zl_eqb (np_astype_int l) r
  | NReshape s a d0 d1 d2 o => agree s zlll_eqb (np_reshape3 a d0 d1 d2) o
  | NGet a i j o => agree true zl_eqb (np_getitem2 a i j) o
  | NSnoc a b c r => zl_eqb (py_tuple2_snoc (a, b) c) r
  | NUnpack3 l o => agree true t3_eqb (py_unpack3 l) o
  end.
Definition var_eqb (a b : list (mat * position)) : bool := variants_eqb a b.
Inductive gcase :=
| GSyms (ms : list mat)
| GTp (k : Z) (p : position) (o : ob position)
| GTm (k : Z) (m : mv) (n : Z) (o : ob mv)
| GSy (p : position) (o : ob (list (mat * position))).
Definition gchk (c : gcase) : bool :=
  match c with
  | GSyms ms => match SymmetryGen.SYMMETRIES with Ok l => list_eqb mat_eqb l ms | _ => false end
  | GTp k p o => agree true position_eqb (SymmetryGen.transform_position (nth (Z.to_nat k) Consts.symmetries []) p) o
  | GTm k m n o => agree true mv_eqb (SymmetryGen.transform_move (nth (Z.to_nat k) Consts.symmetries []) m n) o
  | GSy p o => agree true var_eqb (SymmetryGen.symmetries p) o
  end.
"""


def pregen(run):
    """regenerate gen/GameGen.v (needed by SymmetryGen.v) and gen/SymmetryGen.v from the tree under test"""
    err0 = c01gen.pregen(run)
    err = c15gen.pregen(run)
    _STATE["err"] = err or err0
    return _STATE["err"]


# --------------------------------------------------------------------------------------------------------------------
# (a) NumpyLite.v against numpy
# --------------------------------------------------------------------------------------------------------------------
EXN = {"ValueError": "ValueError", "IndexError": "IndexError", "TypeError": "TypeError", "KeyError": "KeyError"}


def _ob(f, emit):
    try:
        v = f()
    except Exception as e:  # noqa
        n = type(e).__name__
        if n not in EXN:
            n = {"AxisError": "ValueError"}.get(n, n)
        if n not in EXN:
            raise
        return f"(OE {EXN[n]})", n
    return f"(OV {emit(v)})", "value"


def _ints(a):
    """numpy array -> nested lists of Python ints (integer-valued floats become ints; anything else is an error)"""
    import numpy as np
    a = np.asarray(a)
    if a.dtype.kind == "f":
        if not np.all(a == np.floor(a)):
            raise AssertionError("non-integer float in an array of symmetry.py's kind")
        a = a.astype(np.int64)
    return a.tolist()


def _c1(l):
    return czlist(l)


def _c2(ll):
    return clist([czlist(r) for r in ll])


def _c3(lll):
    return clist([_c2(p) for p in lll])


def sem_cases(run, n):
    import numpy as np
    rng = run.rng
    cs = core.Cases(ID, "np", SEM_HEADER, "ncase", "nchk", shard=250)
    dist = {}

    def arr(r, c):
        return [[rng.randint(-4, 4) for _ in range(c)] for _ in range(r)]

    def vec(k):
        return [rng.randint(-5, 5) for _ in range(k)]

    def dim(zero_ok=False):
        return rng.choice([0, 1, 1, 2, 3, 3, 4] if zero_ok else [1, 1, 2, 3, 3, 4])

    def add(kind, term, outcome, nondeg=True):
        cs.add(term, {"kind": kind, "term": term[:300], "outcome": outcome})
        dist[kind] = dist.get(kind, 0) + 1
        if not nondeg:
            dist["empty-axis (no position taken)"] = dist.get("empty-axis (no position taken)", 0) + 1

    kinds = ["array", "identity", "matmul", "matmul", "matmul", "matvec", "matvec", "transpose", "transpose", "stack", "stack",
             "repeat", "tile", "arange", "ones", "astype", "reshape", "reshape", "get", "get", "snoc", "unpack"]
    for i in range(n):
        k = kinds[i % len(kinds)]
        zero = rng.random() < 0.06
        if k == "array":
            r, c = dim(zero), dim(zero)
            a = arr(r, c)
            o, oc = _ob(lambda: _ints(np.array(a, dtype=int).reshape(r, c)), _c2)
            add(k, f"NArray {core.cbool(r > 0 and c > 0)} {_c2(a)} {o}", oc, r > 0 and c > 0)
        elif k == "identity":
            d = rng.choice([-1, 0, 1, 2, 3, 4])
            o, oc = _ob(lambda: _ints(np.identity(d, dtype=int)), _c2)
            add(k, f"NIdentity {core.cbool(d != 0)} {cz(d)} {o}", oc, d != 0)
        elif k == "matmul":
            m, kk, nn = dim(zero), dim(zero), dim(zero)
            k2 = kk if rng.random() < 0.75 else dim()
            a, b = arr(m, kk), arr(k2, nn)
            nondeg = min(m, kk, k2, nn) > 0
            o, oc = _ob(lambda: _ints(np.matmul(np.array(a, dtype=int).reshape(m, kk), np.array(b, dtype=float).reshape(k2, nn))), _c2)
            add(k, f"NMatmul {core.cbool(nondeg)} {_c2(a)} {_c2(b)} {o}", oc, nondeg)
        elif k == "matvec":
            m, kk = dim(zero), dim(zero)
            k2 = kk if rng.random() < 0.75 else dim()
            a, v = arr(m, kk), vec(k2)
            nondeg = min(m, kk) > 0
            src = rng.choice(["list", "tuple", "array"])
            vv = {"list": v, "tuple": tuple(v), "array": np.array(v)}[src]
            o, oc = _ob(lambda: _ints(np.matmul(np.array(a, dtype=int).reshape(m, kk), vv)), _c1)
            add(k, f"NMatvec {core.cbool(nondeg)} {_c2(a)} {_c1(v)} {o}", oc, nondeg)
        elif k == "transpose":
            r, c = dim(zero), dim(zero)
            a = arr(r, c)
            o, oc = _ob(lambda: _ints(np.transpose(np.array(a, dtype=int).reshape(r, c))), _c2)
            add(k, f"NTranspose {core.cbool(r > 0 and c > 0)} {_c2(a)} {o}", oc, r > 0 and c > 0)
        elif k == "stack":
            la = dim(zero)
            lb = la if rng.random() < 0.8 else dim()
            lc = la if rng.random() < 0.8 else dim()
            a, b, c = vec(la), vec(lb), vec(lc)
            o, oc = _ob(lambda: _ints(np.stack([np.array(a, dtype=int), np.array(b, dtype=int), np.array(c, dtype=float)], axis=-1)), _c2)
            add(k, f"NStack {core.cbool(la > 0 or not (la == lb == lc))} {_c1(a)} {_c1(b)} {_c1(c)} {o}", oc, la > 0)
        elif k in ("repeat", "tile"):
            a, r = vec(dim(True)), rng.choice([-1, 0, 1, 2, 3])
            f = np.repeat if k == "repeat" else np.tile
            o, oc = _ob(lambda: _ints(f(np.array(a, dtype=int), r)), _c1)
            add(k, f"N{k.capitalize()} {_c1(a)} {cz(r)} {o}", oc)
        elif k == "arange":
            d = rng.randint(-2, 6)
            add(k, f"NArange {cz(d)} {_c1(_ints(np.arange(d)))}", "value")
        elif k == "ones":
            c, d = rng.randint(-3, 8), rng.randint(-1, 6)
            o, oc = _ob(lambda: _ints(c * np.ones(d)), _c1)
            add(k, f"NOnesTimes {cz(c)} {cz(d)} {o}", oc)
        elif k == "astype":
            vals = [float(rng.choice([-1, 1]) * rng.choice([0, 1, 2, 7, 63, 2 ** 31, 2 ** 40 + 5, 2 ** 52 - 1])) for _ in range(dim())]
            out = np.array(vals).astype(int).tolist()
            assert all(float(x).is_integer() for x in vals)
            add(k, f"NAstype {_c1([int(x) for x in vals])} {_c1(out)}", "value")
        elif k == "reshape":
            d0, d1, d2 = dim(), dim(), dim()
            r, c = (d0 * d1, d2) if rng.random() < 0.6 else (dim(), dim())
            a = arr(r, c)
            o, oc = _ob(lambda: _ints(np.array(a, dtype=int).reshape(r, c).reshape((d0, d1, d2))), _c3)
            add(k, f"NReshape true {_c2(a)} {cz(d0)} {cz(d1)} {cz(d2)} {o}", oc)
        elif k == "get":
            d0, d1, d2 = dim(), dim(), dim()
            a = [[vec(d2) for _ in range(d1)] for _ in range(d0)]
            i, j = rng.randint(-d0 - 2, d0 + 1), rng.randint(-d1 - 2, d1 + 1)
            o, oc = _ob(lambda: _ints(np.array(a, dtype=int).reshape(d0, d1, d2)[i, j]), _c1)
            add(k, f"NGet {_c3(a)} {cz(i)} {cz(j)} {o}", oc)
        elif k == "snoc":
            a, b, c = rng.randint(-3, 3), rng.randint(-3, 3), rng.randint(-2, 2)
            add(k, f"NSnoc {cz(a)} {cz(b)} {cz(c)} {_c1(list((a, b) + (c,)))}", "value")
        else:
            l = vec(rng.choice([0, 1, 2, 3, 3, 3, 4]))

            def unpack():
                x, y, z = np.array(l, dtype=int)
                return (int(x), int(y), int(z))
            o, oc = _ob(unpack, lambda t: f"({cz(t[0])}, {cz(t[1])}, {cz(t[2])})")
            add(k, f"NUnpack3 {_c1(l)} {o}", oc)
    return cs, dist


# --------------------------------------------------------------------------------------------------------------------
# (b) the generated functions against the implementation
# --------------------------------------------------------------------------------------------------------------------
def _c_variants(vs):
    from . import c15
    return clist(["(" + c15.c_mat(s) + ", " + takio.c_pos(q) + ")" for s, q in vs])


def gen_cases(run):
    import tak
    from tak.symmetry import symmetry as S
    from . import c15
    rng = run.rng
    cs = core.Cases(ID, "gen", SEM_HEADER, "gcase", "gchk", shard=10)
    dist = {"transform_position": 0, "transform_move": 0, "symmetries": 0, "wrong-length boards": 0, "KeyError": 0, "IndexError": 0}
    cs.add(f"GSyms {clist([c15.c_mat(m) for m in S.SYMMETRIES])}", {"kind": "SYMMETRIES"})
    plist = c15.positions(run, 70 if run.quick else 400)
    plist = [lp for lp in plist if lp[1].size <= (6 if run.quick else 8)]
    # boards of the wrong length: the implementation raises IndexError (short) or carries the extra entries (long)
    for n in (3, 4, 5):
        p = c15._constructed(rng, n, "trivial", 0.5, False)
        plist.append((f"short{n}", tak.Position(size=n, stones=p.stones, ply=p.ply, board=p.board[:-1])))
        plist.append((f"long{n}", tak.Position(size=n, stones=p.stones, ply=p.ply, board=p.board + [[], []])))
    for label, p in plist:
        ks = list(range(8)) if rng.random() < 0.25 else rng.sample(range(8), 2)
        for k in ks:
            o, oc = _ob(lambda: S.transform_position(S.SYMMETRIES[k], p), takio.c_pos)
            cs.add(f"GTp {k} {takio.c_pos(p)} {o}", {"kind": "transform_position", "label": label, "sym": k,
                                                     "pos": takio.j_pos(p), "outcome": oc})
            dist["transform_position"] += 1
            dist["IndexError"] += oc == "IndexError"
        if label.startswith(("short", "long")):
            dist["wrong-length boards"] += 1
        o, oc = _ob(lambda: S.symmetries(p), _c_variants)
        cs.add(f"GSy {takio.c_pos(p)} {o}", {"kind": "symmetries", "label": label, "pos": takio.j_pos(p), "outcome": oc})
        dist["symmetries"] += 1
    n_moves = 400 if run.quick else 4000
    for _ in range(n_moves):
        n = rng.randint(3, 8)
        k = rng.randrange(8)
        m = rng.choice(tak.moves.all_moves_for_size(n)) if rng.random() < 0.6 else c15.illformed_moves(rng, n, 1, True)[0]
        o, oc = _ob(lambda: S.transform_move(S.SYMMETRIES[k], m, n), takio.c_move)
        cs.add(f"GTm {k} {takio.c_move(m)} {cz(n)} {o}", {"kind": "transform_move", "sym": k, "size": n,
                                                           "move": takio.j_move(m), "outcome": oc})
        dist["transform_move"] += 1
        dist["KeyError"] += oc == "KeyError"
    return cs, dist


def correspondence(run):
    core.setup_impl()
    # (a)
    n = 3000 if run.quick else 20000
    cs, dist = sem_cases(run, n)
    failing, shard_fail, nshards = cs.run()
    run.oblige(f"correspondence:NumpyLite.v agrees with numpy ({nshards} shards)", not shard_fail and not failing,
               str(shard_fail)[:1200] + str(failing[:3])[:1500])
    run.count(len(cs), len(cs) - dist.get("empty-axis (no position taken)", 0),
              "numpy operations of NumpyLite.v on random integer arrays (dims 0-4, entries in [-5, 5]; mismatching shapes, "
              "negative counts, out-of-range and negative indices): value or exception class compared inside Coq; "
              "non-trivial = cases without an empty axis (there NumpyLite takes no position)",
              [m for m in cs.metas[:3]], dist, label="numpy-semantics")
    for meta in failing[:5]:
        run.violation("numpylite-" + meta["kind"], {"clause": "model/NumpyLite.v disagrees with numpy (the trusted semantics is wrong)",
                                                    "input": meta}, found_input=False)
    # (b)
    if _STATE.get("err"):
        run.oblige("correspondence:generated functions (skipped: translation failed)", False, str(_STATE["err"])[:500])
        return
    cg, gdist = gen_cases(run)
    failing2, shard_fail2, nshards2 = cg.run()
    run.oblige(f"correspondence:gen/SymmetryGen.v agrees with the implementation ({nshards2} shards)",
               not shard_fail2 and not failing2, str(shard_fail2)[:1200] + str(failing2[:2])[:1500])
    run.count(len(cg), gdist["transform_position"] + gdist["symmetries"],
              "SYMMETRIES, transform_position (matrix x position), symmetries(position), transform_move (matrix x move x size) "
              "of the generated file evaluated in Coq against the implementation's value or exception class, incl. boards of "
              "the wrong length; non-trivial = position cases",
              [m for m in cg.metas[1:3]], gdist, label="generated-vs-implementation")
    for meta in failing2[:5]:
        run.violation(f"gen-{meta['kind']}-{meta.get('label', meta.get('size'))}-{meta.get('sym', '')}",
                      {"clause": "the translated function disagrees with the implementation (translator or semantics library wrong)",
                       "input": meta}, found_input=False)


def search(run, broken):
    """a proof or the translation broke while (a) and (b) agree: the SOURCE changed.  C15's oracle (the property's own
    statement evaluated on the implementation) looks for a concrete failing input."""
    from . import c15
    return c15.search(run, broken)


def replay(run, rp):
    from . import c15
    return c15.replay(run, rp)
