"""T06B - encoding._encode_batch / encode_batch are REGENERATED FROM THE SOURCE (gen/EncodeBatchGen.v, written by
harness/torch2coq.py against model/TorchLite.v / model/PySem.v; the per-position `encode` is T06's gen/EncodingGen.v)
and proved equal to the hand-written model (model/Encoding.v encode_batch_with), for every list of positions and
every content of the uninitialised `lens` buffer (props/T06b.v, proofs/EncodeBatchGenEq.v).

Correspondence:
(a) the TorchLite.v operations added for this package against the real torch (zeros((a, b), dtype), zeros_like(t, dtype),
    t.size(k), tensor(l, dtype), lens[i] = n, iteration of an int tensor, t[i, :k] = v, t[:, :k] = u, t[i, :k] = 1, the
    shape of torch.empty); the rest of TorchLite.v is validated by T12;
(b) the GENERATED encode_batch, evaluated inside Coq, against the implementation on random batches (mixed sizes,
    shuffled, repeated members, longer positions late in the batch, some with a member outside the vocabulary).
search: the statement of the batch clause on the implementation (c06's oracle_batch) over batches that widen late."""
import hashlib
import json

from .. import core, takio
from ..core import cbool, clist, cz, czlist
from . import c06gen, c06bgen
from . import t12


class _Lazy:
    def __getattr__(self, name):
        import importlib
        return getattr(importlib.import_module("harness.props.c06"), name)


c06 = _Lazy()

ID = "T06B"
THEOREMS = ["T06B_gen_encode_batch_eq", "T06B_gen_batch_rows", "T06B_gen_batch_raises", "T06B_gen_batch_outcomes",
            "T06B_gen_uninit_irrelevant"]
MODEL_TARGETS = ["model/Tak.vo", "model/PySem.vo", "model/TorchLite.vo", "model/Encoding.vo", "model/Harness.vo",
                 "model/Lit.vo", "gen/GameGen.vo", "gen/EncodingGen.vo", "gen/EncodeBatchGen.vo"]
TRUSTED_BASE = [
    "model/TorchLite.v (here: zeros((a, b), dtype), zeros_like(t, dtype), size(k), tensor(l, dtype) with the byte range "
    "of uint8, t[i] = n, t[i, :k] = v, t[:, :k] = u, t[i, :k] = 1 with Python's slice clamping, iteration of an int "
    "tensor; torch.empty as an arbitrary content `uninit`) - validated against the real torch by this correspondence "
    "and T12's",
    "harness/torch2coq.py: statements -> Gallina scheme; `out = tmp` transfers the name of the tensor object (tmp may "
    "not be used afterwards); `out.dtype` is resolved statically to the dtype expression the tensor was created with",
    "gen/EncodingGen.v `encode` standing for the `encode(p, include_sentinel)` inside encode_batch's lambda (T06: "
    "translated from the same file; pinned: top-level def encode(p, include_sentinel), not rebound)",
]
ASSUMPTIONS = [
    "guard `small`: every encoding is shorter than 2^31 tokens (its length is stored in an int32 tensor)",
    "the defaults dtype=torch.float / include_sentinel=True are not modelled: the generated functions take the "
    "arguments explicitly (the only call of _encode_batch passes dtype=torch.uint8)",
]
_STATE = {}


def pregen(run):
    e1 = c06gen.pregen(run)          # gen/GameGen.v, gen/EncodingGen.v (T06's translator; used, not edited, here)
    e2 = c06bgen.pregen(run)
    _STATE["err"] = e1 or e2
    return _STATE["err"]


# ---------------------------------------------------------------------------------------------------------------
# (a) the TorchLite additions against torch
# ---------------------------------------------------------------------------------------------------------------
SEM_EXTRA = """
Inductive ecase :=
| EZeros2 (d : dtype) (a b : Z) (o : obs)
| EZerosLikeAs (t : tensor) (d : dtype) (o : obs)
| ESize (t : tensor) (k : Z) (o : obs)
| ETensorInts (d : dtype) (l : list Z) (o : obs)
| ESetInt (t : tensor) (i n : Z) (o : obs)
| EIterInt (t : tensor) (o : obs)
| ESetRowPrefix (t : tensor) (i k : Z) (v : tensor) (o : obs)
| ESetColsPrefix (t : tensor) (k : Z) (u : tensor) (o : obs)
| EFillRowPrefix (t : tensor) (i k c : Z) (o : obs)
| EEmptyShape (n : Z) (len : Z).
Definition echk (c : ecase) : bool :=
  match c with
  | EZeros2 d a b o => agree_t (t_zeros2 d a b) o
  | EZerosLikeAs t d o => agree_t (t_zeros_like_as t d) o
  | ESize t k o => agree_z (t_size t k) o
  | ETensorInts d l o => agree_t (t_tensor_ints d l) o
  | ESetInt t i n o => agree_t (t_set_int t i n) o
  | EIterInt t o => agree_l (t_iter_int t) o
  | ESetRowPrefix t i k v o => agree_t (t_set_row_prefix t i k v) o
  | ESetColsPrefix t k u o => agree_t (t_set_cols_prefix t k u) o
  | EFillRowPrefix t i k c o => agree_t (t_fill_row_prefix t i k c) o
  | EEmptyShape n len => match t_empty_int (fun j => Z.of_nat j) n with Ok (I1 v) => (zlen v =? len)%Z | _ => false end
  end.
Definition eskipped (c : ecase) : bool :=
  match c with
  | EZeros2 d a b _ => unmodelled (t_zeros2 d a b) | EZerosLikeAs t d _ => unmodelled (t_zeros_like_as t d)
  | ESize t k _ => unmodelled (t_size t k) | ETensorInts d l _ => unmodelled (t_tensor_ints d l)
  | ESetInt t i n _ => unmodelled (t_set_int t i n) | EIterInt t _ => unmodelled (t_iter_int t)
  | ESetRowPrefix t i k v _ => unmodelled (t_set_row_prefix t i k v)
  | ESetColsPrefix t k u _ => unmodelled (t_set_cols_prefix t k u)
  | EFillRowPrefix t i k c _ => unmodelled (t_fill_row_prefix t i k c)
  | EEmptyShape _ _ => false
  end.
"""
DT = {"DFloat": "float32", "DUint8": "uint8", "DInt32": "int32", "DBool": "bool"}


def sem_cases(run, n):
    import torch
    rng = run.rng
    header = t12.SEM_HEADER + SEM_EXTRA
    cs = core.Cases(ID, "torchlite", header, "ecase", "echk", shard=max(60, n // max(1, core.NPROC)))
    sk = core.Cases(ID, "skipped_torchlite", header, "ecase", "fun c => negb (eskipped c)", shard=100000)
    dist = {}
    out, ct, rt = t12._outcome, t12.ctensor, t12._rand_tensor

    def add(kind, term):
        m = {"op": kind, "term": term[:700]}
        cs.add(term, m)
        sk.add(term, m)
        dist[kind] = dist.get(kind, 0) + 1

    def tdt(d):
        return getattr(torch, DT[d])

    def clone_do(t, f):
        def g():
            t2 = t.clone()
            f(t2)
            return t2
        return g

    ops = ["zeros2", "zeros_like_as", "size", "tensor_ints", "set_int", "iter_int", "set_row_prefix", "set_cols_prefix",
           "fill_row_prefix", "empty"]
    for _ in range(n):
        op = rng.choice(ops)
        if op == "zeros2":
            d, a, b = rng.choice(list(DT)), rng.randint(0, 4), rng.randint(0, 4)
            add(op, f"(EZeros2 {d} {cz(a)} {cz(b)} {out(lambda: torch.zeros((a, b), dtype=tdt(d)))})")
        elif op == "zeros_like_as":
            t, d = rt(rng, n=rng.randint(1, 3)), rng.choice(list(DT))
            add(op, f"(EZerosLikeAs {ct(t)} {d} {out(lambda: torch.zeros_like(t, dtype=tdt(d)))})")
        elif op == "size":
            t, k = rt(rng, n=rng.randint(0, 3)), rng.choice([0, 1, 1, 1])
            add(op, f"(ESize {ct(t)} {cz(k)} {out(lambda: t.size(k))})")
        elif op == "tensor_ints":
            d = rng.choice(["DUint8", "DUint8", "DInt32", "DFloat"])
            vals = [rng.choice([0, 1, 9, 203, 254, 255, 255, 17]) for _ in range(rng.randint(0, 5))]
            if rng.random() < 0.15:
                vals.append(rng.choice([256, -1, 300, 2 ** 31]))
            add(op, f"(ETensorInts {d} {czlist(vals)} {out(lambda: torch.tensor(vals, dtype=tdt(d)))})")
        elif op == "set_int":
            k = rng.randint(0, 4)
            t = torch.tensor([rng.randint(-5, 50) for _ in range(k)], dtype=torch.int32)
            i, v = rng.randint(-k - 1, k + 1), rng.choice([0, 7, 15, 22, -3])
            add(op, f"(ESetInt {ct(t)} {cz(i)} {cz(v)} {out(clone_do(t, lambda t2: t2.__setitem__(i, v)))})")
        elif op == "iter_int":
            t = torch.tensor([rng.randint(0, 30) for _ in range(rng.randint(0, 4))], dtype=torch.int32)
            add(op, f"(EIterInt {ct(t)} {out(lambda: [int(x) for x in t])})")
        elif op == "set_row_prefix":
            kind = rng.choice("IIFB")
            nr, w = rng.randint(1, 3), rng.randint(0, 5)
            t = rt(rng, kind=kind, dim=2, n=nr, w=w)
            k = rng.randint(-2, w + 2)
            eff = max(0, min(k, w)) if k >= 0 else max(0, w + k)
            ln = eff if rng.random() < 0.85 else rng.randint(0, 5)
            v = rt(rng, kind=kind, dim=1, n=ln)
            i = rng.randint(-nr - 1, nr)
            add(op, f"(ESetRowPrefix {ct(t)} {cz(i)} {cz(k)} {ct(v)} "
                    f"{out(clone_do(t, lambda t2: t2.__setitem__((i, slice(None, k)), v)))})")
        elif op == "set_cols_prefix":
            kind = rng.choice("IIFB")
            nr, w = rng.randint(1, 3), rng.randint(0, 5)
            t = rt(rng, kind=kind, dim=2, n=nr, w=w)
            k = rng.randint(0, w + 1)
            eff = min(k, w)
            u = rt(rng, kind=kind, dim=2, n=nr if rng.random() < 0.9 else rng.randint(1, 3),
                   w=eff if rng.random() < 0.85 else rng.randint(0, 5))
            add(op, f"(ESetColsPrefix {ct(t)} {cz(k)} {ct(u)} "
                    f"{out(clone_do(t, lambda t2: t2.__setitem__((slice(None), slice(None, k)), u)))})")
        elif op == "fill_row_prefix":
            kind = rng.choice("BBF")
            nr, w = rng.randint(1, 3), rng.randint(0, 5)
            t = rt(rng, kind=kind, dim=2, n=nr, w=w)
            i, k, c = rng.randint(-nr - 1, nr), rng.randint(-2, w + 2), rng.choice([1, 1, 0, 2])
            add(op, f"(EFillRowPrefix {ct(t)} {cz(i)} {cz(k)} {cz(c)} "
                    f"{out(clone_do(t, lambda t2: t2.__setitem__((i, slice(None, k)), c)))})")
        else:
            k = rng.randint(0, 6)
            e = torch.empty((k,), dtype=torch.int)
            add(op, f"(EEmptyShape {cz(k)} {cz(e.shape[0])})")
    return cs, sk, dist


# ---------------------------------------------------------------------------------------------------------------
# (b) the generated encode_batch against the implementation
# ---------------------------------------------------------------------------------------------------------------
GEN_HEADER = """From Coq Require Import ZArith String List Bool.
From TV Require Import model.Tak model.PySem model.Lit model.TorchLite model.Encoding.
From TV Require gen.EncodeBatchGen.
Import ListNotations.
Open Scope Z_scope.
(* include_sentinel, positions, observed (rows, mask) / IndexError / anything else *)
Definition bcase := (bool * list position * obs (list (list Z) * list (list bool)))%type.
Definition uninit0 (j : nat) : Z := 12345 + Z.of_nat j.
Definition bchk (c : bcase) : bool :=
  let '(s, ps, o) := c in
  match EncodeBatchGen.encode_batch uninit0 ps s, o with
  | Ok (I2 rows, B2 masks), ObsOk rm => batch_eqb (rows, masks) rm
  | Crash IndexError, ObsRaise => true
  | _, _ => false
  end.
Definition bview (c : bcase) := let '(s, ps, o) := c in EncodeBatchGen.encode_batch uninit0 ps s.
"""


def _batches(run, n):
    """batches that exercise the widening: mixed sizes, long members late, repeated members, an out-of-domain member"""
    rng = run.rng
    pool = c06.positions(run, 120 if run.quick else 600, 60 if run.quick else 300, 20 if run.quick else 80)
    dom = [p for p, _ in pool if c06.in_domain(p)]
    ood = [p for p, _ in pool if not c06.in_domain(p)]
    out = []
    for i in range(n):
        k = 0 if i == 0 else 1 if i == 1 else rng.choice([2, 3, 3, 4, 5, 8, 12])
        if i % 4 == 0:
            sz = rng.choice([3, 4, 5, 6])
            ps = [rng.choice([p for p in dom if p.size == sz]) for _ in range(k)]
        else:
            ps = [rng.choice(dom) for _ in range(k)]
        if i % 3 == 2:
            ps.sort(key=lambda p: len(p.board) + sum(len(s) for s in p.board))       # shortest first: widens at every step
        elif i % 3 == 1:
            rng.shuffle(ps)
        has_ood = False
        if i % 9 == 8 and ps and ood:
            ps[rng.randrange(len(ps))] = rng.choice(ood)
            has_ood = True
        out.append((ps, i % 2 == 0, has_ood))
    return out


def correspondence(run):
    tak, torch, enc = c06._impl()
    torch.set_num_threads(1)
    n_sem = 1500 if run.quick else 10000
    cs, sk, dist = sem_cases(run, n_sem)
    failing, shard_fail, nshards = cs.run()
    run.oblige(f"correspondence:TorchLite.v additions against torch ({nshards} shards)", not shard_fail, str(shard_fail)[:1500])
    skipped, _, _ = sk.run()
    dist["skipped (TorchLite answers Unmodelled: no position taken)"] = len(skipped)
    run.count(n_sem, n_sem - len(skipped),
              "the TorchLite.v operations added for _encode_batch against the real torch on random small tensors "
              "(value or exception class compared inside Coq); non-trivial = TorchLite takes a position",
              [{"op": m["op"], "case": m["term"]} for m in cs.metas[:3]], dist, label="torchlite")
    for m in failing[:5]:
        run.violation("torchlite-" + m["op"], {"clause": "model/TorchLite.v disagrees with torch (trusted base wrong)",
                                                "case": m["term"], "op": m["op"]})
    if _STATE.get("err"):
        return
    n_b = 150 if run.quick else 1500
    cb = core.Cases(ID, "gen_batch", GEN_HEADER, "bcase", "bchk", show="bview", shard=max(8, n_b // 16))
    bd = {"mixed_sizes": 0, "with_out_of_domain": 0, "widened_after_row_1": 0}
    for ps, s, has_ood in _batches(run, n_b):
        o = c06.obs_batch(torch, enc, ps, s)
        lens = []
        try:
            lens = [len(enc.encode(p, s)) for p in ps]
        except Exception:  # noqa
            pass
        late = any(lens[j] > max(lens[:j]) for j in range(2, len(lens))) if lens else False
        cb.add(f"({cbool(s)}, {clist([takio.c_pos(p) for p in ps])}, {c06.c_obs(o, c06.c_rows)})",
               {"include_sentinel": s, "positions": [takio.j_pos(p) for p in ps], "n": len(ps), "late": late,
                "observed": {"exception": o[1]} if o[0] != "ok" else {"rows": o[1][0], "mask": o[1][1]}})
        bd["mixed_sizes"] += len({p.size for p in ps}) > 1
        bd["with_out_of_domain"] += has_ood
        bd["widened_after_row_1"] += late
    failing, shard_fail, nshards = cb.run()
    run.oblige(f"correspondence:EncodeBatchGen.encode_batch against the implementation ({nshards} shards)", not shard_fail,
               str(shard_fail)[:1500])
    run.count(len(cb), sum(1 for m in cb.metas if m["late"]),
              "the GENERATED encode_batch evaluated inside Coq against the real encode_batch (rows, mask, or IndexError); "
              "non-trivial = the buffer is widened when row 1 or a later row is already filled",
              [{"n": m["n"], "include_sentinel": m["include_sentinel"]} for m in cb.metas[2:4]], bd, label="gen_batch")
    for m in failing[:3]:
        run.violation("gen-batch-differs", {
            "clause": "the function generated from the current source disagrees with the implementation "
                      "(translator / TorchLite wrong, not a property failure by itself)",
            "input": {"include_sentinel": m["include_sentinel"], "positions": m["positions"]}, "impl_output": m["observed"],
            "model_view": cb.model_view(cb.terms[cb.metas.index(m)])})


def search(run, broken):
    """the translation or the equality proof broke: the batch clause itself on the implementation"""
    tak, torch, enc = c06._impl()
    for ps, s, has_ood in _batches(run, 400):
        if has_ood or not all(c06.in_domain(p) for p in ps):
            continue
        bad = c06.oracle_batch(torch, enc, ps, s)
        if bad:
            js = [takio.j_pos(p) for p in ps]
            o = c06.obs_batch(torch, enc, ps, s)
            run.violation("batch:" + hashlib.sha256(json.dumps([s, js], sort_keys=True).encode()).hexdigest()[:16],
                          {"clause": bad, "input": {"include_sentinel": s, "positions": js},
                           "impl_output": {"exception": o[1]} if o[0] != "ok" else {"rows": o[1][0], "mask": o[1][1]},
                           "expected_rows": [[int(t) for t in enc.encode(p, s)] for p in ps]})
            return True
    return False


def replay(run, rp):
    tak, torch, enc = c06._impl()
    inp = rp["input"]
    ps = [takio.mk_pos(d) for d in inp["positions"]]
    s = inp["include_sentinel"]
    bad = c06.oracle_batch(torch, enc, ps, s) if all(c06.in_domain(p) for p in ps) else []
    o = c06.obs_batch(torch, enc, ps, s)
    return {"violates": bool(bad), "oracle_violations": bad,
            "impl_output": {"exception": o[1]} if o[0] != "ok" else {"rows": o[1][0], "mask": o[1][1]}}
