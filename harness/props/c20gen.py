"""Translator hook only: regenerates coq/gen/DatasetGen.v (the shallow embedding of xformer/data/__init__.py and
tak/alphazero/data.py written against model/TorchData.v) from the tree under test.  The theorems about it are
props/T20.v (harness/props/t20.py)."""
import hashlib

from .. import core, data2coq


def pregen(run):
    text, err = data2coq.translate(core.REPO / "python")
    core.write_if_changed(core.COQ / "gen" / "DatasetGen.v", text)
    run.oblige("translate:xformer/data/__init__.py,tak/alphazero/data.py -> gen/DatasetGen.v (shallow embedding over TorchData.v)",
               err is None, err or "")
    try:
        run.extra["DatasetGen_sha256"] = hashlib.sha256(text.encode()).hexdigest()[:16]
    except AttributeError:   # pregen_all's dummy run
        pass
    return err
