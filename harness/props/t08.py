"""T08 - MCTS.update, Node.policy_probs and the pure part of MCTS.populate are REGENERATED FROM THE SOURCE
(gen/MctsGen.v, written by harness/mcts2coq.py against model/PySem.v and model/MctsSem.v) and proved equal to what the
hand-written model (model/Mcts.v: simulate, policy_inputs) does; clauses of C08 / C09 are transported
(props/T08.v, proofs/MctsGenEq.v).  MCTS.descend (sampling), MCTS.analyze_tree (the loop), analyze, get_move,
select_root_move and tree_probs are translated as well (second part: the tree as a heap of places, oracles with state) and analyze_tree is proved equal,
end to end, to model/Mcts.v's analyze for time_limit = 0 and simulation_limit > 0.

Correspondence:
(a) model/MctsSem.v against CPython / torch (the residual trusted base): random small dyadic data, every operation of
    the library evaluated by the interpreter / torch and compared inside Coq (value or exception class; a division within
    a stated tolerance; inputs on which the library answers `Crash Unmodelled` - non-finite results, shape mismatch -
    must be exactly those on which torch gives a non-finite value / raises);
(b) the GENERATED functions against the implementation on nodes recorded during c08's searches: every call of
    MCTS.update (statistics of the path before / after), of MCTS.populate (position, is_root, the evaluator's answer,
    the Dirichlet sample; v_zero, children, child priors afterwards) and of Node.policy_probs (statistics; the solver's
    q and the bit pattern of lambda_n), a sample of each per search.
search: the translation or an equality proof broke -> the oracles of C08 / C09 (the properties' own statements) on the
implementation."""
import contextlib
import random as _random
import struct
from collections import Counter
from fractions import Fraction

from .. import core, takio
from ..core import cbool, clist, copt, cz, czlist
from . import c08gen


class _Lazy:
    def __init__(self, name):
        self._n = name

    def __getattr__(self, name):
        import importlib
        return getattr(importlib.import_module("harness.props." + self._n), name)


c08 = _Lazy("c08")
c09 = _Lazy("c09")

ID = "T08"
THEOREMS = ["T08_gen_update_eq", "T08_gen_update_loop", "T08_gen_update_root", "T08_gen_policy_probs_unvisited",
            "T08_gen_policy_probs_eq", "T08_multiplier_is_lambda64", "T08_gen_policy_probs_terminal",
            "T08_gen_policy_call_preconditions", "T08_gen_populate_terminal", "T08_gen_populate_expand",
            "T08_gen_populate_children_legal", "T08_gen_analyze_tree_eq", "T08_gen_descend_eq", "T08_gen_analyze_tree_good",
            "T08_gen_analyze_eq", "T08_gen_select_root_move_legal", "T08_gen_get_move_legal"]
MODEL_TARGETS = ["model/Tak.vo", "model/Road.vo", "model/PySem.vo", "model/Mcts.vo", "model/MctsSem.vo", "model/Solver.vo",
                 "model/LambdaF64.vo", "model/Harness.vo", "model/Lit.vo", "gen/MctsGen.vo"]
TRUSTED_BASE = [
    "model/MctsSem.v: float / float32-tensor operations as exact rationals (slice, scalar * tensor, tensor + tensor, "
    ">= / > against a scalar, nonzero, indexing by a list, sum, /= by a scalar, true division), None handling "
    "(len / iteration / append / tensor argument), the Node and Config attributes - validated against CPython and "
    "torch by this correspondence on every run (dyadic data: the additions, the mix and the comparisons are exact; "
    "divisions within 2^-22 relative)",
    "model/PySem.v (outcomes, list indexing and slicing) - validated by T01's correspondence",
    "harness/mcts2coq.py: statements -> Gallina scheme (rebinding of locals and of objects whose attributes are assigned, "
    "a function returns the objects it mutates, loops as structural recursion, try/except IllegalMove/continue, evaluation "
    "order of the binds, self.stats counters dropped) - validated by running the generated functions against the "
    "implementation on recorded calls",
    "the callees enter as oracles / already modelled functions: network.evaluate, the Dirichlet sample, "
    "tak_ext.solve_policy (C10), math.sqrt / float * / float / int (model/LambdaF64.v for binary64), Position.move and "
    "winner (model/Tak.v, model/Road.v; T01 ties game.py), encoding.decode_move / n_moves_for_size (the id table; C07)",
    "the search loop is translated over a tree-as-heap (a reference = the child indices from the searched node): this is "
    "the semantics of the in-place code PROVIDED the Node objects form a tree (no aliasing) - not proved, checked by C08's "
    "position snapshots and C05; a positive time_limit (the clock oracle) and the stats counters are not covered",
]
ASSUMPTIONS = [
    "gen_populate_expand: 0 < cutoff_prob (otherwise a zero sum of priors gives non-finite child priors, on which "
    "MctsSem takes no position); the Dirichlet sample has the length of the truncated prior vector; root_noise_mix is "
    "a float (None is not modelled)",
    "gen_update_eq relates update() to simulate on the path of a valid descent; the heap fact that the path's records "
    "ARE the nodes of the tree (path[i+1] is a child of path[i]) is descend's, i.e. C08's correspondence",
]
_STATE = {}

HEADER = r"""From Coq Require Import ZArith QArith Qabs List Bool.
From Coq Require Import Floats.SpecFloat.
From TV Require Import model.Tak model.Road model.PySem model.Mcts model.MctsSem model.Solver model.LambdaF64.
From TV Require Import model.Lit.      (* last: the case literals use Lit.M (a move), MctsSem.M is the oracle monad *)
From TV Require gen.MctsGen.
Import ListNotations.
Open Scope Z_scope.
Definition qs_eq (a b : list Q) : bool := all2 Qeq_bool a b.
Definition qs_close (tol : Q) (obs model : list Q) : bool := all2 (fun o m => qclose tol o m) obs model.
Definition zs_eq (a b : list Z) : bool := list_eqb Z.eqb a b.

(* ---- (a) the semantics library against the interpreter ---- *)
Inductive semcase :=
| SSlice (t : list Q) (n : Z) (out : list Q)
| SMix (s : Q) (a b : list Q) (out : option (list Q))          (* None: torch raised (shapes) *)
| SNonzero (t : list Q) (c : Q) (ge gt : list Z)
| SIndex (t : list Q) (ids : list Z) (out : option (list Q))    (* None: IndexError *)
| SSumDiv (t : list Q) (out : option (list Q))                  (* None: a non-finite entry *)
| STrueDiv (a b : Q) (out : option Q)                           (* None: ZeroDivisionError *)
| SLenIter (k : option Z) (len_ok iter_ok arg_ok : bool).       (* len(x), iteration, tensor argument on a list / None *)
Definition semchk (c : semcase) : bool :=
  match c with
  | SSlice t n out => qs_eq (ft_slice_to t n) out
  | SMix s a b out =>
    match ft_add (ft_scale s a) (ft_scale (Qminus (q_of_int 1) s) b), out with
    | Ok r, Some o => qs_eq r o
    | Crash Unmodelled, None => true
    | _, _ => false
    end
  | SNonzero t c ge gt => zs_eq (bt_nonzero (ft_ge t c)) ge && zs_eq (bt_nonzero (ft_gt t c)) gt
  | SIndex t ids out =>
    match ft_index t ids, out with
    | Ok r, Some o => qs_eq r o
    | Crash IndexError, None => true
    | _, _ => false
    end
  | SSumDiv t out =>
    match ft_idiv_scalar t (ft_sum t), out with
    | Ok r, Some o => qs_close (1 # 4194304) o r
    | Crash Unmodelled, None => true
    | _, _ => false
    end
  | STrueDiv a b out =>
    match py_truediv a b, out with
    | Ok r, Some o => qclose (1 # 4503599627370496) o r
    | Crash ZeroDivisionError, None => true
    | _, _ => false
    end
  | SLenIter k len_ok iter_ok arg_ok =>
    let o := match k with Some n => Some (repeat (1 # 2)%Q (Z.to_nat n)) | None => None end in
    Bool.eqb (match py_len_opt o, k with Ok n, Some n' => n =? n' | _, _ => false end) len_ok &&
    (match py_len_opt o, k with Crash TypeError, None => true | Ok _, Some _ => true | _, _ => false end) &&
    Bool.eqb (match py_iter_opt o with Ok _ => true | _ => false end) iter_ok &&
    (match py_iter_opt o, k with Crash TypeError, None => true | Ok _, Some _ => true | _, _ => false end) &&
    Bool.eqb (match py_tensor_arg o with Ok _ => true | _ => false end) arg_ok &&
    (match py_tensor_arg o, k with Crash TypeError, None => true | Ok _, Some _ => true | _, _ => false end)
  end.

(* ---- (b) the generated functions against recorded calls ---- *)
Definition mkstat (s : Q * Q * Z) : pystat := mkPyStat (fst (fst s)) (snd (fst s)) (snd s).
Definition stat_eqb (a b : pystat) : bool :=
  Qeq_bool (ps_v_zero a) (ps_v_zero b) && Qeq_bool (ps_value a) (ps_value b) && (ps_simulations a =? ps_simulations b).
Definition updchk (c : list (Q * Q * Z) * list (Q * Q * Z)) : bool :=
  match MctsGen.update (map mkstat (fst c)) with
  | Ok l => all2 stat_eqb l (map mkstat (snd c))
  | _ => false
  end.

Definition nopos : position := P 3 0 0 0 0 0 [].
Definition kid (vs : Q * Z) : pynode := PyNode nopos None 0 (fst vs) (snd vs) None None.
(* node statistics, the binary64 pattern of c, observation: None = no solver call and the prior returned;
   Some (lambda_n bits, q) = the one solver call *)
Definition ppchk (c : (Q * Z * option (list Q) * option (list (Q * Z))) * Z * option (Z * list Q) * bool) : bool :=
  let '(v0, N, prior, kids, cbits, obs, raises_type_error) := c in
  let node := PyNode nopos None v0 0 N prior (match kids with Some l => Some (map kid l) | None => None end) in
  let r := MctsGen.policy_probs spec_float (fun z => SFsqrt prec64 emax64 (b64_of_Z z)) (SFmul prec64 emax64)
             (fun x d => SFdiv prec64 emax64 x (b64_of_Z d))
             (fun pi q lam => Ok (inject_Z (bits_of_b64 lam) :: inject_Z (zlen pi) :: pi ++ q))
             node (b64_of_bits cbits) in
  match r, obs with
  | Crash TypeError, None => raises_type_error
  | Ok o, None => negb raises_type_error &&
                  match o, prior with Some a, Some b => qs_eq a b | None, None => true | _, _ => false end
  | Ok (Some (b :: k :: rest)), Some (lb, oq) =>
    Qeq_bool b (inject_Z lb) &&
    match prior with
    | Some p => Qeq_bool k (inject_Z (zlen p)) && qs_eq (firstn (length p) rest) p &&
                qs_close (1 # 8388608) oq (skipn (length p) rest)
    | None => false
    end
  | _, _ => false
  end.

(* config, position, is_root, the evaluator's answer (None: must not be asked), the Dirichlet sample (None: must not be
   drawn); observed afterwards: v_zero, children (move id, position code), child priors *)
Definition popchk (c : (Q * option Q * Q) * position * bool * option (list Q * Q) * option (list Q) *
                       (Q * option (list (Z * list Z)) * option (list Q))) : bool :=
  let '(cfg3, p, is_root, ev, nz, (ov0, okids, oprobs)) := c in
  let cfg := mkPyConfig (fst (fst cfg3)) (snd (fst cfg3)) (snd cfg3) 0 0 in
  let r := MctsGen.populate (fun _ => match ev with Some e => Ok e | None => Crash OracleExhausted end)
                            (fun _ _ => match nz with Some l => Ok l | None => Crash OracleExhausted end)
                            cfg (PyNode p None 0 0 0 None None) is_root in
  match r with
  | Ok n =>
    Qeq_bool (pn_v_zero n) ov0 &&
    match pn_children n, okids with
    | None, None => true
    | Some ks, Some oks =>
      all2 (fun k o => opt_eqb mv_eqb (pn_move k) (decode_move (size p) (fst o)) &&
                       zs_eq (pos_code (pn_position k)) (snd o)) ks oks
    | _, _ => false
    end &&
    match pn_child_probs n, oprobs with
    | None, None => true
    | Some a, Some b => qs_close (1 # 100000) b a
    | _, _ => false
    end
  | _ => false
  end.

(* ---- (c) whole searches: the regenerated analyze_tree on the recorded streams against the observed final tree ---- *)
Record ost2 := mkO { o_ch : list Z; o_ev : list eval; o_nz : option (list Q) }.
Definition m_multi (pol : option (list Q)) : MctsSem.M ost2 Z :=
  fun s => match pol, o_ch s with
           | None, _ => Crash TypeError
           | Some _, c :: r => Ok (c, mkO r (o_ev s) (o_nz s))
           | Some _, [] => Crash OracleExhausted
           end.
Definition m_mono : MctsSem.M ost2 Q := fun s => Ok (0%Q, s).
Definition m_eval (_ : position) : MctsSem.M ost2 (list Q * Q) :=
  fun s => Ok (fst (next_eval (o_ev s)), mkO (o_ch s) (snd (next_eval (o_ev s))) (o_nz s)).
(* the Dirichlet stand-in of the harness hands out its known vector cut to the requested length *)
Definition m_dir (n : Z) (_ : option Q) : MctsSem.M ost2 (list Q) :=
  fun s => match o_nz s with Some l => Ok (firstn (Z.to_nat n) l, s) | None => Crash OracleExhausted end.
Fixpoint node_of_py (n : pynode) : node :=
  match n with
  | PyNode p m v0 va sm cp ks =>
    Node p m v0 va (Z.to_nat sm) [] (match cp with Some l => l | None => [] end)
         (match ks with Some l => Some (map node_of_py l) | None => None end)
  end.
Definition gen_analyze_tree (cfg : pyconfig) (t : pynode) (st : ost2) : res (pynode * ost2) :=
  MctsGen.analyze_tree ost2 m_multi m_mono m_eval m_dir Q inject_Z Qmult (fun x d => (x / inject_Z d)%Q)
                       (fun pi _ _ => Ok pi) 4%Q (Z.to_nat 2000) cfg t [] st.
(* every phase = one call of analyze_tree on the tree itself or on the subtree at `path` (the same convention as
   model/Mcts.v run_phases); all recorded choices must be used up *)
Fixpoint gen_phases (cutoff mix : Q) (phs : list phase) (n : pynode) (evs : list eval) : option (pynode * list eval) :=
  match phs with
  | [] => Some (n, evs)
  | ph :: r =>
    match pt_get n (ph_path ph) with
    | Ok t =>
      let alpha := match ph_noise ph with Some _ => Some (3 # 10)%Q | None => None end in
      match gen_analyze_tree (mkPyConfig cutoff alpha mix 0 (ph_limit ph)) t (mkO (concat (ph_css ph)) evs (ph_noise ph)) with
      | Ok (t', st) => match o_ch st with [] => gen_phases cutoff mix r t' (o_ev st) | _ :: _ => None end
      | _ => None
      end
    | _ => None
    end
  end.
Definition searchchk (c : (Z * Z) * (Z * Z) * position * list phase * list eval * onode) : bool :=
  let '(co, mx, p0, phs, evs, obs) := c in
  match gen_phases (fq co) (fq mx) phs (py_new_root p0) evs with
  | Some (n, []) => node_agrees (1 # 100000)%Q (table (size p0)) (node_of_py n) obs
  | _ => false
  end.
"""


def pregen(run):
    _STATE["err"] = c08gen.pregen(run)
    return _STATE["err"]


# ---------------------------------------------------------------------------------------------------------------
# literals
# ---------------------------------------------------------------------------------------------------------------
def cq(x):
    fr = Fraction(x)
    return f"(Qmake {cz(fr.numerator)} {fr.denominator})"


def cql(l):
    return clist([cq(x) for x in l])


def f64_bits(x):
    return struct.unpack("<Q", struct.pack("<d", float(x)))[0]


# ---------------------------------------------------------------------------------------------------------------
# (a) MctsSem.v against CPython / torch
# ---------------------------------------------------------------------------------------------------------------
def sem_cases(rng, n):
    import math
    import torch
    out = []

    def dy(lo=-64, hi=64, den=64):
        return rng.randint(lo, hi) / den

    def vec(k, **kw):
        return [dy(**kw) for _ in range(k)]

    for i in range(n):
        kind = i % 7
        if kind == 0:
            t = vec(rng.randint(0, 8))
            nn = rng.randint(-3, 11)
            o = torch.tensor(t, dtype=torch.float32)[:nn].tolist()
            out.append((f"(SSlice {cql(t)} {cz(nn)} {cql(o)})", {"op": "t[:n]", "t": t, "n": nn}))
        elif kind == 1:
            s = rng.choice([0.25, 0.5, 0.125, 0.75])
            a = vec(rng.randint(0, 6), lo=0, hi=64)
            b = vec(len(a) if rng.random() < 0.8 else rng.randint(2, 7), lo=0, hi=64)
            try:
                if len(a) != len(b) and 1 in (len(a), len(b)):
                    raise RuntimeError("broadcast: not modelled")          # torch would broadcast a 1-element tensor
                o = (s * torch.tensor(a, dtype=torch.float32) + (1 - s) * torch.tensor(b, dtype=torch.float32)).tolist()
                lit = "(Some " + cql(o) + ")"
            except RuntimeError:
                lit = "None"
            out.append((f"(SMix {cq(s)} {cql(a)} {cql(b)} {lit})", {"op": "s*a+(1-s)*b", "s": s, "a": a, "b": b}))
        elif kind == 2:
            t = vec(rng.randint(0, 9), lo=0, hi=8, den=8)
            c = rng.choice(t) if t and rng.random() < 0.7 else dy(0, 8, 8)
            tt = torch.tensor(t, dtype=torch.float32)
            ge = torch.nonzero(tt >= c)[:, 0].numpy().tolist()
            gt = torch.nonzero(tt > c)[:, 0].numpy().tolist()
            out.append((f"(SNonzero {cql(t)} {cq(c)} {czlist(ge)} {czlist(gt)})", {"op": "nonzero(t>=c)", "t": t, "c": c}))
        elif kind == 3:
            t = vec(rng.randint(1, 7))
            ids = [rng.randint(-len(t) - 1, len(t)) for _ in range(rng.randint(0, 5))]
            try:
                o = torch.tensor(t, dtype=torch.float32)[ids].tolist() if ids else []
                lit = "(Some " + cql(o) + ")"
            except IndexError:
                lit = "None"
            out.append((f"(SIndex {cql(t)} {czlist(ids)} {lit})", {"op": "t[ids]", "t": t, "ids": ids}))
        elif kind == 4:
            t = vec(rng.randint(0, 6), lo=(0 if rng.random() < 0.8 else -8), hi=16, den=16)
            tt = torch.tensor(t, dtype=torch.float32)
            tt /= tt.sum()
            o = tt.tolist()
            lit = "(Some " + cql(o) + ")" if all(math.isfinite(x) for x in o) else "None"
            out.append((f"(SSumDiv {cql(t)} {lit})", {"op": "t /= t.sum()", "t": t}))
        elif kind == 5:
            a, b = dy(), rng.choice([0.0, dy(1, 64), float(rng.randint(1, 50)), dy(-64, -1)])
            try:
                lit = f"(Some {cq(-a / b)})"
            except ZeroDivisionError:
                lit = "None"
            out.append((f"(STrueDiv {cq(-a)} {cq(b)} {lit})", {"op": "-a / b", "a": a, "b": b}))
        else:
            k = None if rng.random() < 0.4 else rng.randint(0, 5)
            x = None if k is None else [0.5] * k
            res = []
            for f in (lambda: len(x), lambda: [y for y in x], None):
                if f is None:
                    res.append(x is not None)      # pybind11 refuses None for a torch::Tensor parameter (TypeError)
                    continue
                try:
                    f()
                    res.append(True)
                except TypeError:
                    res.append(False)
            out.append((f"(SLenIter {copt(None if k is None else cz(k))} {cbool(res[0])} {cbool(res[1])} {cbool(res[2])})",
                        {"op": "len / iteration / tensor argument", "k": k}))
    return out


# ---------------------------------------------------------------------------------------------------------------
# (b) recorded calls of update / populate / policy_probs
# ---------------------------------------------------------------------------------------------------------------
@contextlib.contextmanager
def record_calls(log):
    """class-level wrappers around MCTS.update and MCTS.populate (c08's engine subclass reaches them through super())"""
    from tak import mcts
    o_update, o_populate = mcts.MCTS.update, mcts.MCTS.populate

    def stats(path):
        return [(float(n.v_zero), float(n.value), int(n.simulations)) for n in path]

    def update(self, path):
        pre = stats(path)
        r = o_update(self, path)
        log["update"].append((pre, stats(path)))
        return r

    def populate(self, node, is_root=False):
        rec = log["rec"]()
        before = len(rec.evals) if rec else 0
        entry = {"pos": c08.snap(node.position), "is_root": bool(is_root), "had_children": node.children is not None}
        r = o_populate(self, node, is_root)
        ev = rec.evals[before] if rec and len(rec.evals) > before else None
        entry.update({"eval": None if ev is None else (ev["raw"], ev["value"]),
                      "noise": None if ev is None else getattr(rec, "cur_noise", None),
                      "v_zero": float(node.v_zero),
                      "children": None if node.children is None else
                      [(c.move, c08.pos_code(c.position)) for c in node.children],
                      "child_probs": None if node.child_probs is None else [float(x) for x in node.child_probs.tolist()],
                      "cfg": (self.config.cutoff_prob, self.config.root_noise_alpha, self.config.root_noise_mix)})
        log["populate"].append(entry)
        return r
    mcts.MCTS.update, mcts.MCTS.populate = update, populate
    try:
        yield
    finally:
        mcts.MCTS.update, mcts.MCTS.populate = o_update, o_populate


def run_spec(spec):
    """one history of c08 with all recorders; picklable result: the case terms (a history the recorders cannot render -
    non-finite numbers of a broken implementation - counts as crashed: c08 / c09 report on those)"""
    try:
        return _run_spec(spec)
    except Exception as e:  # noqa
        return {"update": [], "populate": [], "policy": [], "search": [], "crash": "recorder: " + repr(e)[:200], "spec": spec}


def _run_spec(spec):
    import torch
    from tak.model import encoding
    torch.set_num_threads(1)
    holder = {}
    log = {"update": [], "populate": [], "rec": lambda: holder.get("rec")}
    orig_recorder = c08.Recorder

    class Rec(orig_recorder):
        def __init__(self, sp):
            super().__init__(sp)
            holder["rec"] = self
    import harness.props.c08 as c08mod
    c08mod.Recorder = Rec
    try:
        with record_calls(log):
            trace = c08.do_search(spec, record_solver=True, select=True, after_phase=c09.after_phase)
    finally:
        c08mod.Recorder = orig_recorder
    rng = _random.Random(c08.spec_key(spec))
    out = {"update": [], "populate": [], "policy": [], "search": [], "crash": trace["crash"], "spec": spec}
    problems, astats = c08.audit(trace)
    if (not trace["crash"] and not problems and c08.representable(trace) and not astats["inexact_noise_mix"]
            and not astats["hypothesis_not_met"]):
        out["search"].append((c08.case_term(trace), {"cat": f"size{spec['size']}:" + ("reused" if len(spec["phases"]) > 1 else "fresh")
                                                            + (":noise" if spec.get("noise") else ""),
                                                     "phases": [p["limit"] for p in spec["phases"]]}))

    def sample(l, k):
        return l if len(l) <= k else rng.sample(l, k)

    for pre, post in sample(log["update"], 40):
        lit = lambda st: clist([f"({cq(a)}, {cq(b)}, {cz(c)})" for a, b, c in st])
        leaf = pre[-1]
        cat = f"depth{min(len(pre), 4)}:" + ("leaf-revisited" if leaf[2] > 0 else "leaf-pm1" if abs(leaf[0]) == 1 else "leaf-new")
        out["update"].append((f"({lit(pre)}, {lit(post)})", {"path_before": pre, "path_after": post, "cat": cat}))
    size = spec["size"]
    n = encoding.n_moves_for_size(size)
    for e in sample([e for e in log["populate"] if not e["had_children"]], 30):
        cutoff, alpha, mix = e["cfg"]
        cfg = f"({cq(c08.f32(cutoff))}, {copt(None if alpha is None else cq(alpha))}, {cq(mix)})"
        ev = None if e["eval"] is None else f"({c08.c_qvec(e['eval'][0][: n + 2])}, {cq(e['eval'][1])})"
        nz = None if e["noise"] is None else c08.c_qvec(e["noise"])
        kids = None if e["children"] is None else clist(
            [f"({encoding.encode_move(size, m)}, {czlist(code)})" for m, code in e["children"]])
        probs = None if e["child_probs"] is None else cql(e["child_probs"])
        pos = takio.c_pos(c08.rebuild(e["pos"]))
        out["populate"].append((f"({cfg}, {pos}, {cbool(e['is_root'])}, {copt(ev)}, {copt(nz)}, "
                                f"({cq(e['v_zero'])}, {copt(kids)}, {copt(probs)}))",
                                {"position": c08.j_snap(e["pos"]), "is_root": e["is_root"], "v_zero": e["v_zero"],
                                 "n_children": None if e["children"] is None else len(e["children"]),
                                 "cat": ("terminal" if e["children"] is None else
                                         "root-with-noise" if e["noise"] is not None else
                                         "root" if e["is_root"] else
                                         "one-child" if len(e["children"]) == 1 else "expanded") + f":size{size}"}))
    for en in sample([x for x in trace["rec"].policy_log if x["stats"] is not None], 40):
        st = en["stats"]
        prior = None if en["prior"] is None else [float(x) for x in en["prior"].tolist()]
        kids = clist([f"({cq(v)}, {cz(s)})" for s, v in st["kids"]])
        call = en["call"]
        obs = None if call is None else f"({f64_bits(call['lam'])}, {cql([float(x) for x in call['q'].tolist()])})"
        out["policy"].append((f"({cq(st['v_zero'])}, {cz(st['N'])}, {copt(None if prior is None else cql(prior))}, "
                              f"(Some {kids}), {f64_bits(en['c'])}, {copt(obs)}, false)",
                              {"N": st["N"], "v_zero": st["v_zero"], "children_visits_value": st["kids"][:20], "c": en["c"],
                               "solver_called": call is not None,
                               "cat": ("asked-again:" if en.get("query") else "descent:") +
                                      ("children-unvisited" if all(k[0] == 0 for k in st["kids"]) else
                                       "children-all-visited" if all(k[0] > 0 for k in st["kids"]) else "children-mixed") +
                                      (":one-child" if len(st["kids"]) == 1 else "")}))
    return out


def volumes(run):
    if run.quick:
        return dict(count=14, sizes=[3, 4], max_budget=24, transformer=0, smash=(1, 0), near_terminal=((3, 3),), stacked=0)
    return dict(count=300, sizes=[3, 4, 3, 4, 5], max_budget=80, transformer=1, smash=(10, 2), near_terminal=((3, 20), (4, 10)),
                stacked=1)


QUICK_TARGET = {"update": 150, "policy": 150, "populate": 120, "search": 20}


def balanced(items, target):
    """at most `target` recorded calls, round-robin over the categories (terminal / expanded / root with noise / ...),
    the smaller literals first inside a category"""
    groups = {}
    for it in items:
        groups.setdefault(it[1]["cat"], []).append(it)
    for g in groups.values():
        g.sort(key=lambda it: len(it[0]))
    out, k = [], 0
    while len(out) < target and any(k < len(g) for g in groups.values()):
        for name in sorted(groups):
            if k < len(groups[name]) and len(out) < target:
                out.append(groups[name][k])
        k += 1
    return out


def correspondence(run):
    core.setup_impl(ext=True, shims=True)
    import torch
    from concurrent.futures import ThreadPoolExecutor
    torch.set_num_threads(1)
    fams = {"update": ("list (Q * Q * Z) * list (Q * Q * Z)", "updchk"),
            "policy": ("(Q * Z * option (list Q) * option (list (Q * Z))) * Z * option (Z * list Q) * bool", "ppchk"),
            "populate": ("(Q * option Q * Q) * position * bool * option (list Q * Q) * option (list Q) * "
                         "(Q * option (list (Z * list Z)) * option (list Q))", "popchk"),
            "search": ("(Z * Z) * (Z * Z) * position * list phase * list eval * onode", "searchchk")}
    # (a) the semantics library
    sem = sem_cases(run.rng, 350 if run.quick else 7000)
    cases = {"sem": core.Cases(ID, "sem", HEADER, "semcase", "semchk", shard=(60 if run.quick else 400))}
    for term, meta in sem:
        cases["sem"].add(term, meta)
    # (b) the generated functions on recorded calls
    specs = c08.gen_specs(run, **volumes(run))
    results = [r for r in c08.pmap(run_spec, specs) if not r["crash"]]
    cats = {}
    for fam, (ctype, chk) in fams.items():
        items = [(term, dict(meta, spec=res["spec"], function=fam)) for res in results for term, meta in res[fam]]
        if fam == "search" and run.quick:      # 5x5 / 6x6 histories only with a handful of simulations (cost grows with the id table)
            items = [it for it in items if it[1]["spec"]["size"] <= 4 or sum(it[1]["phases"]) <= 10]
        if run.quick:
            items = balanced(items, QUICK_TARGET[fam])
        cats[fam] = Counter(m["cat"] for _, m in items)
        shard = {"populate": (8 if run.quick else 25), "search": 2}.get(fam, 12 if run.quick else 60)
        cs = core.Cases(ID, fam, HEADER, ctype, chk, shard=shard)
        for term, meta in items:
            cs.add(term, meta)
        cases[fam] = cs
    with ThreadPoolExecutor(max_workers=5) as ex:      # the families side by side (each runs its shards in parallel)
        outs = dict(zip(cases, ex.map(lambda c: c.run(), cases.values())))
    failing, shard_fail, nshards = outs["sem"]
    run.oblige(f"correspondence:MctsSem.v against CPython / torch ({nshards} shards)", not shard_fail, str(shard_fail)[:1500])
    ops = Counter(m["op"] for _, m in sem)
    run.count(len(sem), len({t for t, _ in sem}),
              "one evaluation = one operation of model/MctsSem.v on random dyadic data compared with the interpreter / torch "
              "inside Coq; distinct by literal", [m for _, m in sem[:3]], dict(ops), label="semantics")
    for meta in failing[:5]:
        run.violation(f"sem-{meta['op']}-{abs(hash(str(meta))) % 10 ** 8}",
                      {"clause": "model/MctsSem.v disagrees with the interpreter (the trusted semantics is wrong, not the code)",
                       "input": meta}, found_input=False)
    for fam in fams:
        cs = cases[fam]
        failing, shard_fail, nshards = outs[fam]
        run.oblige(f"correspondence:gen/MctsGen.v {fam} against the implementation ({nshards} shards, {len(cs)} recorded calls)",
                   not shard_fail, str(shard_fail)[:1500])
        run.count(len(cs), len(set(cs.terms)),
                  (f"one evaluation = one recorded call of {fam} re-computed by the generated function inside Coq and "
                   "compared with what the implementation did (calls chosen round-robin over the categories shown); "
                   "distinct by literal") if fam != "search" else
                  ("one evaluation = one recorded history (evaluator answers, choices, noise) on which the regenerated "
                   "analyze_tree is evaluated inside Coq, phase by phase, and its final tree compared node for node with the "
                   "implementation's (visits, value, v_zero, moves, positions exact; child priors within 1e-5)"),
                  [{k: v for k, v in m.items() if k != "spec"} for m in cs.metas[:2]], dict(cats[fam]),
                  label=(fam if fam != "search" else "regenerated-search"))
        for meta in failing[:3]:
            run.violation(f"gen-{fam}-{c08.spec_key(meta['spec'])}",
                          {"clause": f"the function generated from the source ({fam}) and the implementation disagree on a "
                                     "recorded call: the translator or the semantics library is wrong",
                           "call": {k: v for k, v in meta.items() if k != "spec"}, "spec": meta["spec"]}, found_input=False)


def search(run, broken):
    """the translation or an equality proof broke: look for a concrete violation of C08 / C09 on the implementation"""
    core.setup_impl(ext=True, shims=True)
    found = False
    try:
        found = bool(c08.search(run, broken))
    except Exception:  # noqa
        pass
    if not found:
        try:
            found = bool(c09.search(run, broken))
        except Exception:  # noqa
            pass
    return found


def replay(run, rp):
    core.setup_impl(ext=True, shims=True)
    if rp.get("auditor_problems") is not None or rp.get("clause", "").startswith(("the model's replay", "children", "each child")):
        return c08.replay(run, rp)
    if rp.get("oracle_problems") is not None:
        return c09.replay(run, rp)
    if "spec" in rp:
        return c08.replay(run, rp)
    return {"violates": False, "note": "nothing to replay (a broken obligation without a concrete input)"}
