"""C03 - every legal move is generated exactly once and owns a move id; nothing else is playable.

Correspondence (DESIGN.md section 6, C03):
  gen    : Position.all_moves() compared with the model's all_moves AS A LIST (order included), in Coq;
  legal  : the set of moves the implementation accepts over the whole well-formed move universe of the size
           (an enumerator written here, independent of tak.moves; for sizes <= 6 also every entry of
           encoding.MOVES_BY_SIZE) compared in Coq with the model's `filter accepted (table n)`, plus the
           acceptance bit of every move of an ill-formed stream (off-board squares, zero/negative drops,
           over-long tuples, empty tuple, sum over the limit);
  oracle : on the implementation side, the property's own statement: every accepted canonical move is in
           all_moves() exactly once, is a well-formed move of the size and (sizes 3-6) an entry of
           MOVES_BY_SIZE[size]; everything all_moves() lists on sizes 3-6 is an entry of the table; no
           exception other than IllegalMove.  A hit is reported with (position, move) as the replay.
"""
import collections
import hashlib
import json
import time

from .. import core, takio
from ..core import cz, clist, cbool

ID = "C03"
THEOREMS = ["C03_gen_complete", "C03_gen_nodup", "C03_gen_count_once", "C03_gen_in_table",
            "C03_generated_owns_id", "C03_table_legal_exact", "C03_legal_owns_id",
            "C03_populate_reaches_all", "C03_legal_filter_same", "C03_slides_tie",
            "C03_generator_complete_rulebook", "C03_table_filter_is_rulebook",
            "C03_source_generator_complete", "C03_source_lists_are_model"]
MODEL_TARGETS = ["model/Tak.vo", "model/Harness.vo", "model/Lit.vo"]
TRUSTED_BASE = [
    "legal := exists p', move p m = Some p' (the executable rules of model/Tak.v; their equivalence with the rulebook relation is C01's theorem)",
    "CPython list indexing/slicing as used by Position.all_moves / move (validated by the correspondence)",
    "the harness's own enumerator of the move universe and its ill-formed stream (used to look for accepted moves outside the table)",
]
ASSUMPTIONS = [
    "positions explored: seeded random legal playouts on sizes 3-8 (standard and custom reserves) and constructed boards with tall mixed stacks",
    "ill-formed stream bounded: squares in [-size-1, 2*size], drops over {-2,-1,0,1,2,size,size+1}, tuples up to length size+1",
    "a placement carrying a stray drops tuple is accepted by the code with the tuple ignored; it is not canonical and is outside the statement",
]

HEADER = ("From Coq Require Import ZArith List Bool.\nFrom TV Require Import model.Tak model.Lit.\nImport ListNotations.\n"
          "Definition acc (p : position) (m : mv) : bool := match move p m with Some _ => true | None => false end.\n"
          "Fixpoint nodupb (l : list mv) : bool := match l with [] => true | a :: t => negb (existsb (mv_eqb a) t) && nodupb t end.\n")



class WeightedCases(core.Cases):
    """core.Cases with shards cut by weight instead of by count: Coq spends its time elaborating the
    literals (~3 000 moves/s), so a shard holds at most `budget` units of weight (one unit per move literal,
    plus what the check itself costs); heavy cases first so that the long shards start first."""

    def __init__(self, *a, budget=4000, **kw):
        super().__init__(*a, **kw)
        self.budget = budget
        self.weights = []

    def add(self, term, meta, weight=1):
        super().add(term, meta)
        self.weights.append(weight)

    def run(self, timeout=900):
        order = sorted(range(len(self.terms)), key=lambda i: -self.weights[i])
        groups, cur, w = [], [], 0
        for i in order:
            if cur and (w + self.weights[i] > self.budget or len(cur) >= self.shard):
                groups.append(cur)
                cur, w = [], 0
            cur.append(i)
            w += self.weights[i]
        if cur:
            groups.append(cur)
        failing, shard_fail = [], []
        subs = []
        for k, g in enumerate(groups):
            sub = core.Cases(self.prop_id, f"{self.name}{k:03d}", self.header, self.ctype, self.check, self.show, shard=len(g))
            for i in g:
                sub.add(self.terms[i], self.metas[i])
            subs.append(sub)
        from concurrent.futures import ThreadPoolExecutor
        d = core.BUILD / self.prop_id / "cases"
        if d.exists():
            for old in d.glob(f"{self.name}[0-9][0-9][0-9]_*"):
                old.unlink()
        with ThreadPoolExecutor(max_workers=core.NPROC) as ex:
            for f, sf, _ in ex.map(lambda s: s.run(timeout=timeout), subs):
                failing += f
                shard_fail += sf
        return failing, shard_fail, len(subs)


MAX_REPORT = 3      # replays written per clause and run
MAX_TOTAL = 9       # concrete (position, move) replays written per run


# --------------------------------------------------------------------------
# the move universe, written independently of tak.moves
# --------------------------------------------------------------------------
_DIRS = {"SLIDE_LEFT": (-1, 0), "SLIDE_RIGHT": (1, 0), "SLIDE_UP": (0, 1), "SLIDE_DOWN": (0, -1)}
_universe_cache = {}


def _comps(k, budget):
    """tuples of k positive integers with sum <= budget"""
    if k == 0:
        yield ()
        return
    for first in range(1, budget - (k - 1) + 1):
        for rest in _comps(k - 1, budget - first):
            yield (first,) + rest


def universe(n):
    """every well-formed move of an n x n board (C07's universe), from first principles"""
    if n in _universe_cache:
        return _universe_cache[n]
    import tak
    out = []
    for x in range(n):
        for y in range(n):
            for t in (tak.MoveType.PLACE_FLAT, tak.MoveType.PLACE_STANDING, tak.MoveType.PLACE_CAPSTONE):
                out.append(tak.Move(x, y, t))
            for name, (dx, dy) in _DIRS.items():
                t = tak.MoveType[name]
                steps = 0
                while 0 <= x + (steps + 1) * dx < n and 0 <= y + (steps + 1) * dy < n:
                    steps += 1
                for k in range(1, steps + 1):
                    for c in _comps(k, n):
                        out.append(tak.Move(x, y, t, c))
    _universe_cache[n] = out
    return out


def is_wf(n, m):
    """m is a well-formed move of size n (spec/MoveSpec.v wf_move, restated)"""
    if not (isinstance(m.x, int) and isinstance(m.y, int) and 0 <= m.x < n and 0 <= m.y < n):
        return False
    if not m.type.is_slide():
        return m.slides is None
    s = m.slides
    if s is None or len(s) == 0 or any(d < 1 for d in s) or sum(s) > n:
        return False
    dx, dy = _DIRS[m.type.name]
    return 0 <= m.x + len(s) * dx < n and 0 <= m.y + len(s) * dy < n


def is_canonical(m):
    return (m.slides is not None) if m.type.is_slide() else (m.slides is None)


def illformed(rng, p, k):
    """DESIGN C01's ill-formed stream for position p: off-board squares (incl. the ones Python's negative
    indexing would alias onto the board), zero / negative drops, over-long tuples, empty tuple, sum over
    the limit, and mutations of moves the generator lists.  Slides always carry a tuple (slides=None on a
    slide is a TypeError in the code, outside the property's domain)."""
    import tak
    n = p.size
    types = list(tak.MoveType)
    slides_t = [t for t in types if t.is_slide()]
    alphabet = [-2, -1, 0, 1, 2, n, n + 1]
    out = []
    # every placement on every off-board square of the window
    for x in range(-n - 1, 2 * n + 1):
        for y in range(-n - 1, 2 * n + 1):
            if 0 <= x < n and 0 <= y < n:
                continue
            out.append(tak.Move(x, y, tak.MoveType.PLACE_FLAT))
            if rng.random() < 0.15:
                out.append(tak.Move(x, y, rng.choice(types[1:3])))
            if rng.random() < 0.25:
                t = rng.choice(slides_t)
                out.append(tak.Move(x, y, t, tuple(rng.choice([1, 1, 2]) for _ in range(rng.randint(1, 2)))))
    # random ill-formed
    for _ in range(k):
        t = rng.choice(types)
        x, y = rng.randint(-n - 1, 2 * n), rng.randint(-n - 1, 2 * n)
        if rng.random() < 0.6:
            x, y = rng.randrange(n), rng.randrange(n)
        if t.is_slide():
            sl = tuple(rng.choice(alphabet) for _ in range(rng.randint(0, n + 1)))
        else:
            sl = None if rng.random() < 0.7 else tuple(rng.choice([1, 2]) for _ in range(rng.randint(0, 2)))
        out.append(tak.Move(x, y, t, sl))
    # mutations of what the generator lists (near misses)
    try:
        gen = [m for m in p.all_moves() if m.slides is not None]
    except Exception:  # noqa
        gen = []
    if gen:
        for _ in range(k):
            m = rng.choice(gen)
            s = list(m.slides)
            r = rng.random()
            if r < 0.25:
                s[rng.randrange(len(s))] = rng.choice([0, -1, -2])
            elif r < 0.45:
                s.insert(rng.randrange(len(s) + 1), 0)
            elif r < 0.6:
                s.append(rng.choice([1, 2, n]))
            elif r < 0.7:
                i = rng.randrange(len(s))
                s[i] += 1
                s.append(-1)
            elif r < 0.8:
                s = []
            else:
                # shift the origin by a multiple of the size (what y*size+x aliasing would confuse)
                out.append(tak.Move(m.x + rng.choice([-n, n]), m.y + rng.choice([0, 0, -1, 1]), m.type, m.slides))
                continue
            out.append(tak.Move(m.x, m.y, m.type, tuple(s)))
    # keep only what is NOT a well-formed move (those are covered exhaustively by the universe)
    seen, res = set(), []
    for m in out:
        if is_wf(n, m) or m in seen:
            continue
        seen.add(m)
        res.append(m)
    return res


# --------------------------------------------------------------------------
# positions
# --------------------------------------------------------------------------
def pos_key(p):
    h = hashlib.sha256(json.dumps(takio.j_pos(p), sort_keys=True).encode()).hexdigest()[:16]
    return f"{p.size}x{p.size}-ply{p.ply}-{h}"


def _legal(p):
    import tak
    out = []
    for m in p.all_moves():
        try:
            out.append((m, p.move(m)))
        except tak.IllegalMove:
            pass
    return out


def playout_positions(rng, size, cfg, max_ply, take):
    """positions of one seeded random legal playout (slides favoured so that stacks grow)"""
    import tak
    p = tak.Position.from_config(cfg)
    seen = [p]
    while p.ply < max_ply:
        if p.ply >= 2 and p.winner()[0] is not None:
            break
        leg = _legal(p)
        if not leg:
            break
        sl = [x for x in leg if x[0].type.is_slide()]
        multi = [x for x in sl if sum(x[0].slides) >= 2]
        r = rng.random()
        if multi and r < 0.35:
            m, q = rng.choice(multi)
        elif sl and r < 0.6:
            m, q = rng.choice(sl)
        else:
            m, q = rng.choice(leg)
        p = q
        seen.append(p)
    if len(seen) <= take:
        return seen
    # always keep the two opening plies sometimes, the end, and a spread
    idx = sorted(rng.sample(range(len(seen)), take))
    return [seen[i] for i in idx]


def constructed_position(rng, size):
    """a well-formed board with tall mixed-colour stacks, walls and capstones; reserves from a custom
    configuration that the board fits in (sometimes with nothing left of one kind)"""
    import tak
    C, K = tak.Color, tak.Kind
    ply = rng.choice([0, 1]) if rng.random() < 0.06 else rng.randint(2, 60)
    maxcaps = rng.choice([0, 1, 1, 2])
    caps_used = [0, 0]
    squares = []
    for _ in range(size * size):
        r = rng.random()
        if r < 0.35:
            squares.append([])
            continue
        h = 1 if r < 0.55 else rng.randint(2, size + 3)
        top_color = C(rng.randint(0, 1))
        kr = rng.random()
        kind = K.FLAT if kr < 0.6 else (K.STANDING if kr < 0.8 else K.CAPSTONE)
        if kind == K.CAPSTONE:
            if caps_used[top_color.value] >= maxcaps:
                kind = K.FLAT
            else:
                caps_used[top_color.value] += 1
        st = [tak.Piece.cached(top_color, kind)]
        for _ in range(h - 1):
            st.append(tak.Piece.cached(C(rng.randint(0, 1)), K.FLAT))
        squares.append(st)
    if rng.random() < 0.6:
        # plant a mover-controlled stack led by a capstone with a wall (or, less often, a capstone) a few
        # squares away along a free lane: the slides that end on it with a last drop of 1 flatten the wall,
        # every other way of reaching it is refused
        mover = C.WHITE if ply % 2 == 0 else C.BLACK
        for _try in range(8):
            x, y = rng.randrange(size), rng.randrange(size)
            dx, dy = rng.choice([(1, 0), (-1, 0), (0, 1), (0, -1)])
            dist = rng.randint(1, 3)
            tx, ty = x + dist * dx, y + dist * dy
            if not (0 <= tx < size and 0 <= ty < size):
                continue
            lane = [(x + i * dx) + (y + i * dy) * size for i in range(1, dist)]
            if any(squares[i] and squares[i][0].kind != K.FLAT for i in lane):
                continue
            h = rng.randint(1, size + 1)
            squares[x + y * size] = [tak.Piece.cached(mover, K.CAPSTONE)] + [tak.Piece.cached(C(rng.randint(0, 1)), K.FLAT) for _ in range(h - 1)]
            tk = K.STANDING if rng.random() < 0.85 else K.CAPSTONE
            tcol = C(rng.randint(0, 1))
            squares[tx + ty * size] = [tak.Piece.cached(tcol, tk)] + [tak.Piece.cached(C(rng.randint(0, 1)), K.FLAT) for _ in range(rng.randint(0, 2))]
            break
    stones = [sum(1 for sq in squares for x in sq if x.color.value == c and x.kind != K.CAPSTONE) for c in (0, 1)]
    caps_used = [sum(1 for sq in squares for x in sq if x.color.value == c and x.kind == K.CAPSTONE) for c in (0, 1)]
    pieces = max(stones) + rng.choice([0, 0, 1, 3, 10])
    capstones = max(max(caps_used), maxcaps if rng.random() < 0.5 else max(caps_used))
    cfg = tak.Config(size=size, pieces=pieces, capstones=capstones)
    return tak.Position.from_squares(cfg, squares, ply)


def positions(run, n_playout_games, per_game, n_constructed, sizes=(3, 4, 5, 6, 7, 8)):
    import tak
    rng = run.rng
    out, seen = [], set()

    def add(p, kind):
        k = pos_key(p)
        if k not in seen:
            seen.add(k)
            out.append((p, kind))

    for size in sizes:
        for g in range(n_playout_games):
            if g % 3 == 2:
                cfg = tak.Config(size=size, pieces=rng.randint(2, 12), capstones=rng.randint(0, 2))
                kind = "playout-custom"
            else:
                cfg = tak.Config(size=size)
                kind = "playout"
            for p in playout_positions(rng, size, cfg, max_ply=rng.choice([8, 20, 40, 70]), take=per_game):
                add(p, kind)
        # the lists of 7x7 / 8x8 boards full of tall stacks run to thousands of moves: half as many of those
        for _ in range(n_constructed if size <= 6 else (n_constructed + 1) // 2):
            add(constructed_position(rng, size), "constructed")
    return out


def nontrivial(p):
    """the mover controls a stack of height >= 2 (multi-piece slides exist) and it is past the opening"""
    tm = p.to_move()
    return p.ply >= 2 and any(len(sq) >= 2 and sq[0].color == tm for sq in p.board)


# --------------------------------------------------------------------------
# the property's own statement, on the implementation
# --------------------------------------------------------------------------
def try_move(p, m):
    import tak
    try:
        p.move(m)
        return "ok"
    except tak.IllegalMove:
        return "illegal"
    except Exception as e:  # noqa
        return "crash:" + type(e).__name__


def oracle(p, moves_wf, moves_ill, table_set):
    """returns (hits, accepted well-formed moves, [(ill-formed move, outcome)], stats).
    hits: list of (clause, move or None, detail)"""
    n = p.size
    hits = []
    try:
        gen = p.all_moves()
    except Exception as e:  # noqa
        return [("all_moves() raised " + type(e).__name__, None, repr(e))], [], [], {}
    cnt = collections.Counter(gen)
    accepted = []
    for m in moves_wf:
        r = try_move(p, m)
        if r == "ok":
            accepted.append(m)
            if cnt[m] != 1:
                hits.append(("legal move listed %d times by all_moves()" % cnt[m], m, ""))
            if table_set is not None and m not in table_set:
                hits.append(("legal move is not an entry of MOVES_BY_SIZE[%d]" % n, m, ""))
        elif r != "illegal":
            hits.append(("trying a table-shaped move raised %s instead of IllegalMove" % r[6:], m, ""))
    ill_out = []
    stray = 0
    for m in moves_ill:
        r = try_move(p, m)
        ill_out.append((m, r))
        if r == "ok":
            if not is_canonical(m):
                stray += 1          # placement with a stray tuple: same move as its canonical spelling
                continue
            # canonical, accepted, and not a well-formed move of the size: playable but outside the table
            hits.append(("accepted move outside the move universe of the size (not generated, owns no id)", m,
                         "listed %d times by all_moves()" % cnt[m]))
        elif r != "illegal":
            hits.append(("trying a move raised %s instead of IllegalMove" % r[6:], m, ""))
    if table_set is not None:
        for m in cnt:
            if m not in table_set:
                hits.append(("all_moves() lists a move that is not an entry of MOVES_BY_SIZE[%d]" % n, m, ""))
                break
    for m, c in cnt.items():
        if not is_wf(n, m):
            hits.append(("all_moves() lists a move outside the move universe of the size", m, ""))
            break
    return hits, accepted, ill_out, {"generated": len(gen), "legal": len(accepted), "stray_tuple_accepted": stray}


def _table_set(n):
    from tak.model import encoding
    if 3 <= n < len(encoding.MOVES_BY_SIZE):
        return set(encoding.MOVES_BY_SIZE[n])
    return None


def _wf_moves(n):
    """the universe of the size, plus (sizes the table exists for) every table entry"""
    from tak.model import encoding
    u = list(universe(n))
    if 3 <= n < len(encoding.MOVES_BY_SIZE):
        us = set(u)
        u += [m for m in encoding.MOVES_BY_SIZE[n] if m not in us]
    return u


def report(run, p, clause, m, detail, reported):
    short = clause.split(" (")[0]
    if reported[short] >= MAX_REPORT or sum(reported.values()) >= MAX_TOTAL:
        return
    reported[short] += 1
    mk = "none" if m is None else f"{m.x},{m.y},{m.type.name},{'-' if m.slides is None else '.'.join(map(str, m.slides))}"
    key = (short.replace(" ", "_") + "|" + pos_key(p) + "|" + mk)
    run.violation(key, {"clause": clause, "position": takio.j_pos(p),
                        "move": None if m is None else takio.j_move(m), "detail": detail,
                        "impl": {"all_moves_count": _safe(lambda: collections.Counter(p.all_moves())[m]) if m is not None else None,
                                 "move_outcome": None if m is None else try_move(p, m)}})


def _safe(f):
    try:
        return f()
    except Exception as e:  # noqa
        return repr(e)


# --------------------------------------------------------------------------
# correspondence
# --------------------------------------------------------------------------
def _volumes(run):
    if run.quick:
        #        games/size, positions/game, constructed/size, legal-set positions per size (3..8), ill-formed k
        return dict(games=6, per_game=6, constructed=14, legal_per_size={3: 60, 4: 40, 5: 24, 6: 12, 7: 4, 8: 3}, ill=60, ill_coq=100)
    # measured (seed 20260930, machine shared with other builds): ~1 900 positions, ~11 CPU-minutes in all
    return dict(games=30, per_game=8, constructed=100,
                legal_per_size={3: 300, 4: 200, 5: 120, 6: 60, 7: 20, 8: 12}, ill=120, ill_coq=150)


def correspondence(run):
    core.setup_impl()
    import tak  # noqa
    vol = _volumes(run)
    reported = collections.Counter()
    t0 = time.time()
    timing = {}
    ps = positions(run, vol["games"], vol["per_game"], vol["constructed"])
    timing["positions_s"] = round(time.time() - t0, 1)

    # ---- family gen: all_moves() as a list, order included
    cg = WeightedCases(ID, "gen", HEADER, "position * list mv",
                       "fun c => list_eqb mv_eqb (all_moves (fst c)) (snd c)",
                       show="fun c => all_moves (fst c)", shard=40, budget=3500)
    dist = collections.Counter()
    nz = 0
    gen_fail_impl = []
    for p, kind in ps:
        try:
            ms = p.all_moves()
        except Exception as e:  # noqa
            gen_fail_impl.append((p, e))
            continue
        cg.add(f"({takio.c_pos(p)}, {clist([takio.c_move(m) for m in ms])})", {"pos": takio.j_pos(p), "kind": kind, "n": len(ms)},
               weight=len(ms) + 2 * p.size * p.size)
        dist[f"size{p.size}:{kind}"] += 1
        nz += nontrivial(p)
    t1 = time.time()
    failing, shard_fail, nsh = cg.run()
    timing["coq_gen_s"] = round(time.time() - t1, 1)
    run.oblige(f"correspondence:gen ({nsh} shards, {len(cg)} positions)", not shard_fail and not failing,
               (str(shard_fail)[:1500] if shard_fail else f"{len(failing)} positions where all_moves() differs from the model's list"))
    run.count(len(cg), nz, "all_moves() of each position compared with the model's list, order included; distinct by position hash; "
              "non-trivial = past the opening and the mover controls a stack of height >= 2",
              [{"position": takio.j_pos(ps[len(ps) // 2][0]), "all_moves": len(ps[len(ps) // 2][0].all_moves())}],
              dict(dist), label="gen")
    for p, e in gen_fail_impl:
        report(run, p, "all_moves() raised " + type(e).__name__, None, repr(e), reported)
    gen_disagree = [takio.mk_pos(meta["pos"]) for meta in failing]

    # ---- family legal + oracle: the accepted set over the universe (+ table) and the ill-formed stream
    by_size = collections.defaultdict(list)
    for p, kind in ps:
        by_size[p.size].append((p, kind))
    chosen = []
    for n, lst in sorted(by_size.items()):
        want = vol["legal_per_size"].get(n, 0)
        cons = [x for x in lst if x[1] == "constructed"]
        play = [x for x in lst if x[1] != "constructed"]
        run.rng.shuffle(cons)
        run.rng.shuffle(play)
        # half constructed (tall stacks), half played, non-trivial ones first
        play.sort(key=lambda x: not nontrivial(x[0]))
        chosen += (cons[: want // 2] + play[: want - want // 2])
    chosen_keys = {pos_key(p) for p, _ in chosen}
    cl = WeightedCases(ID, "legal", HEADER, "position * list mv * list (mv * bool)",
                    "fun c => let '(p, a, ill) := c in let L := filter (acc p) (table (size p)) in "
                    "nodupb a && (Nat.eqb (length a) (length L)) && forallb (fun m => existsb (mv_eqb m) L) a && "
                    "forallb (fun mb => Bool.eqb (acc p (fst mb)) (snd mb)) ill",
                    show="fun c => let '(p, a, ill) := c in (filter (acc p) (table (size p)), "
                         "filter (fun mb => negb (Bool.eqb (acc p (fst mb)) (snd mb))) ill)", shard=20, budget=4000)
    evals = nzl = strays = 0
    ldist = collections.Counter()
    sample = []
    oracle_hits = {}
    t2 = time.time()
    # the implementation-side oracle runs on EVERY position; the chosen ones are also evaluated by the model
    for p, kind in ps:
        n = p.size
        wfm = _wf_moves(n)
        ill = illformed(run.rng, p, vol["ill"])
        hits, accepted, ill_out, st = oracle(p, wfm, ill, _table_set(n))
        evals += len(wfm) + len(ill)
        strays += st.get("stray_tuple_accepted", 0)
        nzl += nontrivial(p)
        for clause, m, detail in hits:
            report(run, p, clause, m, detail, reported)
        oracle_hits[pos_key(p)] = len(hits)
        if pos_key(p) not in chosen_keys:
            continue
        ldist[f"size{n}:{kind}"] += 1
        # to Coq: every accepted ill-formed move and a sample of the refused ones (all of them were tried above)
        ill_ok = [(m, r) for m, r in ill_out if r == "ok"]
        ill_no = [(m, r) for m, r in ill_out if r == "illegal"]
        if len(ill_no) > vol["ill_coq"]:
            ill_no = run.rng.sample(ill_no, vol["ill_coq"])
        illc = [f"({takio.c_move(m)}, {cbool(r == 'ok')})" for m, r in ill_ok + ill_no]
        cl.add(f"({takio.c_pos(p)}, {clist([takio.c_move(m) for m in accepted])}, {clist(illc)})",
               {"pos": takio.j_pos(p), "kind": kind, "legal": len(accepted), "ill": len(ill_out)},
               weight=len(accepted) + len(illc) + len(wfm) // 8)
        if len(sample) < 3 and nontrivial(p):
            sample.append({"position": takio.j_pos(p), "generated": st["generated"], "legal": st["legal"],
                           "universe": len(wfm), "illformed_tried": len(ill)})
    timing["oracle_s"] = round(time.time() - t2, 1)
    t3 = time.time()
    failing2, shard_fail2, nsh2 = cl.run()
    timing["coq_legal_s"] = round(time.time() - t3, 1)
    run.extra["timing"] = timing
    run.extra["positions_in_coq_legal_family"] = dict(ldist)
    run.oblige(f"correspondence:legal ({nsh2} shards, {len(cl)} positions)", not shard_fail2 and not failing2,
               (str(shard_fail2)[:1500] if shard_fail2 else f"{len(failing2)} positions whose accepted set differs from the model's legal set"))
    run.oblige(f"oracle ({len(ps)} positions): every accepted canonical move is generated once, is well-formed and (sizes 3-6) a table entry; "
               "generated moves are table entries; only IllegalMove is raised", not reported, str(dict(reported)))
    run.count(evals, nzl, "legal set by trying move() over the whole move universe of the size (own enumerator; + MOVES_BY_SIZE on 3-6) "
              "and the ill-formed stream; evaluations = (position, move) pairs; distinct_nontrivial = distinct positions "
              "past the opening where the mover controls a stack of height >= 2",
              sample, {f"size{n}": len(l) for n, l in sorted(by_size.items())}, label="legal")
    run.extra["stray_tuple_placements_accepted_and_skipped"] = strays
    run.extra["universe_sizes"] = {n: len(universe(n)) for n in sorted(by_size)}

    # ---- disagreements with the model that the oracle did not already turn into a (position, move) hit
    pinned = 0
    for meta in sorted(failing2, key=lambda mt: (mt["pos"]["size"], mt["legal"])):     # smallest boards first
        p = takio.mk_pos(meta["pos"])
        if oracle_hits.get(pos_key(p)) or pinned >= 3:
            continue
        pinned += 1
        bad = pinpoint(run, p, pinned)
        if not bad:
            run.violation("legal-set-differs|" + pos_key(p),
                          {"clause": "the set of moves the rules accept differs from the model's (proved) legal set",
                           "position": meta["pos"], "model_view": cl.model_view(cl.terms[cl.metas.index(meta)])}, found_input=True)
        for mm in bad[:MAX_REPORT]:
            m = takio.mk_move(mm["move"])
            clause = ("the rules accept a table-shaped move that the (proved) model of the rules refuses: the table entries accepted are not exactly the legal moves"
                      if mm["impl_accepts"] else
                      "the rules refuse a move that the (proved) model of the rules accepts: a legal move is not playable")
            report(run, p, clause, m, {"impl_accepts": mm["impl_accepts"]}, reported)
    run.extra["gen_list_disagreements"] = len(failing)
    for meta in sorted(failing, key=lambda mt: mt["pos"]["size"])[:40]:
        p = takio.mk_pos(meta["pos"])
        if oracle_hits.get(pos_key(p)) or sum(reported.values()) > 0 or len(run.violations) >= 3:
            continue
        # the lists differ but no legal move is missing / doubled / outside the table at this position
        key = "gen-list-differs|" + pos_key(p)
        run.violation(key, {"clause": "all_moves() differs from the model's list (order included); the oracle found no legal move "
                                      "missing, repeated or outside the table at this position",
                            "position": meta["pos"], "impl_all_moves": [takio.j_move(m) for m in p.all_moves()][:400],
                            "model_view": cg.model_view(cg.terms[cg.metas.index(meta)])}, found_input=False)


def pinpoint(run, p, k):
    """second stage for a position whose accepted set differs from the model's: one case per move, so that
    the failing indices name the moves (only indices are read back from Coq)"""
    n = p.size
    moves = _wf_moves(n) + illformed(run.rng, p, 80)
    cs = core.Cases(ID, f"pin{k}", HEADER + f"Definition thepos : position := {takio.c_pos(p)}.\n", "mv * bool",
                    "fun mb => Bool.eqb (acc thepos (fst mb)) (snd mb)", shard=4000)
    for m in moves:
        r = try_move(p, m)
        if r.startswith("crash"):
            continue
        cs.add(f"({takio.c_move(m)}, {cbool(r == 'ok')})", {"move": takio.j_move(m), "impl_accepts": r == "ok"})
    failing, shard_fail, _ = cs.run()
    return failing


# --------------------------------------------------------------------------
# search / replay
# --------------------------------------------------------------------------
def search(run, broken):
    """a proof, tie or shard broke but no concrete failing input was seen: run the oracle on fresh positions"""
    core.setup_impl()
    reported = collections.Counter()
    ps = positions(run, 10 if run.quick else 40, 8, 20 if run.quick else 80)
    budget = 120 if run.quick else 1500
    # small boards first (cheap universes), then the larger ones
    ps.sort(key=lambda x: x[0].size)
    small = [x for x in ps if x[0].size <= 6]
    big = [x for x in ps if x[0].size > 6]
    run.rng.shuffle(small)
    run.rng.shuffle(big)
    order = small[: budget * 3 // 4] + big[: budget // 4]
    for p, kind in order:
        hits, *_ = oracle(p, _wf_moves(p.size), illformed(run.rng, p, 80), _table_set(p.size))
        for clause, m, detail in hits:
            report(run, p, clause, m, detail, reported)
        if run.violations:
            return True
    return False


def replay(run, rp):
    """re-run the stored (position, move) on the current tree (oracle) and on the model (one case in Coq)"""
    core.setup_impl()
    p = takio.mk_pos(rp["position"])
    n = p.size
    if rp.get("move") is None:
        hits, *_ = oracle(p, _wf_moves(n), illformed(run.rng, p, 80), _table_set(n))
        ms = _safe(p.all_moves)
        agrees = None
        if isinstance(ms, list):
            cg = core.Cases(ID, "replaygen", HEADER, "position * list mv",
                            "fun c => list_eqb mv_eqb (all_moves (fst c)) (snd c)")
            cg.add(f"({takio.c_pos(p)}, {clist([takio.c_move(m) for m in ms])})", {})
            failing, shard_fail, _ = cg.run()
            agrees = not failing and not shard_fail
        return {"violates": bool(hits) or agrees is not True, "all_moves_list_equals_model": agrees,
                "hits": [(c, None if m is None else takio.j_move(m), d) for c, m, d in hits[:10]]}
    m = takio.mk_move(rp["move"])
    wf = [m] if is_wf(n, m) else []
    ill = [] if wf else [m]
    hits, accepted, ill_out, st = oracle(p, wf, ill, _table_set(n))
    hits = [h for h in hits if h[1] is None or h[1] == m]
    out = try_move(p, m)
    agrees = None
    if not out.startswith("crash"):
        cs = core.Cases(ID, "replaymove", HEADER, "position * mv * bool",
                        "fun c => let '(p, m, b) := c in Bool.eqb (acc p m) b")
        cs.add(f"({takio.c_pos(p)}, {takio.c_move(m)}, {cbool(out == 'ok')})", {})
        failing, shard_fail, _ = cs.run()
        agrees = not failing and not shard_fail
    return {"violates": bool(hits) or agrees is False, "move": takio.j_move(m), "outcome": out,
            "model_agrees_on_acceptance": agrees,
            "times_in_all_moves": _safe(lambda: collections.Counter(p.all_moves())[m]),
            "in_table": (None if _table_set(n) is None else m in _table_set(n)),
            "hits": [(c, takio.j_move(mm) if mm is not None else None, d) for c, mm, d in hits[:10]]}


def pregen(run):
    """regenerate gen/GameGen.v (the shallow embedding of game.py/moves.py/pieces.py) from the tree under test"""
    from . import c01gen
    return c01gen.pregen(run)
