"""C17 - served evaluations reach the right requester under any arrival schedule.

The REAL Server.worker_loop / Server.Evaluate (python/tak/model/server.py) run
on a virtual-time asyncio loop with an inline executor whose completions are
delivered by loop.call_later(latency).  Under the server sits a tiny torch
module whose row outputs are a hash of the row's own unmasked tokens (mirrored
by Server.ref_frow in Coq), so "computed from its own position" is checkable
bit for bit; a few runs use a real xformer Transformer.  Every schedule is sent
to Coq as the observed event list (Arrive / Timer / ModelDone, integer
microseconds) together with what the implementation did (batch compositions per
model call, responses in completion order); Coq replays model/Server.v on it.
GRPCNetwork.evaluate runs against a stub that serves from the same loop and
passes the reply through the EvaluateResponse stand-in."""
import asyncio
import copy
import concurrent.futures
import hashlib
import json
import selectors
import time

from .. import core, server_ir
from ..core import cz, clist, czlist

ID = "C17"
THEOREMS = ["C17_service_order_partial", "C17_answered_at_most_once_partial", "C17_answer_is_own_partial",
            "C17_no_loss_partial", "C17_quiescent_all_answered_partial", "C17_fifo_progress_partial",
            "C17_fifo_progress_tight_partial", "C17_in_batch_next_completion_partial", "C17_in_queue_second_completion_partial",
            "C17_batch_order_fifo_partial", "C17_batch_size_bound_partial", "C17_bytes_roundtrip",
            "C17_server_ir_denotes_model", "C17_gather_timeout_is_1ms"]
MODEL_TARGETS = ["gen/ServerIR.vo", "model/ServerDen.vo", "model/Server.vo", "model/Harness.vo"]
TRUSTED_BASE = [
    "harness/server_ir.py (fail-closed ast translator server.py/grpc.py -> gen/ServerIR.v); model/ServerDen.v recognises the loop "
    "structure Server.step interprets and reads capacity, threshold, timeout and pairing from it (a recogniser with parameter "
    "extraction, not a general semantics of Python coroutines)",
    "PARTIAL: the theorems cover every event sequence of the MODEL (model/Server.v); real thread scheduling, the gRPC "
    "transport and cancellation races are runtime behaviour outside it",
    "asyncio (CPython 3.12): Queue is FIFO, get/put wake exactly one waiter, callbacks run in timer order, wait_for restarts "
    "its timeout on every call (validated by the correspondence on a virtual-time SelectorEventLoop)",
    "virtual-time loop + inline executor of harness/props/c17.py; stand-ins for grpc / analysis_pb2 in shims/verif_shims",
    "the network is an abstract per-row function; padding invariance and row independence are C16's (hypothesis of "
    "C17_answer_is_own_partial, validated numerically here on a real Transformer within 1e-4)",
]
ASSUMPTIONS = [
    "ties are excluded by the generator: arrivals on a 100 us grid, never exactly 1 ms after the previous arrival; model "
    "completions land on odd multiples of 50 us (or have latency 0); asyncio orders equal deadlines by heap position",
    "the gather timeout (1 ms) is tied behaviourally: every Timer event must fall exactly on the model's deadline",
]

GRID = 100          # arrival grid, microseconds
TIE_GUARD = 50      # no two causally unrelated events closer than this
REF_K = 16
CHUNK = 1200        # words per Coq case when a real policy vector (4572 words) is compared

HEADER = ("From Coq Require Import ZArith List Bool.\nFrom TV Require Import model.Server.\nImport ListNotations.\n"
          "Definition beq (x y : Z * list Z) := (fst x =? fst y)%Z && zlist_eqb (snd x) (snd y).\n"
          "Definition aeq (x y : Z * (list Z * Z)) := (fst x =? fst y)%Z && zlist_eqb (fst (snd x)) (fst (snd y)) && (snd (snd x) =? snd (snd y))%Z.\n"
          "Definition R := mkReq.\nDefinition Ar i p t := Arrive (mkReq i p) t.\nDefinition Ti := Timer.\nDefinition Md := ModelDone.\nDefinition Wk := Wake.\n")
CTYPE = "list event * list Z * list (Z * list Z) * list (Z * (list Z * Z))"
CHECK = ("fun c => let '(evs, lats, bs, ans) := c in let st := run _ ref_frow evs in "
         "timely _ ref_frow lats evs && list_eqb_by beq (obs_batches st) bs && list_eqb_by aeq (obs_answers st) ans")
SHOW = ("fun c => let '(evs, lats, bs, ans) := c in let st := run _ ref_frow evs in "
        "(timely _ ref_frow lats evs, obs_batches st, map fst (obs_answers st), "
        "list_eqb_by beq (obs_batches st) bs, list_eqb_by aeq (obs_answers st) ans)")
# real Transformer runs: batch formation and completion order only (values are compared numerically in Python)
CTYPE_X = "list event * list Z * list (Z * list Z) * list Z"
CHECK_X = ("fun c => let '(evs, lats, bs, ids) := c in let st := run _ ref_frow evs in "
           "timely _ ref_frow lats evs && list_eqb_by beq (obs_batches st) bs && zlist_eqb (map fst (obs_answers st)) ids")
SHOW_X = ("fun c => let '(evs, lats, bs, ids) := c in let st := run _ ref_frow evs in "
          "(timely _ ref_frow lats evs, obs_batches st, map fst (obs_answers st))")
# schedules with cancelled callers: the model serves a cancelled request like any other, its answer is discarded
CTYPE_K = "list event * list Z * list (Z * list Z) * list (Z * (list Z * Z)) * list Z"
CHECK_K = ("fun c => let '(evs, lats, bs, ans, cs) := c in let st := run _ ref_frow evs in "
           "timely _ ref_frow lats evs && list_eqb_by beq (obs_batches st) bs && "
           "list_eqb_by aeq (filter (fun a => negb (existsb (Z.eqb (fst a)) cs)) (obs_answers st)) ans")
SHOW_K = ("fun c => let '(evs, lats, bs, ans, cs) := c in let st := run _ ref_frow evs in "
          "(timely _ ref_frow lats evs, obs_batches st, map fst (obs_answers st), cs)")
CTYPE_C = "list Z * list Z * list Z * Z * Z"
CHECK_C = ("fun c => let '(ws, bytes, cws, v, cv) := c in zlist_eqb (encode_words ws) bytes && "
           "match decode_bytes bytes with Some d => zlist_eqb d cws | None => false end && zlist_eqb cws ws && (v =? cv)%Z")
SHOW_C = "fun c => let '(ws, bytes, cws, v, cv) := c in (firstn 8 (encode_words ws), decode_bytes (firstn 8 bytes))"


# --------------------------------------------------------------------------
# translator tie
# --------------------------------------------------------------------------
def pregen(run):
    try:
        server_ir.regen(core.REPO)
    except Exception as e:
        # never leave a stale ServerIR.v behind: the proofs must not be re-checked against yesterday's code.
        # The stub has no denotation: the model falls back to the scraped constants (so the schedules still
        # run and can find a concrete failing input) and proofs/ServerTie.v:server_ir_denotes_model fails.
        core.write_if_changed(core.COQ / "gen" / "ServerIR.v", server_ir.stub_text(str(e).replace("*)", "* )")[:300]))
        raise
    run.oblige("translate:Server.worker_loop+run_model / Server.Evaluate / Server.queue / GRPCNetwork.evaluate "
               "-> gen/ServerIR.v", True)


# --------------------------------------------------------------------------
# virtual time
# --------------------------------------------------------------------------
class Quiescent(Exception):
    """nothing is ready and no timer is pending: the loop would sleep forever"""


class Runaway(Exception):
    pass


class _VSelector(selectors.DefaultSelector):
    def __init__(self, clock):
        super().__init__()
        self.clock = clock
        self.calls = 0

    def select(self, timeout=None):
        self.calls += 1
        if self.calls > 3_000_000 or self.clock[0] > 3600.0:
            raise Runaway()
        ev = super().select(0)
        if ev:
            return ev
        if timeout is None:
            raise Quiescent()
        if timeout > 0:
            self.clock[0] += timeout
        return ev


class VLoop(asyncio.SelectorEventLoop):
    def __init__(self):
        self.clock = [0.0]
        super().__init__(_VSelector(self.clock))

    def time(self):
        return self.clock[0]

    def now_us(self):
        return round(self.clock[0] * 1e6)


class VExecutor(concurrent.futures.ThreadPoolExecutor):
    """run_in_executor target: computes inline, completes after a virtual latency"""

    def __init__(self, loop, base_lats, log, lats_used):
        super().__init__(max_workers=1)
        self.loop, self.base, self.log, self.used, self.n = loop, base_lats, log, lats_used, 0

    def submit(self, fn, *a, **k):
        f = concurrent.futures.Future()
        now = self.loop.now_us()
        # a batch that starts at an instant at which nothing else happened was started by the gather timeout
        if not self.log or self.log[-1][-1] != now:
            self.log.append(("T", now))
        try:
            res = (True, fn(*a, **k))
        except BaseException as e:  # noqa
            res = (False, e)
        base = self.base[self.n % len(self.base)] if self.base else 0
        self.n += 1
        lat = 0 if base == 0 else base + ((TIE_GUARD - (now + base)) % GRID)
        self.used.append(lat)

        def done():
            self.log.append(("D", self.loop.now_us()))
            (f.set_result if res[0] else f.set_exception)(res[1])

        self.loop.call_later(lat * 1e-6, done)
        return f


# --------------------------------------------------------------------------
# the row model (mirror of Server.ref_frow)
# --------------------------------------------------------------------------
def py_ref(pos):
    h = 7
    for t in pos:
        h = (h * 31 + t + 1) % 65521
    j = h % 4
    s = (h // 4) % REF_K
    w = (127 - j) << 23
    probs = [w if ((i - s) % REF_K) < (1 << j) else 0 for i in range(REF_K)]
    val = (((h // 512) % 2) << 31) + ((127 - (h // 64) % 8) << 23)
    return probs, val


def _make_hash_model(torch, on_batch):
    class HashModel(torch.nn.Module):
        def forward(self, pos, mask):
            B, L = pos.shape
            h = torch.full((B,), 7, dtype=torch.long)
            for c in range(L):
                h = torch.where(mask[:, c], h, (h * 31 + pos[:, c] + 1) % 65521)
            on_batch(pos, mask)
            j = h % 4
            st = (h // 4) % REF_K
            ar = torch.arange(REF_K)[None, :]
            on = ((ar - st[:, None]) % REF_K) < (2 ** j)[:, None]
            logits = torch.where(on, 0.0, float("-inf"))
            vals = (1 - 2 * ((h // 512) % 2)).to(torch.float32) * torch.pow(2.0, -((h // 64) % 8).to(torch.float32))
            return {"moves": logits, "values": vals}

    return HashModel()


def _make_recording(torch, inner, on_batch, outs):
    class Recording(torch.nn.Module):
        def __init__(self):
            super().__init__()
            self.inner = inner

        def forward(self, pos, mask):
            on_batch(pos, mask)
            out = self.inner(pos, mask)
            outs.append(out)
            return out

    return Recording()


def make_transformer(seed=0):
    import torch
    import xformer
    from tak.model import heads
    torch.manual_seed(seed)
    cfg = xformer.Config(n_vocab=256, n_layer=2, d_model=32, d_head=8, n_ctx=128,
                         autoregressive_mask=False, output_head=heads.PolicyValue)
    m = xformer.Transformer(cfg)
    m.init_weights()
    m.eval()
    return m


def _log_worker_runs(server, loop, log):
    """Wake events: a successful get_nowait that does not continue a drain (W) or a completion (D) logged at
    this instant means that the worker, woken by a put, got to run.  Observation only."""
    q = server.queue
    orig = q.get_nowait

    def get_nowait():
        item = orig()
        now = loop.now_us()
        if not (log and log[-1][0] in ("W", "D") and log[-1][-1] == now):
            log.append(("W", now))
        return item

    q.get_nowait = get_nowait


# --------------------------------------------------------------------------
# running one schedule on the real server
# --------------------------------------------------------------------------
CANCEL_OFFSET = 25   # a caller is cancelled 25 us after it arrived: off the arrival grid (0) and the completion grid (50)


def run_schedule(arrivals, base_lats, model_kind="hash", transformer=None, cancels=()):
    """arrivals: [(id, t_us, [tokens])] with increasing t_us; cancels: ids whose Evaluate task is cancelled
    CANCEL_OFFSET us after it arrived (i.e. while it waits for its answer).  Returns the observation dict."""
    import numpy as np
    import torch
    from tak.model import server as srv
    from tak.proto import analysis_pb2

    loop = VLoop()
    asyncio.set_event_loop(loop)
    log, lats_used, batches, outs = [], [], [], []
    by_pos = {tuple(p): i for (i, _, p) in arrivals}

    def on_batch(pos, mask):
        rows = []
        for i in range(pos.shape[0]):
            real = tuple(pos[i][~mask[i]].tolist())
            # the real tokens must be a prefix of the row: the mask is a tail mask
            n = len(real)
            ok = bool((~mask[i][:n]).all()) and bool(mask[i][n:].all())
            rows.append(by_pos.get(real, -1) if ok else -2)
        batches.append((loop.now_us(), rows))

    if model_kind == "hash":
        model = _make_hash_model(torch, on_batch)
    else:
        model = _make_recording(torch, transformer, on_batch, outs)
    loop.set_default_executor(VExecutor(loop, base_lats, log, lats_used))
    server = srv.Server(model=model)
    _log_worker_runs(server, loop, log)
    answers, returned = [], {}
    state = {"left": len(arrivals), "worker_error": None}
    tasks, task_of, cancelled = [], {}, []

    async def client(i, pos):
        log.append(("A", i, loop.now_us()))
        try:
            resp = await server.Evaluate(analysis_pb2.EvaluateRequest(position=pos), None)
        except asyncio.CancelledError:
            if not state.get("tidying"):
                cancelled.append(i)
            raise
        returned[i] = returned.get(i, 0) + 1
        words = np.frombuffer(resp.move_probs_bytes, dtype=np.uint32).tolist()
        vbits = int(np.array([resp.value], dtype=np.float32).view(np.uint32)[0])
        answers.append({"id": i, "t": loop.now_us(), "words": words, "value_bits": vbits,
                        "value_exact": float(np.float32(resp.value)) == resp.value})
        state["left"] -= 1
        if state["left"] == 0:
            all_done.set()

    async def main():
        worker = asyncio.ensure_future(server.worker_loop())
        tasks.append(worker)
        # requests with the same arrival time are created by one callback, in id order: they enter Evaluate in
        # the same loop iteration, before a worker woken by the first of them gets to run
        groups = {}
        for (i, t, pos) in arrivals:
            groups.setdefault(t, []).append((i, pos))

        def start(group):
            for (i, pos) in group:
                task_of[i] = asyncio.ensure_future(client(i, list(pos)))
                tasks.append(task_of[i])

        for t in sorted(groups):
            loop.call_at(t * 1e-6, start, groups[t])
        when = {i: t for (i, t, _) in arrivals}
        for i in cancels:
            loop.call_at((when[i] + CANCEL_OFFSET) * 1e-6, lambda i=i: task_of[i].cancel())
        if cancels:
            # the answer of a cancelled caller is still computed: run until nothing is left to happen
            await asyncio.Event().wait()
        await all_done.wait()
        # let the loop drain what is scheduled at this instant, then stop
        await asyncio.sleep(0)

    end = "complete"
    all_done = asyncio.Event()
    try:
        loop.run_until_complete(main())
    except Quiescent:
        end = ("complete" if cancels and all(i in returned or i in cancelled for (i, _, _) in arrivals)
               else "quiescent-with-unanswered")
    except Runaway:
        end = "runaway"
    except BaseException as e:  # noqa
        end = "harness-exception:" + repr(e)[:200]
    for t in tasks:
        if t.done() and not t.cancelled() and t.exception() is not None:
            state["worker_error"] = repr(t.exception())[:300]
    if tasks and tasks[0].done() and tasks[0].cancelled():
        state["worker_error"] = "CancelledError() escaped worker_loop (the task ended cancelled)"
    # tidy up: cancel what is left (the worker never returns); these are not cancellations of the schedule
    state["tidying"] = True
    for t in tasks:
        if not t.done():
            t.cancel()
    try:
        loop.run_until_complete(asyncio.gather(*tasks, return_exceptions=True))
    except BaseException:  # noqa
        pass
    try:
        loop.close()
    except BaseException:  # noqa
        pass
    asyncio.set_event_loop(None)
    ids = [i for (i, _, _) in arrivals]
    obs = {
        "events": [list(e) for e in log],
        "lats": lats_used,
        "batches": [[s, rows] for (s, rows) in batches],
        "answers": answers,
        "unanswered": [i for i in ids if i not in returned and i not in cancelled],
        "cancelled": sorted(cancelled),
        "end": end,
        "worker_error": state["worker_error"],
    }
    if model_kind != "hash":
        obs["outs"] = outs
    return obs


def n_blocked(obs):
    """arrivals that found the queue full (80 requests arrived and not yet taken into any model call)"""
    n = arrived = 0
    for e in obs["events"]:
        if e[0] == "A":
            taken = sum(len(rows) for (s, rows) in obs["batches"] if s <= e[2])
            if arrived - taken >= 80:
                n += 1
            arrived += 1
    return n


def min_gap(obs):
    """smallest distance between two consecutive events that are not cause and effect (latency-0 completions)"""
    ev = obs["events"]
    g = None
    for a, b in zip(ev, ev[1:]):
        d = b[-1] - a[-1]
        # same instant by construction: a group of arrivals, the worker run they cause, a latency-0 completion
        if d == 0 and (b[0] in ("W", "D") or (a[0] == "A" and b[0] == "A")):
            continue
        g = d if g is None else min(g, d)
    return g


# --------------------------------------------------------------------------
# the property's own statement, executable (search oracle)
# --------------------------------------------------------------------------
def oracle(arrivals, obs, check_values=True):
    """-> list of violated clauses (empty = holds on this schedule)"""
    bad = []
    pos_of = {i: p for (i, _, p) in arrivals}
    n_ans = {}
    for a in obs["answers"]:
        n_ans[a["id"]] = n_ans.get(a["id"], 0) + 1
    in_batches = {}
    for (_, rows) in obs["batches"]:
        for r in rows:
            in_batches[r] = in_batches.get(r, 0) + 1
    if obs["unanswered"]:
        bad.append(f"unanswered at quiescence: requests {obs['unanswered'][:10]} ({obs['end']})")
    multi = [i for i, n in n_ans.items() if n != 1]
    if multi:
        bad.append(f"answered more than once: {multi[:10]}")
    stray = [r for r in in_batches if r < 0]
    if stray:
        bad.append("a model call contained a row that is not any request's position (or a non-tail mask)")
    twice = [r for r, n in in_batches.items() if r >= 0 and n != 1]
    if twice:
        bad.append(f"requests evaluated in more than one model call: {twice[:10]}")
    if check_values:
        wrong = []
        for a in obs["answers"]:
            w, v = py_ref(pos_of[a["id"]])
            if a["words"] != w or a["value_bits"] != v:
                wrong.append(a["id"])
        if wrong:
            bad.append(f"response is not the model's value on the request's own position: requests {wrong[:10]}")
    if obs["worker_error"]:
        bad.append("worker_loop died: " + obs["worker_error"])
    return bad


def xf_oracle(sched, obs, tf):
    """real Transformer under the server: the statement's oracle with the responses compared numerically
    (tolerance 1e-4) with local evaluation of each request's own position -> (violated clauses, worst difference)"""
    import numpy as np
    import torch
    bad = oracle(sched["arrivals"], obs, check_values=False)
    pos_of = {i: p for (i, _, p) in sched["arrivals"]}
    worst, off = 0.0, []
    with torch.inference_mode():
        for a in obs["answers"]:
            out = tf(torch.tensor([pos_of[a["id"]]], dtype=torch.long))
            lp = torch.softmax(out["moves"], dim=-1)[0].numpy()
            lv = float(out["values"][0])
            got = np.array(a["words"], dtype=np.uint32).view(np.float32)
            gv = float(np.array([a["value_bits"]], dtype=np.uint32).view(np.float32)[0])
            if got.shape != lp.shape:
                bad.append(f"request {a['id']}: policy vector of width {got.shape} instead of {lp.shape}")
                continue
            d = max(float(np.abs(got - lp).max()), abs(gv - lv))
            if d == d:
                worst = max(worst, d)
            if not d <= 1e-4:
                off.append((a["id"], d))
    if off:
        bad.append("served evaluation differs from local evaluation of the request's own position (same model) by more than 1e-4: "
                   + ", ".join(f"request {i}: {d:.3g}" for i, d in off[:6]) + (f" ... ({len(off)} requests)" if len(off) > 6 else ""))
    return bad, worst


# --------------------------------------------------------------------------
# schedule generator
# --------------------------------------------------------------------------
KINDS = ["burst", "trickle", "threshold8", "mixed", "backpressure", "window", "slow", "single"]


def _positions(rng, n):
    seen, out = set(), []
    while len(out) < n:
        L = rng.choice([1, 2, 3, 5, 8, 13, 21, 30, 40]) if rng.random() < 0.5 else rng.randint(1, 40)
        p = tuple(rng.choice([0, 0, rng.randint(1, 10), rng.randint(0, 255)]) for _ in range(L))
        if p in seen:
            continue
        seen.add(p)
        out.append(list(p))
    return out


def _trickle_gap(rng):
    r = rng.random()
    if r < 0.45:
        g = rng.choice([700, 800, 900, 1100, 1200, 1300])      # around the 1 ms gather timeout
    else:
        g = rng.randrange(200, 3001, GRID)
    return g if g != 1000 else 1100                               # exactly 1 ms after the previous arrival would be a tie


def gen_schedule(rng, kind, max_req):
    """-> {"kind", "arrivals": [[id, t_us, tokens]], "lats"}; arrivals with equal times form a group that enters
    Evaluate in one loop iteration, i.e. before the woken worker runs (ids give the order inside a group)"""
    t, groups = rng.randrange(GRID, 2000, GRID), []      # groups: [time, size]

    def total():
        return sum(n for _, n in groups)

    def burst(n, simultaneous=None):
        """n arrivals 100 us apart; with `simultaneous`, cut into groups that arrive at one instant each"""
        nonlocal t
        if simultaneous is None:
            simultaneous = rng.random() < 0.3
        while n > 0:
            g = rng.randint(1, n) if simultaneous and rng.random() < 0.7 else 1
            groups.append([t, g])
            n -= g
            t += GRID

    def trickle(n):
        nonlocal t
        for _ in range(n):
            groups.append([t, 1])
            t += _trickle_gap(rng)

    def pause():
        nonlocal t
        t += rng.choice([300, 900, 1100, 2500, 8000, 30000])

    if kind == "single":
        burst(1)
    elif kind == "burst":
        burst(rng.randint(1, min(200, max_req)))
    elif kind == "trickle":
        trickle(rng.randint(2, min(40, max_req)))
    elif kind == "threshold8":
        for _ in range(rng.randint(1, 4)):
            burst(rng.choice([7, 8, 8, 8, 9, 16]))
            pause()
    elif kind == "backpressure":
        burst(rng.randint(90, max(90, max_req)))
        pause()
        trickle(rng.randint(0, 6))
    elif kind == "slow":
        # one model call takes 1 s .. 60 s (free on the virtual clock): requests arrive during the slow call and
        # after it; they must all be answered once the model has answered
        burst(rng.randint(1, 12))
        t0 = t
        slow = rng.choice([1_000_000, 9_900_000, 10_100_000, 10_100_000, 60_000_000])
        during = sorted(rng.sample(range(t0 + 2000, t0 + slow, GRID), rng.randint(1, 14)))
        for x in during:
            groups.append([x, rng.choice([1, 1, 1, 2, 5])])
        t = max(t0 + slow, groups[-1][0]) + rng.choice([100, 2500, 40000, 1_000_000])
        if rng.random() < 0.8:
            trickle(rng.randint(1, 6))
        if rng.random() < 0.4:
            t += rng.choice([300, 5000])
            burst(rng.randint(2, 20))
    elif kind == "window":
        # k = 1..7 requests are picked up one by one (gaps below the 1 ms timeout), then a burst arrives inside
        # the gather window in ONE loop iteration: 80 are queued, the rest block in put, and the worker drains the
        # whole queue without suspending: a model call of k + 80 requests.  Variants: a burst that just fails to
        # fill the queue, a burst cut in two instants, later probes (trickle / second window) or none.
        for rep in range(rng.choice([1, 1, 1, 2])):
            k = rng.randint(1, 7)
            for _ in range(k):
                groups.append([t, 1])
                t += rng.choice([100, 200, 300, 500, 700, 900])
            t -= rng.choice([0, 0, 100])  # (the last gap is the distance to the burst)
            if groups and t <= groups[-1][0]:
                t = groups[-1][0] + GRID
            r = rng.random()
            n = (rng.randint(81 - k, max(81 - k, max_req)) if r < 0.7 else rng.randint(max(2, 74 - k), 80 - k) if r < 0.85
                 else rng.randint(2, 40))
            if rng.random() < 0.2 and n > 3:
                n1 = rng.randint(1, n - 1)
                groups.append([t, n1])
                t += GRID
                groups.append([t, n - n1])
            else:
                groups.append([t, n])
            t += GRID
            probe = rng.random()
            if probe < 0.35:
                pass
            elif probe < 0.7:
                pause()
                trickle(rng.randint(1, 5))
            else:
                t += rng.choice([100, 300, 2500])
                burst(rng.randint(1, 30))
            pause()
    else:
        while total() < max_req and (not groups or rng.random() < 0.75):
            c = rng.random()
            if c < 0.4:
                burst(rng.randint(1, 24))
            elif c < 0.8:
                trickle(rng.randint(1, 10))
            else:
                pause()
        while total() > max_req:
            if groups[-1][1] > total() - max_req:
                groups[-1][1] -= total() - max_req
            else:
                groups.pop()
    # latencies per model call, microseconds (multiples of the grid; 0 = completes at once)
    nl = rng.randint(1, 12)
    if kind == "slow":
        lats = [slow] + [rng.choice([0, 300, 2500, 20000]) for _ in range(rng.randint(2, 6))] + \
               ([rng.choice([1_000_000, 10_100_000])] if rng.random() < 0.3 else [])
    elif kind == "backpressure":
        lats = [rng.choice([8000, 15000, 30000, 50000])] + [rng.choice([0, 100, 500, 2000, 8000, 20000]) for _ in range(nl)]
    else:
        style = rng.random()
        pool = ([0, 100, 200, 400] if style < 0.3 else [0, 300, 900, 1100, 2500, 6000] if style < 0.7
                else [0, 5000, 12000, 30000, 50000])
        lats = [rng.choice(pool) if rng.random() < 0.8 else rng.randrange(0, 50001, GRID) for _ in range(nl)]
    # group times strictly increase and no group comes exactly 1 ms after the previous one (that would tie with
    # the gather timeout started by the previous arrival)
    times = []
    for x, _ in groups:
        while times and (x <= times[-1] or x - times[-1] == 1000):
            x += GRID
        times.append(x)
    flat = [tm for tm, (_, n) in zip(times, groups) for _ in range(n)]
    pos = _positions(rng, len(flat))
    return {"kind": kind, "arrivals": [[i, flat[i], pos[i]] for i in range(len(flat))], "lats": lats}


def schedule_stream(run, n, max_req, with_backpressure, max_burst=200):
    rng = run.rng
    fixed_first = (["single", "threshold8", "burst", "trickle", "mixed"] +
                   (["backpressure", "window", "window", "slow", "slow"] if with_backpressure else ["window", "slow"]))
    for k in range(n):
        if k < len(fixed_first):
            kind = fixed_first[k]
        else:
            r = rng.random()
            kind = ("mixed" if r < 0.32 else "trickle" if r < 0.50 else "burst" if r < 0.65 else "threshold8" if r < 0.78
                    else "window" if r < 0.86 else "slow" if r < 0.90 else "backpressure" if (r < 0.95 and with_backpressure)
                    else "single" if r < 0.97 else "mixed")
        big = kind == "backpressure" or (kind == "window" and with_backpressure)
        yield gen_schedule(rng, kind, max_burst if big else max_req)


# --------------------------------------------------------------------------
# Coq literals
# --------------------------------------------------------------------------
def c_events(sched, obs):
    pos_of = {i: p for (i, _, p) in sched["arrivals"]}
    out = []
    for e in obs["events"]:
        if e[0] == "A":
            out.append(f"Ar {cz(e[1])} {czlist(pos_of[e[1]])} {cz(e[2])}")
        elif e[0] == "T":
            out.append(f"Ti {cz(e[1])}")
        elif e[0] == "W":
            out.append(f"Wk {cz(e[1])}")
        else:
            out.append(f"Md {cz(e[1])}")
    return clist(out)


def c_batches(obs):
    return clist([f"({cz(s)}, {czlist(rows)})" for (s, rows) in obs["batches"]])


def c_case(sched, obs):
    ans = clist([f"({cz(a['id'])}, ({czlist(a['words'])}, {cz(a['value_bits'])}))" for a in obs["answers"]])
    return f"({c_events(sched, obs)}, {czlist(obs['lats'])}, {c_batches(obs)}, {ans})"


def c_case_k(sched, obs):
    ans = clist([f"({cz(a['id'])}, ({czlist(a['words'])}, {cz(a['value_bits'])}))" for a in obs["answers"]])
    return f"({c_events(sched, obs)}, {czlist(obs['lats'])}, {c_batches(obs)}, {ans}, {czlist(obs['cancelled'])})"


def c_case_x(sched, obs):
    return f"({c_events(sched, obs)}, {czlist(obs['lats'])}, {c_batches(obs)}, {czlist([a['id'] for a in obs['answers']])})"


def sched_key(sched):
    return hashlib.sha256(json.dumps(sched, sort_keys=True).encode()).hexdigest()[:12]


def _slim(obs):
    return {"events": obs["events"], "latencies_us": obs["lats"], "batches": obs["batches"],
            "answers": [{"id": a["id"], "t": a["t"], "words": a["words"], "value_bits": a["value_bits"]} for a in obs["answers"]],
            "unanswered": obs["unanswered"], "cancelled": obs.get("cancelled", []), "end": obs["end"],
            "worker_error": obs["worker_error"]}


def _group_sizes(sched):
    sizes = {}
    for (_, t, _) in sched["arrivals"]:
        sizes[t] = sizes.get(t, 0) + 1
    return list(sizes.values())


def _nontrivial(sched, obs):
    """a schedule exercises pairing when some model call holds >= 2 requests with different expected responses"""
    pos_of = {i: p for (i, _, p) in sched["arrivals"]}
    for (_, rows) in obs["batches"]:
        exp = {json.dumps(py_ref(pos_of[r])) for r in rows if r in pos_of}
        if len(exp) >= 2:
            return True
    return False


# --------------------------------------------------------------------------
# GRPCNetwork.evaluate through a stub that serves from the virtual loop
# --------------------------------------------------------------------------
def grpc_session(which, positions, transformer, lat):
    """one server + one GRPCNetwork client; evaluate the positions one after the other -> records"""
    import numpy as np
    import torch
    from tak.model import server as srv, grpc as tgrpc, encoding
    from tak import ptn
    out = []
    loop = VLoop()
    asyncio.set_event_loop(loop)
    log, used, seen, outs = [], [], [], []

    def on_batch(pos, mask):
        seen.append([pos[i][~mask[i]].tolist() for i in range(pos.shape[0])])

    served = None
    if which == "hash":
        model = _make_recording(torch, _make_hash_model(torch, lambda p, m: None), on_batch, outs)
    else:
        # the model as it is served: float32, or converted like TrainingRun does with Config.serve_dtype
        served = transformer if which == "transformer" else copy.deepcopy(transformer).to(HALF[which])
        model = _make_recording(torch, served, on_batch, outs)
    loop.set_default_executor(VExecutor(loop, [lat], log, used))
    server = srv.Server(model=model)
    worker = loop.create_task(server.worker_loop())
    net = tgrpc.GRPCNetwork("localhost", 5001)
    carrier = {}

    def Evaluate(request):
        carrier["request"] = list(request.position)
        resp = loop.run_until_complete(server.Evaluate(request, None))
        carrier["resp"] = resp
        return resp

    net.stub.Evaluate = Evaluate
    held = []     # (record, the tensor and value the caller received): looked at again after the client's last call
    for p in positions:
        enc = encoding.encode(p)
        rec = {"model": which, "tps": ptn.format_tps(p), "latency_us": lat, "encoded": list(enc)}
        try:
            probs, value = net.evaluate(p)
        except BaseException as e:  # noqa
            rec["error"] = repr(e)[:300]
            if worker.done() and not worker.cancelled() and worker.exception() is not None:
                rec["error"] = "worker_loop died: " + repr(worker.exception())[:300] + " (the request is never answered)"
            out.append(rec)
            break
        if served is not None:
            # local evaluation of the position with the SAME (converted) model, cast to float32
            with torch.inference_mode():
                lo = served(torch.tensor([enc], dtype=torch.long))
                lp = torch.softmax(lo["moves"], dim=-1)[0].to(torch.float32).numpy()
                lv = float(lo["values"][0].to(torch.float32))
            cp = probs.to(torch.float32).numpy() if hasattr(probs, "numpy") else None
            rec["expected_len"] = int(lp.shape[0])
            rec["client_len"] = None if cp is None else int(cp.shape[0])
            rec["max_diff_to_local"] = (None if cp is None or cp.shape != lp.shape
                                        else float(max(np.abs(cp - lp).max(), abs(float(value) - lv))))
        o = outs[-1]
        sw = torch.softmax(o["moves"], dim=-1).to(dtype=torch.float32).numpy()[-1]
        sv = o["values"].to(dtype=torch.float32).numpy()[-1]
        rec.update({
            "request_seen_by_stub": carrier["request"],
            "rows_seen_by_model": seen[-1],
            "server_words": sw.view(np.uint32).tolist(),
            "server_value_bits": int(np.array([sv], dtype=np.float32).view(np.uint32)[0]),
            "bytes": list(carrier["resp"].move_probs_bytes),
            "client_words": probs.numpy().view(np.uint32).tolist() if probs.dtype == torch.float32 else None,
            "client_dtype": str(probs.dtype),
            "client_value_bits": int(np.array([value], dtype=np.float32).view(np.uint32)[0]),
            "client_value_exact": float(np.float32(value)) == float(value),
        })
        held.append((rec, probs, value))
        out.append(rec)
    # the caller still holds every result: each must still be the policy vector of ITS position
    for k, (rec, probs, value) in enumerate(held):
        now = probs.numpy().view(np.uint32).tolist() if probs.dtype == torch.float32 else None
        vnow = int(np.array([value], dtype=np.float32).view(np.uint32)[0])
        if now != rec["client_words"] or vnow != rec["client_value_bits"]:
            later = [r for (r, pr, _) in held[k + 1:] if pr.numpy().view(np.uint32).tolist() == now] or [held[-1][0]]
            rec["overwritten"] = {"call": k, "position": rec["tps"], "by_call": out.index(later[0]), "by_position": later[0]["tps"],
                                  "held_words_head_then": (rec["client_words"] or [])[:6], "held_words_head_now": (now or [])[:6]}
    worker.cancel()
    try:
        loop.run_until_complete(asyncio.gather(worker, return_exceptions=True))
    except BaseException:  # noqa
        pass
    loop.close()
    asyncio.set_event_loop(None)
    return out


HALF = {}   # "bfloat16"/"float16" -> torch dtype, filled by half_dtypes()


def half_dtypes(transformer):
    """reduced-precision dtypes in which torch can run the model on this CPU -> (usable, {skipped: reason})"""
    import torch
    usable, skipped = [], {}
    for name in ("bfloat16", "float16"):
        HALF[name] = getattr(torch, name)
        try:
            with torch.inference_mode():
                m = copy.deepcopy(transformer).to(HALF[name])
                o = m(torch.tensor([[1, 2, 3, 0]], dtype=torch.long), torch.tensor([[False, False, False, True]]))
                torch.softmax(o["moves"], dim=-1).to(device="cpu", dtype=torch.float32).numpy()
            usable.append(name)
        except Exception as e:  # noqa
            skipped[name] = repr(e)[:200]
    return usable, skipped


def grpc_roundtrips(run, n_hash, n_xf, transformer, n_half=0):
    """GRPCNetwork.evaluate on played positions -> list of records"""
    import tak
    rng = run.rng
    out = []
    usable, skipped = half_dtypes(transformer) if n_half else ([], {})
    run.extra["served_half_precision"] = {"run": usable, "skipped (torch cannot run it on this CPU)": skipped}
    for which, n in [("hash", n_hash), ("transformer", n_xf)] + [(h, n_half) for h in usable]:
        positions = []
        for _ in range(n):
            p = tak.Position.from_config(tak.Config(size=rng.choice([3, 4, 5, 6])))
            for _ in range(rng.randint(0, 12)):
                ms = list(p.all_moves())
                rng.shuffle(ms)
                for m in ms:
                    try:
                        p = p.move(m)
                        break
                    except tak.IllegalMove:
                        continue
            positions.append(p)
        if positions:
            out += grpc_session(which, positions, transformer, rng.choice([0, 300, 2500]))
    return out


def grpc_py_check(r):
    """the part of the client round trip that needs no arithmetic: right position in, float32 out"""
    if "error" in r:
        return ["GRPCNetwork.evaluate raised " + r["error"]]
    bad = []
    if r.get("overwritten"):
        o = r["overwritten"]
        bad.append(f"grpc-result-overwritten: the policy vector returned for position '{o['position']}' (call {o['call']}) "
                   f"changed under the caller when the same client evaluated '{o['by_position']}' (call {o['by_call']})")
    if r["encoded"] != r["request_seen_by_stub"] or [r["encoded"]] != r["rows_seen_by_model"]:
        bad.append("the model call was not exactly one row equal to encoding.encode(pos)")
    if r["client_dtype"] != "torch.float32":
        bad.append("client tensor is not float32")
    if not r["client_value_exact"]:
        bad.append("client value is not a float32")
    if r["model"] == "hash":
        w, v = py_ref(r["encoded"])
        if r["client_words"] != w or r["client_value_bits"] != v:
            bad.append("client result is not the model's value on the position")
    else:
        tol = 1e-4 if r["model"] == "transformer" else 1e-2
        if r["client_len"] != r["expected_len"]:
            bad.append(f"client policy vector has {r['client_len']} entries instead of {r['expected_len']} (model served in {r['model']})")
        elif r["max_diff_to_local"] is None or not r["max_diff_to_local"] <= tol:
            bad.append(f"client (probs, value) differ from local evaluation of the same {r['model']} model by "
                       f"{r['max_diff_to_local']} (tolerance {tol})")
    return bad


def grpc_add_cases(r, small, big, meta):
    """Coq cases (CTYPE_C) of one record; long replies are compared slice by slice (encode_words is a flat_map)"""
    if "error" in r:
        return
    cw = r["client_words"] if r["client_words"] is not None else []
    sw, by = r["server_words"], r["bytes"]
    tail = f"{cz(r['server_value_bits'])}, {cz(r['client_value_bits'])})"
    if len(sw) <= CHUNK and len(by) <= 8 * CHUNK:
        small.add(f"({czlist(sw)}, {czlist(by)}, {czlist(cw)}, {tail}", meta)
    elif len(by) == 4 * len(sw) and len(cw) == len(sw):
        for k in range(0, len(sw), CHUNK):
            big.add(f"({czlist(sw[k:k + CHUNK])}, {czlist(by[4 * k:4 * (k + CHUNK)])}, {czlist(cw[k:k + CHUNK])}, {tail}", meta)
    else:   # the lengths do not even match: the head is enough to show it
        big.add(f"({czlist(sw[:CHUNK])}, {czlist(by[:4 * CHUNK + 4])}, {czlist(cw[:CHUNK + 1])}, {tail}", meta)


def _short(r):
    return {k: (v if not isinstance(v, list) or len(v) <= 80 else v[:80] + ["..."]) for k, v in r.items()}


# --------------------------------------------------------------------------
# correspondence
# --------------------------------------------------------------------------
def _fresh(run, key, family, cap=3):
    """report a schedule once, and at most `cap` schedules per family"""
    seen = run.extra.setdefault("reported", {})
    if key in seen or sum(1 for f in seen.values() if f == family) >= cap:
        return False
    seen[key] = family
    return True


def _report(run, cs, sched, obs, term, clauses, source):
    key = f"sched-{sched['kind']}-{sched_key(sched)}"
    if not _fresh(run, key, "cancel" if sched["kind"].startswith("cancel-") else "sched"):
        return
    view = cs.model_view(term) if cs is not None else None
    run.violation(key, {
        "clause": clauses or ["model/implementation disagreement on batch formation, timing or responses; the property's "
                              "own oracle holds on this schedule"],
        "source": source,
        "schedule": sched,
        "impl_observation": _slim(obs),
        "model_view (timely, batches, answer order, batches_equal, answers_equal)": view,
    }, found_input=bool(clauses))


def correspondence(run):
    core.setup_impl(shims=True)
    import numpy as np
    import torch
    torch.set_num_threads(1)
    quick = run.quick
    t_start = time.time()
    n_sched = 300 if quick else 2000
    max_req = 60 if quick else 150
    cs = core.Cases(ID, "sched", HEADER, CTYPE, CHECK, show=SHOW, shard=20 if quick else 15)
    scheds, dist, nontriv, n_req, n_batches, gaps, seen_keys = [], {}, 0, 0, 0, [], set()
    samples = []
    for sched in schedule_stream(run, n_sched, max_req, with_backpressure=True, max_burst=200 if quick else 400):
        obs = run_schedule(sched["arrivals"], sched["lats"])
        k = sched_key(sched)
        dist[sched["kind"]] = dist.get(sched["kind"], 0) + 1
        n_req += len(sched["arrivals"])
        n_batches += len(obs["batches"])
        g = min_gap(obs)
        if g is not None:
            gaps.append(g)
        if k not in seen_keys and _nontrivial(sched, obs):
            nontriv += 1
        seen_keys.add(k)
        term = c_case(sched, obs)
        cs.add(term, {"sched": sched, "obs": _slim(obs)})
        scheds.append((sched, obs, term))
        if len(samples) < 3 and sched["kind"] in ("threshold8", "trickle", "mixed") and len(sched["arrivals"]) <= 12:
            samples.append({"kind": sched["kind"], "arrivals_us": [a[1] for a in sched["arrivals"]],
                            "lengths": [len(a[2]) for a in sched["arrivals"]], "latencies_us": obs["lats"],
                            "batches": obs["batches"], "events": obs["events"][:40]})
    # the property's own statement on every schedule (cheap); a failure is a violation with a concrete schedule
    oracle_hits = 0
    for sched, obs, term in scheds:
        bad = oracle(sched["arrivals"], obs)
        if bad:
            oracle_hits += 1
            if True:
                _report(run, cs, sched, obs, term, bad, "oracle of the property statement on the implementation")
    t_impl = time.time() - t_start
    failing, shard_fail, nshards = cs.run()
    core.log(f"[C17] {len(scheds)} schedules: implementation {t_impl:.1f}s, Coq {time.time() - t_start - t_impl:.1f}s")
    run.oblige(f"correspondence:schedules ({nshards} shards)", not shard_fail, str(shard_fail)[:1500])
    tie_ok = (not gaps) or min(gaps) >= TIE_GUARD
    run.oblige("tie-guard: no two causally unrelated events within 50 us in any generated schedule", tie_ok or bool(failing) or oracle_hits > 0,
               f"min gap {min(gaps) if gaps else None}")
    nb = [n_blocked(o) for _, o, _ in scheds]
    dist.update({"requests": n_req, "model_calls": n_batches, "schedules_with_blocked_putters": sum(1 for x in nb if x),
                 "schedules_with_more_than_80_blocked": sum(1 for x in nb if x > 80), "arrivals_that_blocked": sum(nb),
                 "min_event_gap_us": min(gaps) if gaps else None,
                 "max_batch": max((len(r) for _, o, _ in scheds for _, r in o["batches"]), default=0),
                 "model_calls_larger_than_queue_depth": sum(1 for _, o, _ in scheds for _, r in o["batches"] if len(r) > 80),
                 "simultaneous_arrival_groups": sum(1 for s_, _, _ in scheds for n in _group_sizes(s_) if n > 1)})
    run.extra["max_batch"] = dist["max_batch"]
    run.count(len(scheds), nontriv,
              "schedules run on the real Server.worker_loop/Evaluate (virtual time) and replayed by the Coq model: event list, "
              "latencies, batch compositions with start times, responses in completion order all compared; non-trivial = "
              "distinct schedules in which some model call holds >= 2 requests with different expected responses",
              samples, dist, label="schedules")
    for meta in failing[:3]:
        sched = meta["sched"]
        idx = next(i for i, (s, _, _) in enumerate(scheds) if s is sched)
        _, obs, term = scheds[idx]
        bad = oracle(sched["arrivals"], obs)
        _report(run, cs, sched, obs, term, bad, "correspondence with model/Server.v evaluated in Coq")
    run.extra["failing_schedules"] = len(failing)
    run.extra["oracle_hits"] = oracle_hits

    # ---- a real Transformer under the server: batch formation via Coq, values numerically against local evaluation
    tf = make_transformer(run.seed % 1000)
    csx = core.Cases(ID, "xformer", HEADER, CTYPE_X, CHECK_X, show=SHOW_X, shard=10)
    n_x = 6 if quick else 40
    worst = 0.0
    xs = []
    for sched in schedule_stream(run, n_x, 24, with_backpressure=False):
        obs = run_schedule(sched["arrivals"], sched["lats"], model_kind="transformer", transformer=tf)
        term = c_case_x(sched, obs)
        csx.add(term, {"sched": sched, "obs": _slim_x(obs)})
        xs.append((sched, obs, term))
        bad, w = xf_oracle(sched, obs, tf)
        worst = max(worst, w)
        if bad:
            _report_x(run, sched, obs, bad)
    failing_x, shard_fail_x, nshx = csx.run()
    run.oblige(f"correspondence:real-transformer schedules ({nshx} shards)", not shard_fail_x, str(shard_fail_x)[:1500])
    run.count(len(xs), len(xs), "real xformer Transformer (2 layers, d_model 32, PolicyValue head) under the server: batch formation and "
              "completion order replayed in Coq; every response compared with local evaluation of the request's own position "
              f"(tolerance 1e-4; worst seen {worst:.2e})", [], {"worst_abs_diff": worst}, label="transformer")
    for meta in failing_x[:2]:
        sched = meta["sched"]
        idx = next(i for i, (s, _, _) in enumerate(xs) if s is sched)
        _, obs, term = xs[idx]
        if _fresh(run, f"xsched-{sched_key(sched)}", "xsched"):
            run.violation(f"xsched-{sched_key(sched)}", {"clause": ["batch formation / completion order differs from the model"],
                                                         "schedule": sched, "impl_observation": _slim_x(obs),
                                                         "model_view": csx.model_view(term)}, found_input=False)

    # ---- callers cancelled while they wait (outside the property's quantifier: evidence that the live requests
    # of the same batch still get their own answers; the cancelled request is served and its answer discarded)
    csk = core.Cases(ID, "cancel", HEADER, CTYPE_K, CHECK_K, show=SHOW_K, shard=10)
    ks, n_cancelled, n_shared, skipped_full = [], 0, 0, 0
    for sched in schedule_stream(run, 24 if quick else 200, 40, with_backpressure=False):
        # a caller cancelled while BLOCKED in queue.put never enters the queue (asyncio removes the putter), which
        # the model - it has no cancellation - cannot express: keep the family to schedules that cannot fill the queue
        if len(sched["arrivals"]) > 70:
            skipped_full += 1
            continue
        ids = [a[0] for a in sched["arrivals"]]
        sched["cancel"] = sorted(run.rng.sample(ids, min(len(ids), run.rng.randint(1, 3))))
        sched["kind"] = "cancel-" + sched["kind"]
        obs = run_schedule(sched["arrivals"], sched["lats"], cancels=sched["cancel"])
        term = c_case_k(sched, obs)
        csk.add(term, {"sched": sched, "obs": _slim(obs)})
        ks.append((sched, obs, term))
        n_cancelled += len(obs["cancelled"])
        n_shared += sum(1 for _, rows in obs["batches"] if set(rows) & set(obs["cancelled"]) and set(rows) - set(obs["cancelled"]))
        # the property's statement on the LIVE requests: a failure here is a violation
        bad = oracle(sched["arrivals"], obs)
        if bad:
            _report(run, csk, sched, obs, term, bad, "oracle on a schedule with cancelled callers (live requests)")
    failing_k, shard_fail_k, nshk = csk.run()
    # cancellation is outside the property's quantifier: a model/implementation disagreement on which the oracle
    # holds is evidence only - neither a broken obligation nor a violation
    disagreements = [{"schedule_key": sched_key(m["sched"]), "kind": m["sched"]["kind"], "cancel": m["sched"]["cancel"],
                      "arrivals": len(m["sched"]["arrivals"])} for m in failing_k
                     if not oracle(m["sched"]["arrivals"], next(o for s_, o, _ in ks if s_ is m["sched"]))]
    disagreements += [{"shard_failed": sf["shard"], "error": sf["error"][:300]} for sf in shard_fail_k]
    run.extra["cancel_family_disagreements"] = disagreements
    run.extra["cancel_family_skipped_queue_could_fill"] = skipped_full
    run.count(len(ks), n_shared, "EVIDENCE ONLY (cancellation is outside the property's quantifier): schedules in which 1-3 callers are "
              "cancelled 25 us after arriving, at most 70 requests so that nobody is cancelled while blocked in put; the oracle on the "
              "live requests is enforced, agreement with the model is recorded (cancel_family_disagreements); non-trivial = model calls "
              "holding a cancelled and a live request", [],
              {"cancelled_callers": n_cancelled, "mixed_model_calls": n_shared, "disagreements_with_model": len(disagreements)},
              label="cancel")

    # ---- GRPCNetwork.evaluate: float32 words -> bytes -> tensor, bit for bit
    recs = grpc_roundtrips(run, 40 if quick else 300, 3 if quick else 12, tf, n_half=3 if quick else 8)
    csc = core.Cases(ID, "codec", HEADER, CTYPE_C, CHECK_C, show=SHOW_C, shard=20)
    # replies of the real Transformer (4572 words + 18288 bytes each) are cut into slices of CHUNK words
    cscx = core.Cases(ID, "codecx", HEADER, CTYPE_C, CHECK_C, show=SHOW_C, shard=2)
    distinct = set()
    for r in recs:
        grpc_add_cases(r, csc, cscx, {"rec": r})
        distinct.add(hashlib.sha256(json.dumps(r.get("server_words")).encode()).hexdigest())
        py_bad = grpc_py_check(r)
        key = ("grpc-result-overwritten-" if r.get("overwritten") else "grpc-") + \
            hashlib.sha256(json.dumps([r["model"], r["tps"]]).encode()).hexdigest()[:10]
        if py_bad and _fresh(run, key, "grpc"):
            run.violation(key, {"clause": py_bad, "record": _short(r)})
    failing_c, shard_fail_c, nshc = csc.run()
    fx, sfx, nx = cscx.run()
    failing_c, shard_fail_c, nshc = failing_c + fx, shard_fail_c + sfx, nshc + nx
    run.oblige(f"correspondence:GRPCNetwork.evaluate codec ({nshc} shards)", not shard_fail_c, str(shard_fail_c)[:1500])
    run.count(len(recs), len(distinct), "GRPCNetwork.evaluate on played positions through a stub that serves from the virtual loop: "
              "bytes = encode_words(server words), client words = decode_bytes(bytes) = server words, value bits equal (in Coq); "
              "the model call is one row equal to encoding.encode(pos) (Python); non-trivial = distinct policy vectors",
              [{"tps": recs[0]["tps"], "encoded": recs[0]["encoded"], "bytes_head": recs[0].get("bytes", [])[:16],
                "client_words_head": (recs[0].get("client_words") or [])[:4]}] if recs else [],
              {m: sum(1 for r in recs if r["model"] == m) for m in sorted({r["model"] for r in recs})},
              label="codec")
    for meta in failing_c:
        r = meta["rec"]
        key = "grpc-" + hashlib.sha256(json.dumps([r["model"], r["tps"]]).encode()).hexdigest()[:10]
        if _fresh(run, key, "grpc"):
            run.violation(key, {"clause": ["the client does not turn the served reply back into the same policy vector / value "
                                           "(float32 words -> little-endian bytes -> words)"], "record": _short(r)})


def _slim_x(obs):
    # (responses of the real Transformer are 4572 words each: keep the head only)
    d = _slim(obs)
    for a in d["answers"]:
        a["words"] = a["words"][:4] + ["..."]
    return d


def _report_x(run, sched, obs, bad):
    if not _fresh(run, f"xsched-{sched_key(sched)}", "xsched"):
        return
    run.violation(f"xsched-{sched_key(sched)}", {"clause": bad, "source": "real Transformer under the server vs local evaluation",
                                                 "schedule": sched, "impl_observation": _slim_x(obs)})


# --------------------------------------------------------------------------
# search / replay
# --------------------------------------------------------------------------
def search(run, broken):
    """a proof, the model build or a shard broke without a concrete disagreement: test the statement itself"""
    core.setup_impl(shims=True)
    n = 300 if run.quick else 2000
    for sched in schedule_stream(run, n, 60 if run.quick else 300, with_backpressure=True):
        obs = run_schedule(sched["arrivals"], sched["lats"])
        bad = oracle(sched["arrivals"], obs)
        if bad:
            _report(run, None, sched, obs, None, bad, "search: oracle of the property statement on the implementation")
            return True
    return False


def replay(run, rp):
    core.setup_impl(shims=True)
    if "record" in rp:
        import tak
        from tak import ptn
        r0 = rp["record"]
        p = ptn.parse_tps(r0["tps"])
        tf = make_transformer(int(rp.get("seed", run.seed)) % 1000) if r0["model"] != "hash" else None
        if r0["model"] in ("bfloat16", "float16"):
            half_dtypes(tf)
        # the same client/server pair serves an empty board, then the recorded position twice (stale replies show up)
        seq = [tak.Position.from_config(tak.Config(size=p.size)), p, p]
        if r0.get("overwritten"):
            seq = [p, ptn.parse_tps(r0["overwritten"]["by_position"]), tak.Position.from_config(tak.Config(size=p.size))]
        recs = grpc_session(r0["model"], seq, tf, r0.get("latency_us", 300))
        small = core.Cases(ID, "replay", HEADER, CTYPE_C, CHECK_C, show=SHOW_C, shard=4)
        bad = []
        for r in recs:
            bad += grpc_py_check(r)
            grpc_add_cases(r, small, small, {})
        failing, shard_fail, _ = small.run() if len(small) else ([], [], 0)
        return {"violates": bool(bad or failing or shard_fail), "python_checks": bad, "codec_agrees_with_model": not (failing or shard_fail),
                "records": [_short(r) for r in recs]}
    if "schedule" not in rp:
        return {"violates": False, "note": "replay file holds no schedule (broken obligation without a failing input)",
                "broken": rp.get("broken_obligations")}
    sched = rp["schedule"]
    if str(rp.get("key", "")).startswith("xsched"):
        tf = make_transformer(int(rp.get("seed", run.seed)) % 1000)
        obs = run_schedule(sched["arrivals"], sched["lats"], model_kind="transformer", transformer=tf)
        bad, _ = xf_oracle(sched, obs, tf)
        cs = core.Cases(ID, "replay", HEADER, CTYPE_X, CHECK_X, show=SHOW_X, shard=1)
        term = c_case_x(sched, obs)
    else:
        obs = run_schedule(sched["arrivals"], sched["lats"], cancels=sched.get("cancel", ()))
        bad = oracle(sched["arrivals"], obs)
        if sched.get("cancel"):
            cs = core.Cases(ID, "replay", HEADER, CTYPE_K, CHECK_K, show=SHOW_K, shard=1)
            term = c_case_k(sched, obs)
        else:
            cs = core.Cases(ID, "replay", HEADER, CTYPE, CHECK, show=SHOW, shard=1)
            term = c_case(sched, obs)
    cs.add(term, {})
    failing, shard_fail, _ = cs.run()
    return {"violates": bool(bad or failing or shard_fail), "oracle": bad, "model_agrees": not (failing or shard_fail),
            "model_view": cs.model_view(term) if (failing or shard_fail) else None,
            "impl_observation": _slim(obs) if len(obs["events"]) < 200 else {"batches": obs["batches"], "unanswered": obs["unanswered"], "end": obs["end"]}}
