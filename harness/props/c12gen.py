"""Translator hook only: regenerates coq/gen/BatchGen.v (the shallow embedding of trainer.dedup_batch and
self_play.encode_games written against model/TorchLite.v and model/PySem.v) from the tree under test.  The theorems
about it are props/T12.v (harness/props/t12.py)."""
import hashlib

from .. import core, torch2coq


def pregen(run):
    text, err = torch2coq.translate(core.REPO / "python")
    core.write_if_changed(core.COQ / "gen" / "BatchGen.v", text)
    run.oblige("translate:tak/alphazero/trainer.py:dedup_batch, tak/self_play.py:encode_games -> gen/BatchGen.v "
               "(shallow embedding over TorchLite.v / PySem.v)", err is None, err or "")
    run.extra["BatchGen_sha256"] = hashlib.sha256(text.encode()).hexdigest()[:16]
    return err
