"""Translator hook only: regenerates coq/gen/MctsGen.v (the shallow embedding of MCTS.update, Node.policy_probs and
the pure part of MCTS.populate written against model/PySem.v and model/MctsSem.v) from the tree under test.  The
theorems about it are props/T08.v (harness/props/t08.py)."""
import hashlib

from .. import core, mcts2coq


def pregen(run):
    text, err = mcts2coq.translate(core.REPO / "python")
    core.write_if_changed(core.COQ / "gen" / "MctsGen.v", text)
    run.oblige("translate:tak/mcts.py:MCTS.update, Node.policy_probs, MCTS.populate -> gen/MctsGen.v "
               "(shallow embedding over PySem.v / MctsSem.v)", err is None, err or "")
    run.extra["MctsGen_sha256"] = hashlib.sha256(text.encode()).hexdigest()[:16]
    return err
