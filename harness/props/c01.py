"""C01 - applying a move follows the rules of Tak exactly, or the move is refused.

Theorems (props/C01.v): the executable model `move` equals the rulebook relation `legal_step` (spec/Rules.v)
in both directions on every well-formed position and every move value.  Tie: G (directions / enum values /
default counts, proofs/TieGame.v via gen/Consts.v) + D below: the implementation is run on (position, move)
pairs and its observed outcome - successor, IllegalMove, or any other exception - is compared inside Coq with
`move` of model/Tak.v.  An exception other than IllegalMove can never match the model (third constructor)."""
import json
import re

from .. import core, takio
from ..core import clist
from . import _wpa

ID = "C01"
THEOREMS = ["C01_move_sound", "C01_move_complete", "C01_legal_step_functional", "C01_move_iff", "C01_move_total",
            "C01_source_move_iff", "C01_source_move_total", "C01_source_move_never_crashes", "C01_source_is_model"]
MODEL_TARGETS = ["model/Tak.vo", "model/Harness.vo", "model/Lit.vo"]
TRUSTED_BASE = [
    "CPython list / slice / negative-index semantics as used by Position.move (validated by the correspondence, "
    "incl. the off-board and non-positive-drop stream)",
    "attrs.evolve builds a new Position from the delta (the successor is read back field by field)",
]
ASSUMPTIONS = [
    "domain: a slide always carries a tuple of integers (slides=None on a slide type is outside the property's domain "
    "and is not generated); a placement's slides field is ignored by code, model and specification",
    "positions: well-formed (size 3..8, size^2 squares, only tops may be walls/capstones); reserves arbitrary",
]

HEADER = ("From Coq Require Import ZArith List Bool.\nFrom TV Require Import model.Tak model.Lit.\n"
          "Import ListNotations.")
CTYPE = "position * list (mv * option (option position))"
CHK1 = ("(fun (p : position) (mo : mv * option (option position)) => match snd mo with "
        "Some r => opt_eqb position_eqb (move p (fst mo)) r | None => false end)")
CHECK = f"fun c => let '(p, l) := c in forallb ({CHK1} p) l"
SHOW_IDX = f"fun c => let '(p, l) := c in bad_indices ({CHK1} p) l"
SHOW_RES = f"fun c => let '(p, l) := c in map (fun mo => move p (fst mo)) (filter (fun mo => negb ({CHK1} p mo)) l)"
CHUNK = 120      # moves per case
SHARD = 12       # cases per file
MAX_REPORTS = 12


# --------------------------------------------------------------------------
# inputs
# --------------------------------------------------------------------------
def _corpus(tak):
    """minimised past disagreements (the F1 inputs of DESIGN.md section 7) + corpus/C01-*.json"""
    out = []
    C, K, P, T = tak.Color, tak.Kind, tak.Piece, tak.MoveType
    start3 = tak.Position.from_config(tak.Config(size=3))
    for m in (tak.Move(-1, 0), tak.Move(3, 0), tak.Move(0, 3), tak.Move(0, -3), tak.Move(-3, -3)):
        out.append((start3, m))
    for wall in (False, True):
        sqs = [[] for _ in range(25)]
        sqs[2 * 5 + 2] = [P.cached(C.WHITE, K.FLAT)] + [P.cached(C.BLACK, K.FLAT)] * 3
        if wall:
            sqs[2 * 5 + 4] = [P.cached(C.BLACK, K.STANDING)]
        p = tak.Position.from_squares(tak.Config(size=5), sqs, 8)
        for t, d in ((T.SLIDE_RIGHT, (2, 0)), (T.SLIDE_RIGHT, (0, 2)), (T.SLIDE_LEFT, (3, -1)), (T.SLIDE_LEFT, (-1, 3)),
                     (T.SLIDE_RIGHT, (1, 1)), (T.SLIDE_RIGHT, ()), (T.SLIDE_UP, (4,)), (T.SLIDE_UP, (1, 1, 1))):
            out.append((p, tak.Move(2, 2, t, d)))
    for f in sorted((core.VERIF / "corpus").glob("C01-*.json")):
        try:
            for e in json.loads(f.read_text()):
                out.append((takio.mk_pos(e["position"]), takio.mk_move(e["move"])))
        except Exception as e:  # noqa
            core.log(f"[C01] corpus file {f.name} unreadable: {e!r}")
    return out


def gen_positions(run, tak):
    """(label, position) list: BFS closure of 3x3, seeded random legal playouts on 3..8 (standard and custom
    piece sets), constructed well-formed boards"""
    rng = run.rng
    q = run.quick
    out = []
    # (a) BFS closure of the 3x3 game, deduplicated by canonical hash
    table3 = tak.moves.all_moves_for_size(3)
    depth = 4 if q else 5
    levels, _ = _wpa.bfs_levels(tak, tak.Config(size=3), depth, table3, limit=None if q else 100000)
    per_level = [1, 3, 6, 14, 22] if q else [1, 9, 72, 150, 180, 190]
    nbfs = 0
    for d, lv in enumerate(levels):
        lv = list(lv)
        rng.shuffle(lv)
        for p in lv[:per_level[min(d, len(per_level) - 1)]]:
            out.append((f"bfs3-d{d}", p))
            nbfs += 1
    run.extra["bfs3_levels"] = [len(lv) for lv in levels]
    # (b) seeded random legal playouts, sizes 3..8, standard and custom (pieces, capstones)
    std, custom = _wpa.configs(tak)
    games = (std + custom) if q else (std + custom) * 5
    take = 3 if q else 5
    for cfg in games:
        ps, _ = _wpa.playout(tak, rng, cfg, max_plies=rng.choice([12, 30, 60]) if q else rng.choice([20, 60, 150]),
                             stop_at_end=rng.random() < 0.7, slide_bias=rng.choice([0.3, 0.6]))
        idx = list(range(len(ps)))
        rng.shuffle(idx)
        for i in sorted(idx[:take]):
            out.append((f"playout-{cfg.size}-{cfg.pieces}-{cfg.capstones}", ps[i]))
    # (c) constructed well-formed boards
    for n in range(3, 9):
        for _ in range(7 if q else 20):
            out.append((f"constructed-{n}", _wpa.constructed(tak, rng, n)))
    return out


_tables = {}


def _table(tak, n):
    if n not in _tables:
        t = tak.moves.all_moves_for_size(n)
        by_sq = {}
        for m in t:
            by_sq.setdefault((m.x, m.y), []).append(m)
        _tables[n] = (t, by_sq)
    return _tables[n]


def gen_moves(run, tak, p):
    """whole table of the size where it is small (<= 496), else a sample of the table plus every table move from
    occupied squares (capped in the quick tier); plus the ill-formed stream"""
    rng = run.rng
    n = p.size
    table, by_sq = _table(tak, n)
    if len(table) <= 496:
        ms = list(table)
    else:
        ms = rng.sample(table, 120 if run.quick else 300)
        ms += _wpa.moves_from_occupied(tak, p, by_sq, rng, cap=350 if run.quick else 1200)
    ms += _wpa.illformed_moves(tak, rng, p, 250 if run.quick else 400)
    # dedup, keep order
    seen, out = set(), []
    for m in ms:
        k = _wpa.canon_move(m)
        if k not in seen:
            seen.add(k)
            out.append(m)
    return out


# --------------------------------------------------------------------------
# cases
# --------------------------------------------------------------------------
def _obs_term(kind, q):
    if kind == "ok":
        return f"(Some (Some {takio.c_pos(q)}))"
    if kind == "illegal":
        return "(Some None)"
    return "None"


def _classify(p, m, kind, q):
    n = p.size
    on = 0 <= m.x < n and 0 <= m.y < n
    if kind == "crash":
        return "crash", True
    if kind == "ok":
        if m.type.is_slide():
            k = sum(m.slides)
            tx, ty = m.x + len(m.slides) * m.type.direction()[0], m.y + len(m.slides) * m.type.direction()[1]
            old = p.board[ty * n + tx]
            flat = bool(old) and old[0].kind.value == 1
            if flat:
                own = old[0].color == p.to_move()
                return ("accepted-slide-flatten" + ("-multi" if k >= 2 else "") + ("-own-wall" if own else "")), True
            return ("accepted-slide-multi", True) if k >= 2 else ("accepted-slide-1", False)
        return ("accepted-place-opening", True) if p.ply < 2 else ("accepted-place", False)
    if not on:
        return "refused-off-board", False
    if m.type.is_slide():
        sq = p.board[m.y * n + m.x]
        if sq and sq[0].color == p.to_move() and p.ply >= 2:
            return "refused-slide-own-stack", True
        return "refused-slide-other", False
    return "refused-place", False


def build_cases(run, tak, pairs_by_pos, name="move"):
    """pairs_by_pos: list of (label, position, [moves]).  Returns (Cases, stats)"""
    cs = core.Cases(ID, name, HEADER, CTYPE, CHECK, show=SHOW_IDX, shard=SHARD)
    stats = {"pairs": 0, "distinct": set(), "nontrivial": set(), "dist": {}, "samples": [], "crashes": []}
    for label, p, ms in pairs_by_pos:
        ptxt = takio.c_pos(p)
        pj = takio.j_pos(p)
        for k in range(0, len(ms), CHUNK):
            chunk = ms[k:k + CHUNK]
            items, mj = [], []
            for m in chunk:
                kind, q = _wpa.observe(tak, p, m)
                items.append(f"({takio.c_move(m)}, {_obs_term(kind, q)})")
                cat, nontriv = _classify(p, m, kind, q)
                h = _wpa.pair_hash(p, m)
                stats["pairs"] += 1
                stats["distinct"].add(h)
                if nontriv:
                    stats["nontrivial"].add(h)
                stats["dist"][cat] = stats["dist"].get(cat, 0) + 1
                sk = f"size{p.size}"
                stats["dist"][sk] = stats["dist"].get(sk, 0) + 1
                mj.append({"move": takio.j_move(m), "impl": kind if kind != "crash" else q,
                           "impl_successor": takio.j_pos(q) if kind == "ok" else None})
                if kind == "crash":
                    stats["crashes"].append((p, m, q))
                if nontriv and len(stats["samples"]) < 4 and cat not in [s["category"] for s in stats["samples"]]:
                    stats["samples"].append({"category": cat, "position": pj["tps"], "size": p.size, "ply": p.ply,
                                             "move": takio.j_move(m), "impl": kind,
                                             "impl_successor_tps": takio.j_pos(q)["tps"] if kind == "ok" else None})
            cs.add(f"({ptxt}, {clist(items)})", {"label": label, "position": pj, "moves": mj})
    return cs, stats


def _parse_idx(view):
    m = re.search(r"=\s*\[(.*?)\]\s*:\s*list Z", view or "", re.S)
    return None if not m else [int(x) for x in re.findall(r"-?\d+", m.group(1))]


def _report(run, tak, cs, failing, label):
    reported = 0
    for meta in failing:
        if reported >= MAX_REPORTS:
            break
        term = cs.terms[cs.metas.index(meta)]
        cs.show = SHOW_IDX
        idx = _parse_idx(cs.model_view(term))
        cs.show = SHOW_RES
        model_res = cs.model_view(term)
        cs.show = SHOW_IDX
        entries = meta["moves"] if idx is None else [meta["moves"][i] for i in idx if 0 <= i < len(meta["moves"])]
        p = takio.mk_pos(meta["position"])
        for e in entries:
            if reported >= MAX_REPORTS:
                break
            m = takio.mk_move(e["move"])
            try:
                exp = _wpa.rules_expected(p, m)
                kind, q = _wpa.observe(tak, p, m)
                got = _wpa.canon_pos(q) if kind == "ok" else None
                oracle = {"rules_oracle_successor": exp is not None,
                          "impl_agrees_with_rules_oracle": (kind != "crash") and (got == exp)}
            except Exception as ex:  # noqa
                oracle = {"rules_oracle_error": repr(ex)}
            key = f"{label}:{_wpa.short_hash([meta['position'], e['move']])}"
            run.violation(key, {
                "clause": "a move is accepted iff the rules allow it, with exactly the prescribed successor; "
                          "no error other than IllegalMove escapes",
                "input": {"position": meta["position"], "move": e["move"]},
                "impl": e["impl"], "impl_successor": e["impl_successor"],
                "model_results_of_failing_moves_in_this_case": model_res, **oracle,
                "generator": meta["label"]})
            reported += 1
    return reported


def correspondence(run):
    core.setup_impl()
    import tak
    # corpus first
    corp = _corpus(tak)
    by = {}
    for p, m in corp:
        by.setdefault(id(p), (p, []))[1].append(m)
    cs0, st0 = build_cases(run, tak, [("corpus", p, ms) for p, ms in by.values()], name="corpus")
    f0, sf0, n0 = cs0.run()
    run.oblige(f"correspondence:corpus ({n0} shards)", not sf0, str(sf0)[:1500])
    run.count(st0["pairs"], len(st0["nontrivial"]), "corpus: the F1 inputs (off-board squares, non-positive drops, "
              "drops next to a wall) and corpus/C01-*.json; non-trivial as below", st0["samples"], st0["dist"], label="corpus")
    _report(run, tak, cs0, f0, "corpus")
    # generated
    positions = gen_positions(run, tak)
    triples = [(label, p, gen_moves(run, tak, p)) for label, p in positions]
    cs, st = build_cases(run, tak, triples)
    failing, shard_fail, nshards = cs.run()
    run.oblige(f"correspondence:move ({nshards} shards)", not shard_fail, str(shard_fail)[:1500])
    gens = {}
    for label, _, ms in triples:
        g = label.split("-")[0]
        gens[g] = gens.get(g, 0) + 1
    st["dist"].update({f"positions-{g}": k for g, k in gens.items()})
    run.count(st["pairs"], len(st["nontrivial"]),
              "(position, move) pairs: implementation outcome (successor / IllegalMove / other exception) compared in Coq "
              "with the model's move; distinct by sha256 of (position, move); non-trivial = accepted slide carrying >= 2 "
              "pieces or flattening a wall, opening placement, refused slide from a stack the mover owns, or a crash. "
              "Bounds of the ill-formed stream: x, y in [-size-1, 2*size], drops over {-2,-1,0,1,2,size,size+1}, tuples "
              "of length 0..size+1",
              st["samples"], st["dist"], label="move")
    run.extra["positions"] = len(positions)
    run.extra["distinct_pairs"] = len(st["distinct"])
    _report(run, tak, cs, failing, "move")
    # crashes are violations by themselves (they also fail in Coq; reported here in case a shard broke)
    if shard_fail:
        for p, m, text in st["crashes"][:MAX_REPORTS]:
            run.violation(f"crash:{_wpa.pair_hash(p, m)}", {
                "clause": "no error other than IllegalMove escapes",
                "input": {"position": takio.j_pos(p), "move": takio.j_move(m)}, "impl": text})


def search(run, broken):
    """a proof / tie / shard broke but no disagreement with the model was recorded: test the property's own statement
    (the rulebook relation, coded square by square in _wpa.rules_expected) directly on the implementation"""
    core.setup_impl()
    import tak
    for label, p in gen_positions(run, tak):
        for m in gen_moves(run, tak, p):
            kind, q = _wpa.observe(tak, p, m)
            exp = _wpa.rules_expected(p, m)
            got = _wpa.canon_pos(q) if kind == "ok" else None
            if kind == "crash" or got != exp:
                run.violation(f"oracle:{_wpa.pair_hash(p, m)}", {
                    "clause": "accepted iff the rules allow it, with the prescribed successor (executable rulebook oracle)",
                    "input": {"position": takio.j_pos(p), "move": takio.j_move(m)},
                    "impl": kind if kind != "crash" else q,
                    "impl_successor": takio.j_pos(q) if kind == "ok" else None,
                    "rules_oracle_accepts": exp is not None, "generator": label})
                return True
    return False


def replay(run, rp):
    core.setup_impl()
    import tak
    inp = rp.get("input") or {}
    if "position" not in inp or "move" not in inp:
        return {"violates": False, "note": "replay file carries no concrete input (broken obligation only)",
                "broken": rp.get("broken_obligations")}
    p, m = takio.mk_pos(inp["position"]), takio.mk_move(inp["move"])
    cs, st = build_cases(run, tak, [("replay", p, [m])], name="replay")
    failing, shard_fail, _ = cs.run()
    cs.show = SHOW_RES
    kind, q = _wpa.observe(tak, p, m)
    exp = _wpa.rules_expected(p, m)
    return {"violates": bool(failing or shard_fail or kind == "crash"),
            "impl": kind if kind != "crash" else q,
            "impl_successor": takio.j_pos(q) if kind == "ok" else None,
            "model": cs.model_view(cs.terms[0]) if failing else "agrees with the implementation",
            "rules_oracle_accepts": exp is not None,
            "impl_agrees_with_rules_oracle": kind != "crash" and (_wpa.canon_pos(q) if kind == "ok" else None) == exp}


def pregen(run):
    """regenerate gen/GameGen.v (the shallow embedding of game.py/moves.py/pieces.py) from the tree under test"""
    from . import c01gen
    return c01gen.pregen(run)


# ---- translator tie (T): the source-level theorems of props/C01.v quantify over gen/GameGen.v; what is trusted
# instead of sampling is model/PySem.v (Python's indexing / slicing / exception semantics) and the translation
# scheme - both are validated on every run by harness/props/t01.py, whose correspondence runs here too.
from . import t01 as _t01  # noqa: E402

MODEL_TARGETS = sorted(set(list(MODEL_TARGETS) + list(_t01.MODEL_TARGETS)))
TRUSTED_BASE = list(TRUSTED_BASE) + [
    "translator harness/py2coq.py (statement-to-Gallina scheme) and model/PySem.v (py_getitem / py_slice / py_setitem / "
    "exceptions), validated against CPython and against the implementation on every run",
]
_c01_correspondence = correspondence


def correspondence(run):
    _c01_correspondence(run)
    _t01.correspondence(run)
