"""T11 - play_one_game, Transcript.results and Transcript.logits of python/tak/self_play.py are REGENERATED FROM THE
SOURCE and proved equal to the hand-written model (model/SelfPlay.v): props/T11.v, proofs/SelfPlayGenEq.v; the main C11
theorems are transported to the generated functions.

`pregen` regenerates gen/GameGen.v, gen/EncodingGen.v (encode_move, MAX_MOVE_ID) and gen/SelfPlayGen.v.
Correspondence (light): the real play_one_game runs on c11's scripted and free-running engines (and three deliberately
defective ones: zero simulations, sampled index outside the children, an engine that runs out); the oracle stream
recorded from the run - every child WITH the position the engine stored in it - is given to the generated
play_one_game inside Coq, which must produce the same positions, candidates, probabilities, values (2^-52: the one
float division), result, labels (Transcript.results) and logits (Transcript.logits, non-zero entries), or the same
exception class."""
import hashlib
from fractions import Fraction

from .. import core, takio
from ..core import clist, copt, cz
from . import c01gen, c06gen, c11gen


class _Lazy:
    """c11.py may import this module (to run its correspondence too): import c11 on first use"""

    def __getattr__(self, name):
        import importlib
        return getattr(importlib.import_module("harness.props.c11"), name)


c11 = _Lazy()

ID = "T11"
THEOREMS = ["T11_gen_play_one_game_eq", "T11_gen_play_loop", "T11_gen_play_outcomes", "T11_gen_results_eq",
            "T11_gen_logits_agrees", "T11_gen_encode_move_eq", "T11_gen_move_tables", "T11_gen_from_config_eq",
            "T11_gen_transcript_chain", "T11_gen_stops_exactly", "T11_gen_result_correct", "T11_gen_labels_correct",
            "T11_engine_kids_ok", "T11_gen_real_engine"]
MODEL_TARGETS = ["model/Tak.vo", "model/Road.vo", "model/PySem.vo", "model/SelfPlay.vo", "model/SelfPlaySem.vo",
                 "model/Harness.vo", "model/Lit.vo", "gen/GameGen.vo", "gen/EncodingGen.vo", "gen/SelfPlayGen.vo"]
TRUSTED_BASE = [
    "model/SelfPlaySem.v: the engine as an oracle stream (one otree per engine.analyze: children as (move, position), "
    "tree_probs, value, simulations, v_zero, the index torch.multinomial draws - carried with the probability tensor); "
    "floats as rationals (one division, abs, >=); Transcript as a record with functional field updates; torch.zeros as "
    "rows of zeros with t[i, j] = v as two list updates - validated by running the generated functions against the "
    "implementation",
    "model/PySem.v (lists, dict comprehensions with last-entry-wins lookup, enumerate, comprehensions that can raise)",
    "the hand-over log.stats = engine.stats / engine.stats = mcts.Stats() is not translated (outside every property)",
]
ASSUMPTIONS = [
    "gen_play_one_game_eq: 0 <= size <= 8 (Config(size) reads DEFAULT_PIECES[size]) and kids_ok: every consumed answer's "
    "children carry the positions Position.move gives and the sampled index is >= 0 (C08 proves it of the real engine)",
    "gen_logits_agrees: first position of size 0..6 and at least as many probability rows as candidate rows",
]
_STATE = {}


def pregen(run):
    e1 = c01gen.pregen(run)
    e2 = c06gen.pregen(run)
    e3 = c11gen.pregen(run)
    _STATE["err"] = e1 or e2 or e3
    return _STATE["err"]


HEADER = """From Coq Require Import ZArith QArith Qabs String List Bool.
From TV Require Import model.Tak model.Road model.PySem model.Lit model.SelfPlay model.SelfPlaySem.
From TV Require gen.GameGen gen.EncodingGen gen.SelfPlayGen.
Import ListNotations.
Definition T := mkOTree.
Definition close52 (obs ex : Q) : bool := Qle_bool (Qabs (obs - ex)) (Qabs ex * (1 # 4503599627370496)).
Fixpoint sparse_from (i : Z) (row : list Q) : list (Z * Q) :=
  match row with
  | [] => []
  | x :: t => if Qeq_bool x 0 then sparse_from (i + 1)%Z t else (i, x) :: sparse_from (i + 1)%Z t
  end.
Definition sparse (row : list Q) : list (Z * Q) := sparse_from 0%Z row.
Definition zq_eqb (a b : Z * Q) : bool := (fst a =? fst b)%Z && Qeq_bool (snd a) (snd b).
(* observed: positions, candidate rows, probability rows, values, result (None = not a colour or None), labels, logits
   (None = raised), or the class of the exception play_one_game raised *)
Inductive gobs :=
| GDone (ps : list position) (ms : list (list mv)) (prs : list (list Q)) (vs : list Q) (res : option (option color))
        (labs : list Q) (lg : option (list (list (Z * Q))))
| GRaise (e : exn) | GOther.
Definition gcase := (Z * Q * Z * list otree * gobs)%type.
Definition res_logits (r : res (list (list Q))) : option (list (list (Z * Q))) :=
  match r with Ok rows => Some (map sparse rows) | _ => None end.
Definition gchk (c : gcase) : bool :=
  let '(sz, thr, lim, s, o) := c in
  match SelfPlayGen.play_one_game (mkSp sz thr lim) s, o with
  | Ok tr, GDone ps ms prs vs res labs lg =>
      list_eqb position_eqb (t_positions tr) ps && list_eqb (list_eqb mv_eqb) (t_moves tr) ms &&
      list_eqb (list_eqb Qeq_bool) (t_probs tr) prs && list_eqb close52 vs (t_values tr) &&
      match res with Some r => opt_eqb color_eqb (t_result tr) r | None => false end &&
      list_eqb Qeq_bool (SelfPlayGen.results tr) labs &&
      opt_eqb (list_eqb (list_eqb zq_eqb)) (res_logits (SelfPlayGen.logits tr)) lg
  | Crash e, GRaise e' => exn_eqb e e'
  | _, _ => false
  end.
Definition gview (c : gcase) :=
  let '(sz, thr, lim, s, o) := c in
  match SelfPlayGen.play_one_game (mkSp sz thr lim) s with
  | Ok tr => (Some (map ply (t_positions tr), t_result tr, SelfPlayGen.results tr), None)
  | Crash e => (None, Some e)
  | Illegal => (None, None)
  end.
"""
EXN = {"ZeroDivisionError": "ZeroDivisionError", "IndexError": "IndexError", "StopIteration": "OracleExhausted"}


def _otree(a, node):
    kids = clist([f"({takio.c_move(c.move)}, {takio.c_pos(c.position)})" for c in node.children])
    return (f"(T {kids} {clist([c11.cq(x) for x in a['probs']])} {c11.cq(a['value'])} {cz(a['sims'])} "
            f"{c11.cq(a['v_zero'])} {cz(a['pick'])})")


def _term(g):
    stream = clist([_otree(a, n) for a, n in zip(g["answers"], g["nodes"])])
    if g["crash"]:
        name = g["crash"].split("(")[0]
        obs = f"(GRaise {EXN[name]})" if name in EXN else "GOther"
    else:
        lg = None if g["logits"] is None else clist([clist([f"({cz(j)}, {c11.cq(v)})" for (j, v) in row]) for row in g["logits"]])
        labels = clist([c11.cq(Fraction(float(x))) for x in g["labels_raw"]])
        obs = (f"(GDone {clist([takio.c_pos(p) for p in g['positions']])} "
               f"{clist([clist([takio.c_move(m) for m in ms]) for ms in g['moves']])} "
               f"{clist([clist([c11.cq(x) for x in pr]) for pr in g['probs']])} "
               f"{clist([c11.cq(v) for v in g['values']])} {c11._c_result(g['result'])} {labels} {copt(lg)})")
    return f"({cz(g['size'])}, {c11.cq(g['thr'])}, {cz(g['limit'])}, {stream}, {obs})"


class _ShortEngine:
    """a scripted engine whose script ends before the game does: analyze raises StopIteration (the oracle is exhausted)"""

    def __init__(self, inner, n):
        self.inner, self.n, self.stats = inner, n, inner.stats

    def analyze(self, position):
        if self.inner.i >= self.n:
            raise StopIteration("script exhausted")
        return self.inner.analyze(position)

    def tree_probs(self, tree):
        return self.inner.tree_probs(tree)


def _defective(run):
    """three engines that make the loop raise: simulations = 0, an index outside the children, an exhausted script"""
    rng = run.rng
    out = []
    line, _ = c11._playout(rng, 3, 0.9)
    for kind in ("zero-sims", "bad-index", "exhausted"):
        steps = c11._script_for(rng, 3, line, lambda i: 0.0)
        k = min(2, len(steps) - 1)
        if kind == "zero-sims":
            steps[k]["sims"] = 0
        if kind == "bad-index":
            steps[k]["pick"] = len(steps[k]["cands"]) + 1
        eng = c11.ScriptedEngine(steps)
        if kind == "exhausted":
            eng = _ShortEngine(eng, k)
        g = c11._play(3, 0.95, 100, eng, forced=[s["pick"] for s in steps])
        out.append(({"kind": "defective-" + kind, "size": 3}, g))
    return out


def _games(run):
    sc = c11._scripted_games(run, 60 if run.quick else 400)
    run.rng.shuffle(sc)
    sc = sc[:60 if run.quick else 400]
    # a few games of the REAL engine (mcts.MCTS on tak_ext): its trees carry the child positions the loop reads
    real = [(m, g) for m, g in c11._mcts_games(run, 8 if run.quick else 60) if m.get("size", 3) <= 4]
    return sc + c11._free_games(run, 25 if run.quick else 200) + real + _defective(run)


def correspondence(run):
    core.setup_impl(ext=True, shims=True)
    err = _STATE.get("err", "unset")
    if err == "unset":
        err = pregen(run)
    if err:
        run.extra["differential_skipped"] = "the translation failed; a generated file is a stub"
        return
    games = _games(run)
    cs = core.Cases(ID, "play", HEADER, "gcase", "gchk", show="gview", shard=8)
    dist, nontriv = {}, 0
    for meta, g in games:
        cls = "crash:" + g["crash"].split("(")[0] if g["crash"] else c11._oracle(g)[0]
        meta = dict(meta, ending=cls, scenario=c11._scenario_json(g), observed=c11._observed_json(g), crash=g["crash"])
        cs.add(_term(g), meta)
        dist[f"{meta['kind']}/{cls}"] = dist.get(f"{meta['kind']}/{cls}", 0) + 1
        nontriv += len(g["positions"]) >= 2 or bool(g["crash"])
    failing, shard_fail, nshards = cs.run()
    run.oblige(f"correspondence:generated-play_one_game ({nshards} shards)", not shard_fail, str(shard_fail)[:1500])
    run.count(len(cs), nontriv,
              "SelfPlayGen.play_one_game / results / logits (the translated source, evaluated in Coq on the recorded oracle "
              "stream incl. the positions stored in the children) vs the real play_one_game, Transcript.results, "
              "Transcript.logits: c11's scripted lines (road, flats, draw, limit, resignation at / around the threshold) and "
              "free-running engines on sizes 3-6, plus engines with zero simulations, an index outside the children and "
              "an exhausted script (exception class compared); non-trivial = >= 2 positions or an exception",
              [{"kind": m["kind"], "ending": m["ending"], "plies": m["observed"]["n_positions"]} for m in cs.metas[:3]],
              dist, label="play")
    for meta in failing[:4]:
        term = cs.terms[cs.metas.index(meta)]
        run.violation("play:" + hashlib.sha256(term.encode()).hexdigest()[:12], {
            "clause": "the play_one_game / results / logits translated from the source, evaluated in Coq on the recorded "
                      "engine answers, reproduce what the implementation did",
            "scenario": meta["scenario"], "observed": meta["observed"], "impl_exception": meta["crash"],
            "generator": meta["kind"], "ending_class": meta["ending"], "generated_view": cs.model_view(term)})


def search(run, broken):
    """the proof broke and the generated functions still agree with the implementation: the SOURCE changed.  c11's
    executable oracle of the property's own statement on fresh games."""
    core.setup_impl(ext=True, shims=True)
    for meta, g in c11._scripted_games(run, 150) + c11._free_games(run, 30):
        cls, clauses = c11._oracle(g)
        if clauses:
            run.violation(f"oracle:{meta['kind']}-{cls}-{'+'.join(sorted({c.split(':')[0] for c in clauses}))}", {
                "clause": clauses[0], "all_clauses": clauses, "ending_class": cls, "scenario": c11._scenario_json(g),
                "observed": c11._observed_json(g), "generator": meta["kind"],
                "broken_obligations": [o[0] for o in broken]})
            return True
    return False


def replay(run, rp):
    core.setup_impl(ext=True, shims=True)
    sc = rp.get("scenario")
    if not sc:
        return {"violates": False, "note": "replay file carries no scenario", "stored": rp.get("broken_obligations")}
    steps = [{"cands": [takio.mk_move(m) for m in a["cands"]], "probs": [float(Fraction(*x)) for x in a["probs"]],
              "value": float(Fraction(*a["value"])), "sims": a["sims"], "v_zero": float(Fraction(*a["v_zero"])),
              "pick": max(a["pick"], 0)} for a in sc["answers"]]
    g = c11._play(sc["size"], float(Fraction(*sc["thr"])), sc["limit"], c11.ScriptedEngine(steps),
                  forced=[s["pick"] for s in steps])
    cls, clauses = c11._oracle(g) if not g["crash"] else ("crash", ["loop raised " + g["crash"]])
    out = {"ending_class": cls, "oracle_violations": clauses, "impl_output": c11._observed_json(g)}
    viol = bool(clauses)
    err = pregen(run)
    if not err:
        with core.BuildLock():
            core.coq_make(MODEL_TARGETS)
        cs = core.Cases(ID, "replay", HEADER, "gcase", "gchk", show="gview", shard=1)
        cs.add(_term(g), {})
        failing, shard_fail, _ = cs.run()
        out["generated_agrees_with_impl"] = not (failing or shard_fail)
        viol = viol or bool(failing or shard_fail)
    else:
        out["translation"] = err
    out["violates"] = viol
    return out
