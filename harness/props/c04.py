"""C04 - every reachable position is physically consistent.

Theorems (props/C04.v): `Inv cfg` holds initially, is preserved by every accepted move (ply + 1), hence holds
after every finite sequence of accepted moves (`run`).  Tie: G + D below:
 * games: seeded legal playouts (the generator of C01) on sizes 3..8 with standard and custom piece sets; every
   position of every game is audited on the implementation side (a Python auditor of Inv) and the whole trace is
   compared state for state with the model's `move` / `run` inside Coq;
 * closure: tiny configurations (3x3, pieces <= 3, capstones <= 1) explored breadth-first on the implementation
   modulo the ply counter, to a fixed point where that is feasible (caps stated in the evidence); every state is
   audited, and for every state the list of (table move, successor) the implementation accepts is compared inside
   Coq with the model's list over the whole table (so refusals are compared too);
 * from_squares: reserves derived from a board."""
from .. import core, takio
from ..core import clist, cz, copt
from . import _wpa

ID = "C04"
THEOREMS = ["C04_inv_init", "C04_inv_step", "C04_inv_reachable", "C04_to_move_alternates", "C04_wf_reachable",
            "C04_from_squares_reserves",
            "C04_source_inv_step"]
MODEL_TARGETS = ["model/Tak.vo", "model/Run.vo", "model/Harness.vo", "model/Lit.vo"]
TRUSTED_BASE = [
    "the Python auditor of Inv in harness/props/_wpa.py (audit_inv) restates the invariant on implementation objects",
    "attrs.evolve builds a new Position from the delta; CPython list semantics (validated by the correspondence)",
]
ASSUMPTIONS = [
    "closure caps: explored modulo the ply counter (parity kept); configurations whose closure exceeds the state "
    "budget of the tier are explored breadth-first up to the budget (numbers in evidence.coverage.closure)",
    "`accepted moves` are what Position.move accepts; the theorem and the closure do not stop at a decided game "
    "unless stated (closure: successors of decided positions are not expanded in the quick tier)",
]

HEADER = """From Coq Require Import ZArith List Bool.
From TV Require Import model.Tak model.Run model.Lit.
Import ListNotations.
Fixpoint trace_ok (p : position) (l : list (mv * position)) : bool :=
  match l with
  | [] => true
  | (m, q) :: t => match move p m with
                   | Some q' => position_eqb q' q && trace_ok q t
                   | None => false
                   end
  end.
Definition accepted (p : position) : list (mv * position) :=
  flat_map (fun m => match move p m with Some q => [(m, q)] | None => [] end) (table (size p)).
Definition step_eqb (a b : mv * position) : bool := mv_eqb (fst a) (fst b) && position_eqb (snd a) (snd b)."""

GAME_T = "config * position * list (mv * position)"
GAME_CHECK = ("fun c => let '(cfg, p0, l) := c in position_eqb (from_config cfg) p0 && trace_ok p0 l && "
              "opt_eqb position_eqb (run (from_config cfg) (map fst l)) (Some (last (map snd l) p0))")
GAME_SHOW = ("fun c => let '(cfg, p0, l) := c in (position_eqb (from_config cfg) p0, "
             "(fix go (p : position) (l : list (mv * position)) (i : Z) : list Z := match l with [] => [] | (m, q) :: t => "
             "match move p m with Some q' => if position_eqb q' q then go q t (i + 1) else [i] | None => [i] end end) p0 l 0)")
CLOS_T = "position * list (mv * position)"
CLOS_CHECK = "fun c => let '(p, l) := c in list_eqb step_eqb (accepted p) l"
CLOS_SHOW = "fun c => let '(p, l) := c in (map fst (accepted p), map fst l)"
FS_T = "config * list stack * Z * option position"
FS_CHECK = "fun c => let '(cfg, sqs, pl, o) := c in opt_eqb position_eqb (from_squares cfg sqs pl) o"
MAX_REPORTS = 10


def c_cfg(cfg):
    return (f"(mkCfg {cz(cfg.size)} {copt(None if cfg.pieces is None else cz(cfg.pieces))} "
            f"{copt(None if cfg.capstones is None else cz(cfg.capstones))})")


def mk_cfg(tak, d):
    return tak.Config(size=d["size"], pieces=d["pieces"], capstones=d["capstones"])


# --------------------------------------------------------------------------
# games
# --------------------------------------------------------------------------
def gen_games(run, tak):
    rng = run.rng
    std, custom = _wpa.configs(tak)
    cfgs = std + custom
    reps = 2 if run.quick else 20
    out = []
    for _ in range(reps):
        for cfg in cfgs:
            plies = rng.choice([8, 25, 60]) if run.quick else rng.choice([20, 80, 200])
            ps, ms = _wpa.playout(tak, rng, cfg, plies, stop_at_end=rng.random() < 0.6,
                                  slide_bias=rng.choice([0.3, 0.5, 0.7]))
            out.append((cfg, ps, ms))
    # tiny and capstone-rich small configurations: short games, played on after the game is decided, slide-heavy
    # (reserves run out, capstones meet walls of both colours within a few plies)
    tiny = [tak.Config(size=3, pieces=a, capstones=b) for a in range(1, 4) for b in range(0, 2)]
    rich = [tak.Config(size=3, pieces=5, capstones=2), tak.Config(size=4, pieces=6, capstones=2),
            tak.Config(size=5, pieces=6, capstones=3)]
    for cfg in tiny + rich:
        for _ in range(5 if run.quick else 60):
            ps, ms = _wpa.playout(tak, rng, cfg, rng.choice([12, 30, 50]), stop_at_end=False,
                                  slide_bias=rng.choice([0.5, 0.7]))
            out.append((cfg, ps, ms))
    return out


def smashes(ps, ms):
    """(walls flattened, of which the mover's own) along a game"""
    a = b = 0
    for p, m in zip(ps, ms):
        if m.type.is_slide():
            dx, dy = m.type.direction()
            X, Y = m.x + len(m.slides) * dx, m.y + len(m.slides) * dy
            old = p.board[Y * p.size + X]
            if old and old[0].kind.value == 1:
                a += 1
                b += old[0].color == p.to_move()
    return a, b


def audit_game(run, cfg, ps, ms, label, reported):
    """Python auditor of Inv on every position of a game; ply must rise by exactly one"""
    n_bad = 0
    for i, p in enumerate(ps):
        bad = _wpa.audit_inv(cfg, p)
        if p.ply != i:
            bad.append("ply-not-number-of-moves")
        if i > 0 and p.to_move() == ps[i - 1].to_move():
            bad.append("side-to-move-does-not-alternate")
        if bad:
            n_bad += 1
            if reported[0] < MAX_REPORTS:
                reported[0] += 1
                hist = [takio.j_move(m) for m in ms[:i]]
                run.violation(f"inv:{bad[0]}:{_wpa.short_hash([_wpa.j_cfg(cfg), hist])}", {
                    "clause": "reachable positions are physically consistent: " + ", ".join(bad),
                    "input": {"config": _wpa.j_cfg(cfg), "moves": hist},
                    "position_reached": takio.j_pos(p), "violated_clauses": bad, "generator": label})
            break
    return n_bad


def game_term(cfg, ps, ms):
    steps = clist([f"({takio.c_move(m)}, {takio.c_pos(q)})" for m, q in zip(ms, ps[1:])])
    return f"({c_cfg(cfg)}, {takio.c_pos(ps[0])}, {steps})"


# --------------------------------------------------------------------------
# closure of tiny configurations
# --------------------------------------------------------------------------
def explore(tak, cfg, table, budget, stop_at_end):
    """breadth-first closure modulo ply.  Returns (states in BFS order, parent map, closed?)"""
    start = tak.Position.from_config(cfg)
    k0 = _wpa.state_key(start)
    parent = {k0: None}
    order = [start]
    succ = []          # per state: [(move, successor)] over the whole table, or None when not expanded
    crashes = []
    i = 0
    closed = True
    while i < len(order):
        p = order[i]
        i += 1
        acc = []
        for m in table:
            kind, q = _wpa.observe(tak, p, m)
            if kind == "ok":
                acc.append((m, q))
            elif kind == "crash":
                crashes.append((p, m, q))
        succ.append(acc)
        if stop_at_end and p.winner()[1] is not None:
            continue
        for m, q in acc:
            k = _wpa.state_key(q)
            if k not in parent:
                if len(order) >= budget:
                    closed = False
                    continue
                parent[k] = (_wpa.state_key(p), m)
                order.append(q)
    return order, succ, parent, closed, crashes


def history(parent, key):
    ms = []
    while parent.get(key) is not None:
        key, m = parent[key]
        ms.append(m)
    return list(reversed(ms))


# --------------------------------------------------------------------------
def correspondence(run):
    core.setup_impl()
    import tak
    rng = run.rng
    reported = [0]
    # ---- games ----
    games = gen_games(run, tak)
    # the BFS positions of C01 are reachable too: audit them
    table3 = tak.moves.all_moves_for_size(3)
    cs = core.Cases(ID, "game", HEADER, GAME_T, GAME_CHECK, show=GAME_SHOW, shard=3)
    npos = nbad = nslides = 0
    dist = {}
    for cfg, ps, ms in games:
        nbad += audit_game(run, cfg, ps, ms, "playout", reported)
        npos += len(ps)
        nslides += sum(1 for m in ms if m.type.is_slide())
        sa, sb = smashes(ps, ms)
        dist["walls-flattened"] = dist.get("walls-flattened", 0) + sa
        dist["own-walls-flattened"] = dist.get("own-walls-flattened", 0) + sb
        dist["positions-with-an-exhausted-stone-reserve"] = dist.get("positions-with-an-exhausted-stone-reserve", 0) + \
            sum(1 for p in ps if any(s.stones == 0 for s in p.stones))
        dist[f"size{cfg.size}"] = dist.get(f"size{cfg.size}", 0) + len(ps)
        cs.add(game_term(cfg, ps, ms), {"config": _wpa.j_cfg(cfg), "moves": [takio.j_move(m) for m in ms],
                                         "final": takio.j_pos(ps[-1])})
    failing, shard_fail, nsh = cs.run()
    run.oblige(f"correspondence:game ({nsh} shards)", not shard_fail, str(shard_fail)[:1500])
    run.oblige("audit:Inv holds at every position of every generated game (implementation side)", nbad == 0,
               f"{nbad} games with an inconsistent position")
    dist["games"] = len(games)
    dist["slides"] = nslides
    g0 = games[0]
    run.count(npos, npos - len(games),
              "positions of seeded legal playouts from from_config (sizes 3..8, standard and custom piece sets): each "
              "audited against Inv in Python and compared with the model's move/run in Coq; non-trivial = every "
              "position after at least one move",
              [{"config": _wpa.j_cfg(g0[0]), "moves": [takio.j_move(m) for m in g0[2][:6]],
                "position_after": takio.j_pos(g0[1][min(6, len(g0[1]) - 1)])["tps"], "audit": "consistent"}],
              dist, label="games")
    for meta in failing[:MAX_REPORTS]:
        view = cs.model_view(cs.terms[cs.metas.index(meta)])
        run.violation(f"trace:{_wpa.short_hash([meta['config'], meta['moves']])}", {
            "clause": "the implementation's game trace is the model's (the model is proved to keep Inv)",
            "input": {"config": meta["config"], "moves": meta["moves"]}, "impl_final": meta["final"],
            "model_view (initial position agrees?, index of the first step that differs)": view})
    # ---- closure of tiny configurations ----
    budget_small = 4000 if run.quick else 70000
    budget_big = 500 if run.quick else 8000
    cl = core.Cases(ID, "closure", HEADER, CLOS_T, CLOS_CHECK, show=CLOS_SHOW, shard=150)
    clos_info = {}
    nstates = 0
    ncl_bad = 0
    for pieces in range(0, 4):
        for caps in range(0, 2):
            cfg = tak.Config(size=3, pieces=pieces, capstones=caps)
            small = (pieces, caps) in ((0, 0), (0, 1), (1, 0), (1, 1), (2, 0))
            stop = run.quick or not small
            order, succ, parent, closed, crashes = explore(tak, cfg, table3, budget_small if small else budget_big, stop)
            clos_info[f"pieces{pieces}-caps{caps}"] = {"states": len(order), "fixed_point": closed,
                                                      "successors_of_decided_positions_expanded": not stop,
                                                      "accepted_edges": sum(len(a) for a in succ)}
            nstates += len(order)
            for p, m, text in crashes[:3]:
                hist = [takio.j_move(x) for x in history(parent, _wpa.state_key(p))]
                run.violation(f"closure-crash:{_wpa.short_hash([_wpa.j_cfg(cfg), hist, takio.j_move(m)])}", {
                    "clause": "no error other than IllegalMove", "input": {"config": _wpa.j_cfg(cfg), "moves": hist},
                    "then_move": takio.j_move(m), "impl": text})
            for p, acc in zip(order, succ):
                bad = _wpa.audit_inv(cfg, p)
                if bad:
                    ncl_bad += 1
                    if reported[0] < MAX_REPORTS:
                        reported[0] += 1
                        hist = [takio.j_move(x) for x in history(parent, _wpa.state_key(p))]
                        run.violation(f"inv:{bad[0]}:{_wpa.short_hash([_wpa.j_cfg(cfg), hist])}", {
                            "clause": "reachable positions are physically consistent: " + ", ".join(bad),
                            "input": {"config": _wpa.j_cfg(cfg), "moves": hist},
                            "position_reached": takio.j_pos(p), "violated_clauses": bad, "generator": "closure"})
                items = clist([f"({takio.c_move(m)}, {takio.c_pos(q)})" for m, q in acc])
                cl.add(f"({takio.c_pos(p)}, {items})",
                       {"config": _wpa.j_cfg(cfg), "key": _wpa.state_key(p), "position": takio.j_pos(p),
                        "accepted": [takio.j_move(m) for m, _ in acc], "_parent": parent})
    failing2, shard_fail2, nsh2 = cl.run()
    run.oblige(f"correspondence:closure ({nsh2} shards)", not shard_fail2, str(shard_fail2)[:1500])
    run.oblige("audit:Inv holds at every state of the explored closures (implementation side)", ncl_bad == 0,
               f"{ncl_bad} inconsistent states")
    run.extra["closure"] = clos_info
    run.count(nstates * len(table3), nstates,
              "closure of 3x3 with pieces <= 3, capstones <= 1 (modulo ply): every explored state audited against Inv and "
              "its accepted (move, successor) list over the whole 135-move table compared with the model in Coq; "
              "evaluations = states x table moves; distinct = states (deduplicated by canonical state)",
              [{"configuration": k, **v} for k, v in list(clos_info.items())[:4]],
              {k: v["states"] for k, v in clos_info.items()}, label="closure")
    for meta in failing2[:MAX_REPORTS]:
        hist = [takio.j_move(x) for x in history(meta["_parent"], meta["key"])]
        view = cl.model_view(cl.terms[cl.metas.index(meta)])
        run.violation(f"closure:{_wpa.short_hash([meta['config'], hist])}", {
            "clause": "state for state, the implementation accepts exactly the moves the model accepts, with the same successors",
            "input": {"config": meta["config"], "moves": hist}, "position_reached": meta["position"],
            "impl_accepted_moves": meta["accepted"], "model_view (model accepted moves, impl accepted moves)": view})
    # ---- from_squares ----
    fs = core.Cases(ID, "from_squares", HEADER, FS_T, FS_CHECK, shard=200)
    nfs = 120 if run.quick else 1500
    for _ in range(nfs):
        n = rng.randint(3, 8)
        p = _wpa.constructed(tak, rng, n)
        cfg = rng.choice([tak.Config(size=n), tak.Config(size=n, pieces=rng.randint(0, 60), capstones=rng.randint(0, 5))])
        sqs = list(p.board)
        if rng.random() < 0.1:
            sqs = sqs[:-1] if rng.random() < 0.5 else sqs + [[]]
        try:
            q = tak.Position.from_squares(cfg, sqs, p.ply)
            obs = f"(Some {takio.c_pos(q)})"
        except ValueError:
            obs = "None"
        fs.add(f"({c_cfg(cfg)}, {takio.c_board(sqs)}, {cz(p.ply)}, {obs})",
               {"config": _wpa.j_cfg(cfg), "squares": [[takio.c_piece(x) for x in s] for s in sqs], "ply": p.ply})
    failing3, shard_fail3, nsh3 = fs.run()
    run.oblige(f"correspondence:from_squares ({nsh3} shards)", not shard_fail3, str(shard_fail3)[:1500])
    run.count(nfs, nfs, "from_squares on constructed boards (sizes 3..8, standard and custom counts, wrong lengths "
              "included) compared with the model", [], {"cases": nfs}, label="from_squares")
    for meta in failing3[:3]:
        run.violation(f"from_squares:{_wpa.short_hash(meta)}", {
            "clause": "reserves derived from a board: board count + reserve = configured count", "input": meta})


def search(run, broken):
    """a proof or shard broke without a recorded disagreement: audit Inv directly on many more games"""
    core.setup_impl()
    import tak
    reported = [0]
    std, custom = _wpa.configs(tak)
    for _ in range(6):
        for cfg in std + custom:
            ps, ms = _wpa.playout(tak, run.rng, cfg, 80, stop_at_end=False, slide_bias=0.5)
            if audit_game(run, cfg, ps, ms, "search", reported):
                return True
    return False


def replay(run, rp):
    core.setup_impl()
    import tak
    inp = rp.get("input") or {}
    if "config" not in inp or "moves" not in inp:
        return {"violates": False, "note": "replay file carries no game (broken obligation or from_squares case)",
                "input": inp, "broken": rp.get("broken_obligations")}
    cfg = mk_cfg(tak, inp["config"])
    ms = [takio.mk_move(d) for d in inp["moves"]]
    if "then_move" in rp:
        ms.append(takio.mk_move(rp["then_move"]))
    p = tak.Position.from_config(cfg)
    ps, done = [p], []
    note = None
    for m in ms:
        kind, q = _wpa.observe(tak, p, m)
        if kind != "ok":
            note = f"move {takio.j_move(m)} -> {kind if kind == 'illegal' else q}"
            break
        p = q
        ps.append(p)
        done.append(m)
    audits = [(i, _wpa.audit_inv(cfg, q) + ([] if q.ply == i else ["ply-not-number-of-moves"])) for i, q in enumerate(ps)]
    bad = [(i, b) for i, b in audits if b]
    cs = core.Cases(ID, "replay", HEADER, GAME_T, GAME_CHECK, show=GAME_SHOW, shard=1)
    cs.add(game_term(cfg, ps, done), {})
    failing, shard_fail, _ = cs.run()
    crashed = note is not None and "illegal" not in note
    return {"violates": bool(bad or failing or shard_fail or crashed), "inconsistent_positions": bad[:5],
            "trace_agrees_with_model": not failing, "stopped": note,
            "final": takio.j_pos(ps[-1]), "model_view": cs.model_view(cs.terms[0]) if failing else None}


def pregen(run):
    """regenerate gen/GameGen.v (the shallow embedding of game.py/moves.py/pieces.py) from the tree under test"""
    from . import c01gen
    return c01gen.pregen(run)
