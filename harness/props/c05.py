"""C05 - positions are immutable values.

T: harness/heap_ir.py regenerates coq/gen/HeapIR.v (heap-effect IR of
   Position.move (+ _move_place/_move_slide inlined), from_squares, from_config,
   tps.parse_row, tps.parse_tps, symmetry.transform_position) on every run; the
   proof obligations `fresh_only <f>_ir = true` are re-checked by vm_compute.
D: (a) heap-graph correspondence: sampled calls are run on the untouched
   implementation under sys.settrace, `id()` of the board list and of every
   stack is recorded before and after, the IR is executed inside Coq on the
   recorded heap and oracle stream and the sharing graphs are compared;
   (b) behavioural family / search oracle: frozen snapshots of every list
   object of every position retained from a growing game tree are compared
   after every call (accepted, refused, refused part-way)."""
import copy
import hashlib
import json
import time

from .. import core, takio, heap_ir
from ..core import cz, clist

ID = "C05"
THEOREMS = ["C05_discipline_sound", "C05_listed_functions_disciplined", "C05_listed_functions_frame",
            "C05_snapshot_stable", "C05_snapshot_stable_mid", "C05_positions_immutable"]
MODEL_TARGETS = ["model/HeapSem.vo", "model/HeapObs.vo", "gen/HeapIR.vo", "model/Harness.vo"]
TRUSTED_BASE = [
    "harness/heap_ir.py (Python ast -> heap-effect IR): the declared heap parameters (self/pos, squares, delta), the "
    "whitelist of pure callables (len any all sum ...), and that every Position attribute except `board` holds an "
    "immutable value; fail-closed on every unrecognised shape",
    "CPython semantics of the IR constructs as modelled in model/HeapSem.v (list(), slicing, +, * share elements, "
    "attrs.evolve builds a new object, in-place list methods) - validated by the heap-graph correspondence",
    "sys.settrace line events of CPython 3.12 (oracle recording for the heap-graph correspondence only)",
]
ASSUMPTIONS = [
    "external mutation by a caller (p.board[0].append(...)) is outside the property: Position exposes its lists",
    "Piece, Move, StoneCounts, Config are frozen attrs instances / enums (immediates of the heap model)",
]

_STATE = {}


# --------------------------------------------------------------------------
# T: regenerate gen/HeapIR.v
# --------------------------------------------------------------------------
def pregen(run):
    repo_python = core.REPO / "python"
    irs, errors, world = heap_ir.translate(repo_python)
    fields = world.fields if world else [("size", "imm"), ("stones", "imm"), ("ply", "imm"), ("board", "imm")]
    text = heap_ir.coq_text(irs, errors, fields)
    core.write_if_changed(core.COQ / "gen" / "HeapIR.v", text)
    _STATE.update(irs=irs, errors=errors, world=world)
    diag = {}
    for name, (rel, qual, _) in heap_ir.TARGETS.items():
        ok = irs.get(name) is not None
        run.oblige(f"translate:{rel}:{qual}", ok, errors.get(name, ""))
        if ok:
            off = heap_ir.offending_stores(irs[name]["body"], irs[name]["muts"], irs[name]["params"])
            if off:
                diag[name] = [{"line": m[0], "source": m[1], "target": m[2]} for m in off]
    if diag:
        run.extra["stores_into_non_fresh_names (diagnostic mirror of fresh_only)"] = diag
    run.extra["ir_sha256"] = hashlib.sha256(text.encode()).hexdigest()[:16]
    return irs, errors, world


# --------------------------------------------------------------------------
# implementation-side helpers
# --------------------------------------------------------------------------
def _impl():
    core.setup_impl()
    import tak
    from tak.ptn import tps
    from tak.symmetry import symmetry
    return tak, tps, symmetry


def freeze(p):
    """structural snapshot of a position (nested tuples; pieces are cached immutable objects)"""
    return (p.size, p.ply, p.stones, tuple(tuple(sq) for sq in p.board))


def fullsnap(p):
    """every field the class has NOW (attrs.fields, not a fixed list), recursively, as fresh containers"""
    import attrs
    return attrs.asdict(p, recurse=True)


def safe_hash(p):
    try:
        return hash(p)
    except TypeError:
        return None


def whole_value_diff(p, nd):
    """names of the fields in which p differs from the deep copy taken when it was created (whole-value ==, hash where
    defined, attrs.asdict of all fields); [] if the position still equals its creation-time snapshot"""
    import attrs
    deep = nd["deep"]
    if p == deep and not (p != deep) and safe_hash(p) == nd["hash"] and fullsnap(p) == nd["full"]:
        return []
    out = [f.name for f in attrs.fields(type(p)) if getattr(p, f.name) != getattr(deep, f.name)]
    if safe_hash(p) != nd["hash"]:
        out.append("__hash__")
    return out or ["__eq__"]


def _jfields(p, names):
    return {n: repr(getattr(p, n, None))[:300] for n in names if not n.startswith("__")}


def tall_squares(rng, tak, size, h):
    """a board with one tower of height h (top stone of the side to move, colours alternating below), walls (a capstone
    for size >= 5) two squares away and flats next to it on some of the four paths -> (squares, ply, tower square)"""
    n = size
    C, K = tak.Color, tak.Kind
    mover = rng.randrange(2)
    ply = 2 * rng.randint(2, 6) + mover
    squares = [[] for _ in range(n * n)]
    tx, ty = rng.randrange(n), rng.randrange(n)
    squares[tx + ty * n] = [tak.Piece.cached(C((mover + k) % 2), K.FLAT) for k in range(h)]
    used_cap = False
    for dx, dy in ((1, 0), (-1, 0), (0, 1), (0, -1)):
        x1, y1, x2, y2 = tx + dx, ty + dy, tx + 2 * dx, ty + 2 * dy
        if 0 <= x2 < n and 0 <= y2 < n and rng.random() < 0.6:
            if n >= 5 and not used_cap and rng.random() < 0.5:
                squares[x2 + y2 * n] = [tak.Piece.cached(C(1 - mover), K.CAPSTONE)]
                used_cap = True
            else:
                squares[x2 + y2 * n] = [tak.Piece.cached(C(rng.randrange(2)), K.STANDING)]
        if 0 <= x1 < n and 0 <= y1 < n and rng.random() < 0.3:
            squares[x1 + y1 * n] = [tak.Piece.cached(C(rng.randrange(2)), K.FLAT)]
    return squares, ply, (tx, ty)


def tower_playout(rng, tak, size, target, max_plies=120):
    """guided play from the empty board towards one tall tower; -> list of (move, position) actually played"""
    p = tak.Position.from_config(tak.Config(size=size))
    hist = []
    for _ in range(max_plies):
        if max(len(sq) for sq in p.board) >= target or p.winner() != (None, None):
            break
        best, bh = [], -10 ** 9
        ms = p.all_moves()
        rng.shuffle(ms)
        for m in ms[:60]:
            try:
                q = p.move(m)
            except tak.IllegalMove:
                continue
            if q.winner() != (None, None):
                continue
            sc = max(len(sq) for sq in q.board) * 10 + (0 if m.type.is_slide() else (1 if m.type == tak.MoveType.PLACE_FLAT else -5))
            if sc > bh:
                best, bh = [(m, q)], sc
            elif sc == bh:
                best.append((m, q))
        if not best:
            break
        m, p = rng.choice(best)
        hist.append((m, p))
    return hist


def illformed_moves(rng, tak, n, k):
    out = []
    types = list(tak.MoveType)
    for _ in range(k):
        t = rng.choice(types)
        x, y = rng.randint(-2, n + 1), rng.randint(-2, n + 1)
        if rng.random() < 0.6:
            x, y = rng.randrange(n), rng.randrange(n)
        if t.is_slide():
            sl = tuple(rng.choice([-1, 0, 1, 1, 1, 2, 2, 3, n, n + 1]) for _ in range(rng.randint(0, n + 1)))
        else:
            sl = None if rng.random() < 0.8 else (1,)
        out.append(tak.Move(x, y, t, sl))
    return out


def partway_slides(tak, p):
    """slides that are refused after at least one drop was already stored: run off the board / into a wall / capstone"""
    out = []
    n = p.size
    if p.ply < 2:
        return out
    for i, sq in enumerate(p.board):
        if not sq or sq[0].color != p.to_move():
            continue
        x, y = i % n, i // n
        for t in (tak.MoveType.SLIDE_LEFT, tak.MoveType.SLIDE_RIGHT, tak.MoveType.SLIDE_UP, tak.MoveType.SLIDE_DOWN):
            dx, dy = t.direction()
            steps = 0
            cx, cy = x + dx, y + dy
            blocked = None
            while 0 <= cx < n and 0 <= cy < n:
                o = p.board[cx + cy * n]
                if o and o[0].kind != tak.Kind.FLAT and steps >= 1 and blocked is None:
                    blocked = steps
                steps += 1
                cx, cy = cx + dx, cy + dy
            h = min(len(sq), n)
            if 1 <= steps < h:
                out.append(tak.Move(x, y, t, (1,) * (steps + 1)))          # leaves the board after `steps` drops
            if blocked is not None and blocked + 1 <= h:
                out.append(tak.Move(x, y, t, (1,) * (blocked + 1)))        # hits a wall/capstone after `blocked` drops
    return out


def playout(rng, tak, size, depth, prefer_slides=0.5):
    p = tak.Position.from_config(tak.Config(size=size))
    for _ in range(depth):
        if p.winner()[0] is not None or p.winner()[1] is not None:
            break
        ms = p.all_moves()
        if not ms:
            break
        sl = [m for m in ms if m.type.is_slide()]
        m = rng.choice(sl) if sl and rng.random() < prefer_slides else rng.choice(ms)
        try:
            p = p.move(m)
        except tak.IllegalMove:
            continue
    return p


# --------------------------------------------------------------------------
# D (a): heap-graph correspondence
# --------------------------------------------------------------------------
class HeapEnc:
    """location numbering of the list objects reachable from the arguments of one call"""

    def __init__(self):
        self.objs = []        # (object, kind) by location
        self.loc = {}         # id -> location
        self.lits = []

    def add_list(self, lst, lit):
        self.loc[id(lst)] = len(self.objs)
        self.objs.append(lst)
        self.lits.append(lit)
        return len(self.objs) - 1

    def add_board(self, board):
        for sq in board:
            if id(sq) not in self.loc:
                self.add_list(sq, [-1] * len(sq))
        return self.add_list(board, [self.loc[id(sq)] for sq in board])

    def add_pos(self, p, nfields=4, board_slot=3):
        b = self.add_board(p.board)
        lit = [-1] * nfields
        lit[board_slot] = b
        self.loc[id(p)] = len(self.objs)
        self.objs.append(p)
        self.lits.append(lit)
        return len(self.objs) - 1

    def snapshot(self):
        return [None if not isinstance(o, list) else tuple(id(x) for x in o) for o in self.objs]

    def literal(self):
        return clist([core.czlist(o) for o in self.lits])

    def graph(self, board):
        """(board tag, [(tag, len)]) as model/HeapObs.v computes it"""
        n0 = len(self.objs)
        bt = self.loc.get(id(board), n0)
        seen = {}
        out = []
        for sq in board:
            if not isinstance(sq, list):
                out.append((-1, 0))
            elif id(sq) in self.loc:
                out.append((self.loc[id(sq)], len(sq)))
            else:
                r = seen.setdefault(id(sq), len(seen))
                out.append((n0 + r, len(sq)))
        return bt, out


def _graph_cases(run, world):
    tak, tps, symmetry = _impl()
    rng = run.rng
    tracer = heap_ir.Tracer(world)
    board_slot = world.fnames.index("board")
    nf = len(world.fnames)
    fams = {}
    stats = {"calls": 0, "return": 0, "raise": 0, "crash": 0, "partway_refused": 0, "trace_problem": 0}
    dist = {}
    seen_hash = set()
    nontrivial = 0
    samples = []
    frame_violations = []

    def fam(name):
        if name not in fams:
            field = "None" if name == "parse_row" else f"(Some {board_slot}%nat)"
            fams[name] = core.Cases(ID, "graph_" + name,
                                    "From Coq Require Import ZArith List.\nFrom TV Require Import model.HeapSem model.HeapObs gen.HeapIR.\nImport ListNotations.",
                                    "gcase", f"check_case {name}_ir {field}",
                                    show=f"view_case {name}_ir {field}", shard=300)
        return fams[name]

    def one(name, enc, args, fn, fargs, desc, partway=False):
        nonlocal nontrivial
        before = enc.snapshot()
        res, exc, orc, problem = tracer.run(fn, *fargs)
        stats["calls"] += 1
        dist[name] = dist.get(name, 0) + 1
        # implementation side: every pre-existing list object is the same object with the same elements
        after = enc.snapshot()
        if before != after:
            changed = [l for l, (a, b) in enumerate(zip(before, after)) if a != b]
            desc = dict(desc, objects_before=[None if a is None else len(a) for a in before],
                        objects_after=[None if a is None else len(a) for a in after])
            frame_violations.append({"function": name, "input": desc, "changed_locations": changed,
                                     "outcome": "raise " + repr(exc) if exc else "return"})
        if exc is not None and type(exc).__name__ not in ("IllegalMove", "IllegalTPS", "ValueError"):
            stats["crash"] += 1
            return
        if problem:
            stats["trace_problem"] += 1
            return
        orc = [min(int(o), 9999) for o in orc]
        if exc is not None:
            stats["raise"] += 1
            expected = f"(1, 0, [])"
            nt = (len(orc) > 12) if partway == "late" else bool(partway)   # "late": refused after some rows were built
            if nt:
                stats["partway_refused"] += 1
        else:
            stats["return"] += 1
            board = res if name == "parse_row" else res.board
            bt, sq = enc.graph(board)
            expected = f"(0, {cz(bt)}, {clist([f'({cz(a)}, {cz(b)})' for a, b in sq])})"
            n0 = len(enc.objs)
            tags = [a for a, _ in sq]
            nt = any(0 <= a < n0 for a in tags) or len(set(tags)) < len(tags)
        term = f"({enc.literal()}, {core.czlist(args)}, {core.czlist(orc)}, {expected})"
        h = hashlib.sha256((name + term).encode()).hexdigest()
        if h not in seen_hash:
            seen_hash.add(h)
            nontrivial += bool(nt)
        meta = {"function": name, "input": desc, "oracle": orc[:200], "expected": expected[:300]}
        fam(name).add(term, meta)
        if len(samples) < 40 and (nt or rng.random() < 0.02):
            samples.append({"function": name, "input": desc, "outcome": "raise" if exc else "return"})

    def call_move(p, m, partway=False):
        enc = HeapEnc()
        lp = enc.add_pos(p, nf, board_slot)
        nd = {"deep": copy.deepcopy(p), "full": fullsnap(p), "hash": safe_hash(p)}
        desc = {"position": takio.j_pos(p), "move": takio.j_move(m)}
        one("move", enc, [lp, -1], p.move, (m,), desc, partway)
        wd = whole_value_diff(p, nd)
        if wd:
            frame_violations.append({"function": "move", "input": desc, "changed_locations": [],
                                     "fields_differing_from_creation_time_deep_copy": wd, "fields_now": _jfields(p, wd),
                                     "fields_at_creation": _jfields(nd["deep"], wd), "outcome": "whole value changed"})

    # tall towers: heights 2*size+1 .. 3*size+2, every slide from the tower square in the id table (accepted, refused by
    # a wall / capstone on the path, leaving the board), receivers built by from_squares and by parse_tps
    from tak.model import encoding
    for size in ([3, 4, 5] if run.quick else [3, 4, 5, 6]):
        tb = [encoding.decode_move(size, i) for i in range(encoding.n_moves_for_size(size))]
        for h in range(2 * size + 1, 3 * size + 3):
            squares, ply, focus = tall_squares(rng, tak, size, h)
            p = tak.Position.from_squares(tak.Config(size=size), squares, ply)
            if h % 2:
                p = tps.parse_tps(tps.format_tps(p))
            ms = [m for m in tb if (m.x, m.y) == focus and m.type.is_slide()]
            pw = partway_slides(tak, p)
            for m in rng.sample(ms, min(len(ms), 6 if run.quick else 30)) + rng.sample(pw, min(len(pw), 3)):
                call_move(p, m, partway=m in pw)

    n_pos = 170 if run.quick else 1500
    tps_texts = []
    for k in range(n_pos):
        size = rng.choice([3, 3, 4, 4, 5, 5, 6])
        p = playout(rng, tak, size, rng.randint(0, 12 * size), prefer_slides=0.6)
        if k % 3 == 0:      # boards parsed from TPS share ONE empty list among the squares of an `x<n>` run
            text = tps.format_tps(p)
            tps_texts.append(text)
            p = tps.parse_tps(text)
        legal = p.all_moves()
        slides = [m for m in legal if m.type.is_slide() and len(m.slides) >= 2]
        picks = rng.sample(legal, min(2, len(legal))) + rng.sample(slides, min(2, len(slides)))
        for m in picks:
            call_move(p, m)
        pw = partway_slides(tak, p)
        for m in rng.sample(pw, min(2, len(pw))):
            call_move(p, m, partway=True)
        for m in illformed_moves(rng, tak, size, 3):
            call_move(p, m)
        if k % 4 == 0:
            s = symmetry.SYMMETRIES[rng.randrange(8)]
            enc = HeapEnc()
            lp = enc.add_pos(p, nf, board_slot)
            one("transform_position", enc, [-1, lp], symmetry.transform_position, (s, p),
                {"position": takio.j_pos(p), "symmetry": [[int(v) for v in r] for r in s]})
        if k % 4 == 1:
            squares = [list(sq) for sq in p.board]
            if rng.random() < 0.3:
                squares[rng.randrange(len(squares))] = squares[0]          # caller-made sharing
            if rng.random() < 0.15:
                squares = squares[:-1]                                      # wrong size: refused
            enc = HeapEnc()
            lb = enc.add_board(squares)
            one("from_squares", enc, [-1, -1, lb, -1], tak.Position.from_squares, (tak.Config(size=p.size), squares, p.ply),
                {"size": p.size, "ply": p.ply, "squares": [[takio.c_piece(x) for x in sq] for sq in squares]})
        if k % 10 == 2:
            one("from_config", HeapEnc(), [-1, -1], tak.Position.from_config, (tak.Config(size=size),), {"size": size})
    # parsing: well-formed texts (x-runs share one list), mutated texts (refused, some part-way through a row)
    texts = list(tps_texts) + ["x3/x3/x3 1 1", "x5/x5/x5/x5/x5 2 1", "x,1,x/x3/2,x2 1 2", "1,x,x/x2,21S/x,2C,x 2 3"]
    alphabet = "12SCx,/ 345"
    # a move number int() refuses to convert (exercises the try/except of parse_tps, when there is one)
    for t in ("x3/x3/x3 1 " + "1" * 4400, "x3/x2,1/x3 2 " + "7" * 5000):
        one("parse_tps", HeapEnc(), [-1], tps.parse_tps, (t,), {"tps": t[:40] + "...(%d digits)" % (len(t) - 12)})
    for t in list(texts):
        for _ in range(2):
            i = rng.randrange(len(t))
            c = rng.choice(alphabet)
            texts.append(t[:i] + c + t[i + (rng.random() < 0.5):])
    for t in texts:
        one("parse_tps", HeapEnc(), [-1], tps.parse_tps, (t,), {"tps": t}, partway="late")
        row = rng.choice(t.split(" ")[0].split("/"))
        one("parse_row", HeapEnc(), [-1], tps.parse_row, (row,), {"row": row})
    return fams, stats, dist, nontrivial, samples, frame_violations


def _run_graph(run):
    world = _STATE.get("world")
    irs = _STATE.get("irs")
    if world is None or irs is None:
        irs, errors, world = pregen_quiet()
    if world is None:
        run.oblige("correspondence:heap-graph", False, "the translator could not read class Position")
        return
    t0 = time.time()
    with core.BuildLock():       # model/HeapObs.vo is not a dependency of props/C05.vo: build it (and gen/HeapIR.vo) here
        okm, mlog, _ = core.coq_make(MODEL_TARGETS)
    if not okm:
        run.oblige("build:model (HeapSem, HeapObs, gen/HeapIR)", False, mlog[-1500:])
        return
    fams, stats, dist, nontrivial, samples, frame_violations = _graph_cases(run, world)
    for fv in frame_violations[:5]:
        key = "frame-" + hashlib.sha256(json.dumps(fv["input"], sort_keys=True).encode()).hexdigest()[:10]
        run.violation(key, {"clause": "a call changed a list object that existed before it (receiver's board list or one of its stacks)",
                            "kind": "frame", **fv})
    total = 0
    for name, cs in fams.items():
        if irs.get(name) is None:
            run.assumptions.append(f"heap-graph cases of {name} skipped: the function could not be translated")
            continue
        total += len(cs)
        failing, shard_fail, nshards = cs.run()
        run.oblige(f"correspondence:heap-graph:{name} ({len(cs)} calls, {nshards} shards)", not shard_fail and not failing,
                   (str(shard_fail)[:800] + " " + json.dumps(failing[:2])[:1200]) if (shard_fail or failing) else "")
        for meta in failing[:3]:
            view = cs.model_view(cs.terms[cs.metas.index(meta)])
            run.extra.setdefault("heap_graph_disagreements", []).append({**meta, "model_view": view})
    stats["wall_s"] = round(time.time() - t0, 1)
    run.count(total, nontrivial,
              "calls of move / from_squares / from_config / parse_row / parse_tps / transform_position run under sys.settrace; "
              "the IR is executed in Coq on the recorded heap + oracle and must give the same outcome, leave the recorded "
              "heap unchanged and produce the same sharing graph (per square: which pre-existing object, or which new "
              "object by first appearance, and its length); non-trivial = result shares an object with its input or "
              "within itself, or a refusal after at least one store (distinct by hash of the whole case)",
              samples, {**stats, **{"fn_" + k: v for k, v in dist.items()}}, label="heap-graph")


def pregen_quiet():
    class _R:
        extra = {}

        def oblige(self, *a, **k):
            pass
    return pregen(_R())


# --------------------------------------------------------------------------
# D (b): behavioural family / search oracle - snapshots over a growing game tree
# --------------------------------------------------------------------------
class Tree:
    """positions retained as a search holds them; every list object they reach is snapshotted when first seen"""

    def __init__(self, tak, tps, symmetry):
        self.tak, self.tps, self.symmetry = tak, tps, symmetry
        self.nodes = []          # dict(pos, path, snap)
        self.objs = {}           # id(list) -> (list, tuple snapshot of element ids, [node indices])
        self.calls = 0
        self.refused = 0
        self.accepted = 0

    # path: ("config", size) | ("tps", text) | ("squares", size, ply, board) | ("move", parent index, move json) | ("sym", parent index, k)
    def add(self, p, path, focus=None):
        i = len(self.nodes)
        self.nodes.append({"pos": p, "path": path, "snap": freeze(p), "deep": copy.deepcopy(p), "full": fullsnap(p),
                           "hash": safe_hash(p), "focus": focus})
        for lst in [p.board] + list(p.board):
            ent = self.objs.get(id(lst))
            if ent is None:
                self.objs[id(lst)] = (lst, tuple(id(x) for x in lst), [i])
            else:
                ent[2].append(i)
        return i

    def shared_nonempty(self, i):
        """two squares of one board that are the same non-empty list object (aliasing created by the producer)"""
        b = self.nodes[i]["pos"].board
        seen = {}
        for k, sq in enumerate(b):
            if id(sq) in seen and len(sq) > 0:
                return (seen[id(sq)], k)
            seen.setdefault(id(sq), k)
        return None

    def check_objs(self, lists):
        """-> (list object, indices of the retained positions holding it) of the first changed object, else None"""
        for lst in lists:
            ent = self.objs.get(id(lst))
            if ent is not None and ent[1] != tuple(id(x) for x in lst):
                return ent
        return None

    def sweep(self, full=True):
        for ent in self.objs.values():
            if ent[1] != tuple(id(x) for x in ent[0]):
                return ent
        for i, nd in enumerate(self.nodes):
            if freeze(nd["pos"]) != nd["snap"] or not (nd["pos"] == nd["deep"]) or (full and whole_value_diff(nd["pos"], nd)):
                return (None, None, [i])
        return None

    def lineage(self, i):
        out = []
        while True:
            path = self.nodes[i]["path"]
            out.append(list(path))
            if path[0] in ("move", "sym"):
                i = path[1]
            else:
                break
        return list(reversed(out))


def rebuild(tak, tps, symmetry, lineages):
    """rebuild positions along lineages, sharing common prefixes (so siblings share stacks as they did); -> all positions built"""
    memo = {}
    built = []

    def go(prefix):
        key = json.dumps(prefix, sort_keys=True)
        if key in memo:
            return memo[key]
        step = prefix[-1]
        if step[0] == "config":
            p = tak.Position.from_config(tak.Config(size=step[1]))
        elif step[0] == "tps":
            p = tps.parse_tps(step[1])
        elif step[0] == "squares":
            P = lambda c: tak.Piece.cached(tak.Color("WB".index(c[0])), tak.Kind("FSC".index(c[1])))  # noqa: E731
            p = tak.Position.from_squares(tak.Config(size=step[1]), [[P(c) for c in sq] for sq in step[3]], step[2])
        elif step[0] == "move":
            p = go(prefix[:-1]).move(takio.mk_move(step[2]))
        else:
            p = symmetry.transform_position(symmetry.SYMMETRIES[step[2]], go(prefix[:-1]))
        memo[key] = p
        built.append(p)
        return p
    tips = [go(lin) for lin in lineages]
    return tips, built


def _grow(run, budget_s, sizes, n_roots, all_table, label):
    tak, tps, symmetry = _impl()
    from tak.model import encoding
    rng = run.rng
    T = Tree(tak, tps, symmetry)
    t0 = time.time()
    found = None
    tables = {n: [encoding.decode_move(n, i) for i in range(encoding.n_moves_for_size(n))] for n in sizes}
    ill = {n: illformed_moves(rng, tak, n, 200) for n in sizes}

    def violation(kind, recv, move, ent, extra=None):
        holders = ent[2] if ent else []
        w = holders[0] if holders else recv
        rp = {"clause": "a position stays equal to the snapshot taken when it was created", "kind": kind,
              "receiver": _jsnap(T.nodes[recv]["snap"]),
              "move": takio.j_move(move) if move is not None else None,
              "receiver_lineage": T.lineage(recv), "changed_position_lineage": T.lineage(w),
              "changed_position_before": _jsnap(T.nodes[w]["snap"]),
              "changed_position_after": _jsnap(freeze(T.nodes[w]["pos"])),
              "changed_position_is_receiver": w == recv, "retained_positions": len(T.nodes)}
        wd = whole_value_diff(T.nodes[w]["pos"], T.nodes[w])
        if wd:
            rp["fields_differing_from_creation_time_deep_copy"] = wd
            rp["fields_now"] = _jfields(T.nodes[w]["pos"], wd)
            rp["fields_at_creation"] = _jfields(T.nodes[w]["deep"], wd)
        rp.update(extra or {})
        return rp

    def try_move(i, m):
        nd = T.nodes[i]
        p = nd["pos"]
        T.calls += 1
        blocked = False
        try:
            q = p.move(m)
        except tak.IllegalMove as ex:
            q = None
            T.refused += 1
            blocked = "slide onto" in str(ex)
        except Exception:  # noqa  (C01's business; still must not mutate)
            q = None
            T.refused += 1
        ent = T.check_objs([p.board] + list(p.board))
        if ent is not None or freeze(p) != nd["snap"]:
            return violation("move-changed-a-retained-position", i, m, ent), None
        # whole-value comparison with the deep copy taken at creation: `==` after every call; also hash and attrs.asdict
        # of all fields after a slide refused by a wall / capstone on its path (and for everything in the final sweep)
        if not (p == nd["deep"]) or (blocked and whole_value_diff(p, nd)):
            return violation("move-changed-the-whole-value-of-a-retained-position", i, m, None), None
        if q is not None:
            T.accepted += 1
        return None, q

    # roots
    for r in range(n_roots):
        n = sizes[r % len(sizes)]
        if r % 3 == 2:
            src = playout(rng, tak, n, rng.randint(2, 6 * n))
            text = tps.format_tps(src)
            i = T.add(tps.parse_tps(text), ("tps", text))
        else:
            i = T.add(tak.Position.from_config(tak.Config(size=n)), ("config", n))
        bad = T.shared_nonempty(i)
        if bad:
            return T, {"kind": "producer-created-aliasing", "clause": "squares of a produced board share a non-empty stack object",
                       "lineage": T.lineage(i), "squares": list(bad), "position": _jsnap(freeze(T.nodes[i]["pos"]))}
    frontier = list(range(len(T.nodes)))
    # tall towers (2*size+1 .. 3*size+2 high): built by from_squares and by parse_tps, and (sizes 3, 4) reached by play
    # with every position on the way retained; they are expanded first, with every table slide from the tower square
    first = []
    for n in sizes:
        for h in range(2 * n + 1, 3 * n + 3):
            squares, ply, focus = tall_squares(rng, tak, n, h)
            jb = [[takio.c_piece(x) for x in sq] for sq in squares]
            p = tak.Position.from_squares(tak.Config(size=n), squares, ply)
            first.append(T.add(p, ("squares", n, ply, jb), focus))
            text = tps.format_tps(p)
            first.append(T.add(tps.parse_tps(text), ("tps", text), focus))
        if n <= 4:
            for _ in range(2):
                j = T.add(tak.Position.from_config(tak.Config(size=n)), ("config", n))
                for m, q in tower_playout(rng, tak, n, min(3 * n + 2, 2 * n + 5)):
                    j = T.add(q, ("move", j, takio.j_move(m)))
                    frontier.append(j)
                top = max(range(n * n), key=lambda k: len(T.nodes[j]["pos"].board[k]))
                T.nodes[j]["focus"] = (top % n, top // n)
                first.append(j)
    run.extra.setdefault("tall_tower_roots", {})["".join(map(str, sizes))] = [
        max(len(sq) for sq in T.nodes[i]["pos"].board) for i in first]
    done = 0
    while (frontier or first) and time.time() - t0 < budget_s and found is None:
        if first:
            i = first.pop(0)
        else:
            i = frontier.pop(rng.randrange(len(frontier))) if rng.random() < 0.7 else frontier.pop(0)
        p = T.nodes[i]["pos"]
        n = p.size
        focus = T.nodes[i]["focus"]
        legal = p.all_moves() if p.winner() == (None, None) else []
        attempts = list(legal)
        tb = tables[n]
        attempts += tb if (all_table or len(tb) <= 200) else rng.sample(tb, 200)
        if focus is not None:
            attempts += [m for m in tb if (m.x, m.y) == focus] + partway_slides(tak, p)
        attempts += rng.sample(ill[n], 40)
        attempts = list(dict.fromkeys(attempts))       # each (retained position, move) pair once; legal moves stay first
        kids = set(rng.sample(range(len(legal)), min(len(legal), 3))) if legal else set()
        for k, m in enumerate(attempts):
            found, q = try_move(i, m)
            if found:
                break
            if q is not None and k in kids:
                j = T.add(q, ("move", i, takio.j_move(m)), focus)
                (first if focus is not None and len(first) < 40 and m.type.is_slide() else frontier).append(j)
                bad = T.shared_nonempty(j)
                if bad:
                    found = {"kind": "producer-created-aliasing", "clause": "squares of a produced board share a non-empty stack object",
                             "lineage": T.lineage(j), "squares": list(bad), "position": _jsnap(freeze(q))}
                    break
        if found:
            break
        done += 1
        if done % 7 == 0:            # symmetric images share every stack with their source
            k = rng.randrange(8)
            q = symmetry.transform_position(symmetry.SYMMETRIES[k], p)
            T.calls += 1
            ent = T.check_objs([p.board] + list(p.board))
            if ent is not None:
                found = violation("transform-changed-a-retained-position", i, None, ent, {"symmetry": k})
                break
            frontier.append(T.add(q, ("sym", i, k)))
        if done % 11 == 0:           # re-parse: the parser must not touch anything retained
            text = tps.format_tps(p)
            q = tps.parse_tps(text)
            T.calls += 1
            j = T.add(q, ("tps", text))
            frontier.append(j)
            bad = T.shared_nonempty(j)
            if bad:
                found = {"kind": "producer-created-aliasing", "clause": "squares of a produced board share a non-empty stack object",
                         "lineage": T.lineage(j), "squares": list(bad), "position": _jsnap(freeze(q))}
                break
        if done % 50 == 0:
            ent = T.sweep(full=False)
            if ent is not None:
                found = violation("sweep-found-a-changed-position", ent[2][0], None, ent,
                                  {"note": "found by the periodic full sweep; the changing call is among the last 50 expansions"})
                break
    if found is None:
        ent = T.sweep()
        if ent is not None:
            found = violation("sweep-found-a-changed-position", ent[2][0], None, ent, {"note": "found by the final full sweep"})
    return T, found


def _jsnap(s):
    size, ply, stones, board = s
    return {"size": size, "ply": ply, "stones": [[c.stones, c.caps] for c in stones],
            "board": [[takio.c_piece(x) for x in sq] for sq in board]}


def _run_tree(run, budget_s=None, label="game-tree"):
    quick = run.quick
    plans = [([3], 6, True, 9 if quick else 60), ([4], 6, True, 9 if quick else 90), ([5, 6], 6, False, 7 if quick else 90)]
    tot_calls = tot_pos = tot_ref = tot_acc = 0
    dist = {}
    for sizes, roots, all_table, budget in plans:
        T, found = _grow(run, budget_s or budget, sizes, roots, all_table, label)
        tot_calls += T.calls
        tot_pos += len(T.nodes)
        tot_ref += T.refused
        tot_acc += T.accepted
        dist["sizes" + "".join(map(str, sizes))] = {"retained_positions": len(T.nodes), "calls": T.calls, "refused": T.refused,
                                                   "accepted": T.accepted, "list_objects_tracked": len(T.objs)}
        if found:
            key = found["kind"] + "-" + hashlib.sha256(json.dumps(found, sort_keys=True, default=str).encode()).hexdigest()[:10]
            run.violation(key, found)
            break
    run.count(tot_calls, tot_acc,
              "every position of a growing game tree is retained; all table moves of its size (sampled 200 for sizes >= 5), "
              "its legal moves and 40 ill-formed moves are tried against each expanded position; after every call the "
              "receiver's board list and every stack it references are compared (by element identity) with the snapshot taken "
              "when they were first seen, which covers every retained position sharing them; full structural sweep of all "
              "retained positions every 50 expansions and at the end; TPS-parsed roots (shared empty list) and symmetric "
              "images included; each (retained position object, move) pair is tried once (distinct by construction: transposed "
              "positions are different objects with different sharing); non-trivial = accepted calls (they allocate and "
              "share stacks with the receiver)",
              [{"retained_positions": tot_pos, "calls": tot_calls}], dist, label=label)
    run.extra["tree"] = {"retained_positions": tot_pos, "calls": tot_calls, "refused": tot_ref, "accepted": tot_acc}
    return tot_calls


def correspondence(run):
    _impl()
    _run_graph(run)
    _run_tree(run)
    run.extra["exhaustive"] = False


def search(run, broken):
    """a translation / proof obligation / heap-graph shard broke and nothing concrete was found yet: run the
    property's own oracle (snapshots over a game tree) with a larger budget and a different stream"""
    before = len(run.violations) + len(run.known)
    run.rng.seed(run.seed + 1)
    _run_tree(run, budget_s=12 if run.quick else 120, label="search")
    return len(run.violations) + len(run.known) > before


def replay(run, rp):
    tak, tps, symmetry = _impl()
    kind = rp.get("kind")
    if kind == "frame":
        inp = rp["input"]
        fn = rp["function"]
        if fn == "move":
            p = takio.mk_pos(inp["position"])
            before = (id(p.board), [id(s) for s in p.board], freeze(p))
            nd = {"deep": copy.deepcopy(p), "full": fullsnap(p), "hash": safe_hash(p)}
            try:
                p.move(takio.mk_move(inp["move"]))
                out = "accepted"
            except Exception as ex:  # noqa
                out = "refused: " + repr(ex)
            after = (id(p.board), [id(s) for s in p.board], freeze(p))
            wd = whole_value_diff(p, nd)
            return {"violates": before != after or bool(wd), "outcome": out, "before": _jsnap(before[2]), "after": _jsnap(after[2]),
                    "whole_value_fields_changed": wd, "fields_now": _jfields(p, wd), "fields_at_creation": _jfields(nd["deep"], wd)}
        return {"violates": None, "note": "replay implemented for move inputs; rerun the check for " + fn}
    if kind == "producer-created-aliasing":
        tips, _ = rebuild(tak, tps, symmetry, [rp["lineage"]])
        b = tips[0].board
        bad = [(i, j) for i in range(len(b)) for j in range(i + 1, len(b)) if b[i] is b[j] and len(b[i]) > 0]
        return {"violates": bool(bad), "shared_nonempty_squares": bad[:5]}
    if "receiver_lineage" in rp:
        tips, built = rebuild(tak, tps, symmetry, [rp["receiver_lineage"], rp["changed_position_lineage"]])
        snaps = [freeze(p) for p in built]
        nds = [{"deep": copy.deepcopy(p), "full": fullsnap(p), "hash": safe_hash(p)} for p in built]
        recv = tips[0]
        out = None
        try:
            if rp.get("move") is not None:
                recv.move(takio.mk_move(rp["move"]))
            elif rp.get("symmetry") is not None:
                symmetry.transform_position(symmetry.SYMMETRIES[rp["symmetry"]], recv)
            out = "accepted"
        except Exception as ex:  # noqa
            out = "refused: " + repr(ex)
        changed = [k for k, p in enumerate(built) if freeze(p) != snaps[k]]
        whole = {k: whole_value_diff(p, nds[k]) for k, p in enumerate(built)}
        whole = {k: v for k, v in whole.items() if v}
        return {"violates": bool(changed or whole), "outcome": out,
                "changed": [{"before": _jsnap(snaps[k]), "after": _jsnap(freeze(built[k]))} for k in changed[:3]],
                "whole_value_fields_changed": {str(k): {"fields": v, "now": _jfields(built[k], v), "at_creation": _jfields(nds[k]["deep"], v)}
                                               for k, v in list(whole.items())[:3]}}
    # a broken obligation without a concrete input: re-run the oracle
    T, found = _grow(run, 20, [3, 4], 6, True, "replay")
    return {"violates": bool(found), "found": found}
