"""data2coq - fail-closed translator (Python `ast`, nothing is executed) of

    python/xformer/data/__init__.py : Dataset.__attrs_post_init__, __len__, _next_epoch, fastforward_epochs, __iter__
                                      (__getstate__, __setstate__, pin, transient, Batch and the field list are PINNED)
    python/tak/alphazero/data.py    : ReplayBufferDataset.__attrs_post_init__, cat_replay_buffer, __iter__
                                      (pin, ReplayBufferBatch and the field list are PINNED)

into Gallina (coq/gen/DatasetGen.v), a shallow embedding written against coq/model/TorchData.v.
`translate(repo_python) -> (coq text, error or None)`; on failure a stub is returned so that every proof about the
generated names fails to compile.

Scheme: one Gallina function per method; every operation that can raise is bound (`x <- op ;; ...`) in Python's
evaluation order; assignments to locals / attributes / items shadow (`let self := set_data self ... in`); a method that
mutates `self` (attribute or item assignment, `torch.randperm(..., generator=self.generator)`, a call of such a method)
returns the new `self` next to its value; `torch.randperm(n)` without a generator threads the global generator `grng`;
`for` loops become `Fixpoint <f>_for<k>` over the iterated list with the variables the body assigns as state; `yield`
(only as a statement of a loop body) collects the batches of a completely consumed generator; `if` without `return`
rebinds the variables its branches assign.  torch.load / torch.Generator().manual_seed / torch.randperm are the
Section variables `load`, `seed_gen`, `randperm`.  `.to(self.device)`, `self.pin(..)`, `self.batch_class(..)`,
`ReplayBufferBatch(..)` are identities (their sources are pinned).  Anything else raises Untranslatable."""
import ast
import hashlib
import sys
from pathlib import Path


class Untranslatable(Exception):
    pass


def bad(node, why):
    line = getattr(node, "lineno", "?")
    raise Untranslatable(f"line {line}: {why}: {ast.dump(node)[:160] if isinstance(node, ast.AST) else node}")


KEYWORDS = {"in", "at", "as", "fix", "fun", "let", "end", "if", "then", "else", "match", "with", "return", "for", "where",
            "using", "mask", "load", "gen", "randperm", "seed_gen", "cast", "erase", "row", "batch", "epoch", "data", "step", "op"}


def ident(name):
    if name == "_":
        return "_"
    return name + "_" if name in KEYWORDS or name.startswith("__") else name


# ---------------------------------------------------------------------------------------------------------------------
# pinned sources (compared by ast.dump; a change fails the translation)
# ---------------------------------------------------------------------------------------------------------------------
PIN_XFORMER = '''
class BatchProtocol(train.Batch, T.Protocol):
    def __init__(self, data: dict[str, torch.Tensor]):
        ...


@define
class Batch(BatchProtocol):
    data: dict[str, torch.Tensor]

    @property
    def inputs(self):
        return self.data["inputs"]


def transient(**kwargs):
    kwargs.setdefault("metadata", {})["transient"] = True
    kwargs["init"] = False
    return field(**kwargs)
'''
PIN_DS_METHODS = '''
def __getstate__(self):
    return {
        f.name: getattr(self, f.name)
        for f in attrs.fields(type(self))
        if not f.metadata.get("transient")
    }

def __setstate__(self, state):
    for (k, v) in state.items():
        setattr(self, k, v)
    self.__attrs_post_init__()

def pin(self, tensor):
    if self.device.startswith("cuda"):
        return tensor.pin_memory()
    return tensor
'''
# (name, default) of the attrs fields, in order; `transient()` = init=False, absent until post-init
DS_FIELDS = [("path", None), ("batch_size", None), ("batches", "Constant(value=None)"), ("device", "Constant(value='cpu')"),
             ("seed", "Constant(value=305419896)"), ("batch_class", "Name(id='Batch', ctx=Load())"),
             ("data", "Call(func=Name(id='transient', ctx=Load()), args=[], keywords=[])"),
             ("generator", "Call(func=Name(id='transient', ctx=Load()), args=[], keywords=[])")]
DS_DECORATORS = ["Call(func=Name(id='define', ctx=Load()), args=[], keywords=[keyword(arg='getstate_setstate', value=Constant(value=False))])"]
DS_METHODS = ["__getstate__", "__setstate__", "__attrs_post_init__", "__len__", "pin", "_next_epoch", "fastforward_epochs", "__iter__"]

PIN_RB_BATCH = '''
@define
class ReplayBufferBatch:
    data: dict[str, torch.Tensor]

    @property
    def inputs(self):
        return self.data["positions"]

    @property
    def mask(self):
        return self.data["mask"]

    @property
    def extra_inputs(self):
        return (~self.mask,)

    @property
    def moves(self):
        return self.data["moves"]

    @property
    def values(self):
        # Experiment with rollout result here instead
        return self.data["values"]
'''
RB_FIELDS = [("replay_buffer", None), ("batch_size", None), ("device", None),
             ("flat_replay_buffer", "Call(func=Name(id='field', ctx=Load()), args=[], keywords=[keyword(arg='init', value=Constant(value=False))])")]
RB_DECORATORS = ["Name(id='define', ctx=Load())"]
RB_METHODS = ["__attrs_post_init__", "cat_replay_buffer", "pin", "__iter__"]


def dump(node):
    return ast.dump(node)


def pinned(found, ref_src, what):
    ref = {n.name: dump(n) for n in ast.parse(ref_src).body}
    for name, d in ref.items():
        if name not in found:
            raise Untranslatable(f"pinned definition `{name}` ({what}) is missing")
        if dump(found[name]) != d:
            raise Untranslatable(f"pinned definition `{name}` ({what}) changed (line {found[name].lineno})")


def check_class(cls, fields, decorators, methods, what):
    if [dump(d) for d in cls.decorator_list] != decorators or cls.bases or cls.keywords:
        raise Untranslatable(f"{what}: decorators / bases changed")
    got_fields, got_methods = [], {}
    for st in cls.body:
        if isinstance(st, ast.AnnAssign) and isinstance(st.target, ast.Name):
            got_fields.append((st.target.id, dump(st.value) if st.value is not None else None))
        elif isinstance(st, ast.FunctionDef):
            if st.decorator_list:
                bad(st, f"{what}: decorated method")
            got_methods[st.name] = st
        elif isinstance(st, ast.Expr) and isinstance(st.value, ast.Constant) and isinstance(st.value.value, str):
            continue
        else:
            bad(st, f"{what}: unexpected class-level statement")
    if got_fields != fields:
        raise Untranslatable(f"{what}: attrs field list changed: {got_fields}")
    if sorted(got_methods) != sorted(methods):
        raise Untranslatable(f"{what}: method set changed: {sorted(got_methods)}")
    return got_methods


# ---------------------------------------------------------------------------------------------------------------------
# the compositional part
# ---------------------------------------------------------------------------------------------------------------------
TY_COQ = {"Z": "Z", "bool": "bool", "tensor": "tensor", "tdict": "tdict", "fname": "fname", "list Z": "list Z",
          "list tdict": "list tdict", "list tensor": "list tensor", "list fname": "list fname", "option Z": "option Z",
          "pairs": "list (fname * tensor)", "dsobj": "(dsobj gen)", "rbobj": "rbobj", "gen": "gen", "path": "list Z"}

ATTRS = {
    "dsobj": {"path": ("o_path", "path", False), "batch_size": ("o_batch_size", "Z", False), "batches": ("o_batches", "option Z", False),
              "seed": ("o_seed", "Z", False), "data": ("get_data", "tdict", True), "generator": ("get_generator", "gen", True)},
    "rbobj": {"replay_buffer": ("rb_replay_buffer", "list tdict", False), "batch_size": ("rb_batch_size", "Z", False),
              "flat_replay_buffer": ("get_flat", "tdict", True)},
}
SETTERS = {"dsobj": {"data": ("set_data", "tdict"), "generator": ("set_generator", "gen")},
           "rbobj": {"flat_replay_buffer": ("set_flat", "tdict")}}
DTYPES = {"uint8": "UINT8", "long": "INT64", "int64": "INT64", "bool": "BOOL", "int32": "INT32"}
STRINGS = {"positions": "S_positions", "mask": "S_mask"}


def render(lines, final, ind):
    pad = " " * ind
    out = []
    for kind, pat, code in lines:
        if kind == "bind":
            out.append(f"{pad}{pat} <- {code} ;;")
        else:
            out.append(f"{pad}let {pat} := {code} in")
    out.append(f"{pad}{final}")
    return "\n".join(out)


class Method:
    """translation of one method body"""

    def __init__(self, tr, cls, fn, prefix):
        self.tr, self.cls, self.fn, self.prefix = tr, cls, fn, prefix
        self.name = prefix + fn.name.strip("_")
        self.tmp = 0
        self.loops = 0
        self.types = {}       # local variable -> type
        self.order = []       # variables in order of first definition
        self.aux = []         # Fixpoint texts
        self.lambda_depth = 0
        self.ret = None       # (code, type) of `return e`
        self.is_gen = any(isinstance(n, (ast.Yield, ast.YieldFrom)) for n in ast.walk(fn))
        self.selfty = cls

    # ---- bookkeeping
    def fresh(self):
        self.tmp += 1
        return f"t{self.tmp}"

    def define(self, name, ty):
        if name == "_":
            return
        if name in self.types and self.types[name] != ty:
            raise Untranslatable(f"{self.fn.name}: variable `{name}` changes type from {self.types[name]} to {ty}")
        if name not in self.types:
            self.types[name] = ty
            self.order.append(name)

    def mutated_by(self, stmts):
        """names (incl. 'self', 'grng') a statement list may rebind"""
        out = set()
        for st in stmts:
            for n in ast.walk(st):
                if isinstance(n, (ast.Assign, ast.AugAssign)):
                    tgts = n.targets if isinstance(n, ast.Assign) else [n.target]
                    for t in tgts:
                        base = t
                        while isinstance(base, (ast.Subscript, ast.Attribute)):
                            base = base.value
                        if isinstance(base, ast.Name):
                            out.add(base.id)
                        else:
                            bad(t, "assignment target")
                elif isinstance(n, ast.For):
                    for t in ast.walk(n.target):
                        if isinstance(t, ast.Name):
                            out.add(t.id)
                elif isinstance(n, ast.Call):
                    out |= self.tr.call_effects(n)
        return out

    # ---- expressions: returns (code, type); effects are appended to B in evaluation order
    def bind(self, B, code, ty):
        t = self.fresh()
        B.append(("bind", t, code))
        return t, ty

    def expr(self, e, B):
        if isinstance(e, ast.Name):
            if e.id == "self":
                return "self", self.selfty
            if e.id not in self.types:
                bad(e, "unknown name")
            return ident(e.id), self.types[e.id]
        if isinstance(e, ast.Constant):
            if isinstance(e.value, bool) or e.value is None:
                bad(e, "constant")
            if isinstance(e.value, int):
                return (str(e.value) if e.value >= 0 else f"({e.value})"), "Z"
            if isinstance(e.value, str):
                if e.value not in STRINGS:
                    bad(e, "string constant outside the known keys")
                return STRINGS[e.value], "fname"
            bad(e, "constant")
        if isinstance(e, ast.Attribute):
            return self.attribute(e, B)
        if isinstance(e, ast.BinOp):
            ops = {ast.Add: "+", ast.Sub: "-", ast.Mult: "*"}
            if type(e.op) not in ops:
                bad(e, "operator")
            a = self.as_int(e.left, B)
            b = self.as_int(e.right, B)
            return f"({a} {ops[type(e.op)]} {b})", "Z"
        if isinstance(e, ast.Compare):
            return self.compare(e, B)
        if isinstance(e, ast.UnaryOp) and isinstance(e.op, ast.Not):
            c, ty = self.expr(e.operand, B)
            if ty != "bool":
                bad(e, "not on a non-boolean")
            return f"(negb {c})", "bool"
        if isinstance(e, ast.Subscript):
            return self.subscript(e, B)
        if isinstance(e, ast.Call):
            return self.call(e, B)
        if isinstance(e, ast.DictComp):
            return self.dictcomp(e, B)
        if isinstance(e, (ast.ListComp, ast.GeneratorExp)):
            return self.listcomp(e, B)
        bad(e, "expression")

    def as_int(self, e, B):
        c, ty = self.expr(e, B)
        if ty == "option Z":
            c, ty = self.bind(B, f"py_int_of_opt {c}", "Z")
        if ty != "Z":
            bad(e, f"integer expected, got {ty}")
        return c

    def attribute(self, e, B):
        if isinstance(e.value, ast.Name) and e.value.id == "self":
            tab = ATTRS[self.selfty]
            if e.attr not in tab:
                bad(e, "attribute of self")
            acc, ty, eff = tab[e.attr]
            if eff:
                return self.bind(B, f"{acc} self", ty)
            return f"({acc} self)", ty
        if isinstance(e.value, ast.Name) and e.value.id == "torch" and e.attr in DTYPES:
            return DTYPES[e.attr], "Z"
        v, ty = self.expr(e.value, B)
        if ty == "tensor" and e.attr == "dtype":
            return f"(t_dtype {v})", "Z"
        if ty == "tensor" and e.attr == "shape":
            return f"(t_shape {v})", "list Z"
        bad(e, "attribute")

    def compare(self, e, B):
        if len(e.ops) != 1:
            bad(e, "chained comparison")
        op, r = e.ops[0], e.comparators[0]
        if isinstance(op, (ast.Is, ast.IsNot)) and isinstance(r, ast.Constant) and r.value is None:
            c, ty = self.expr(e.left, B)
            if ty != "option Z":
                bad(e, "`is None` on a value that is never None in the model")
            return (f"(is_some {c})" if isinstance(op, ast.IsNot) else f"(negb (is_some {c}))"), "bool"
        if isinstance(op, (ast.In, ast.NotIn)) and isinstance(r, ast.List):
            c, ty = self.expr(e.left, B)
            if ty != "fname":
                bad(e, "membership of a non-string")
            items = [self.expr(x, B)[0] for x in r.elts]
            code = f"(str_in {c} [{'; '.join(items)}])"
            return (code if isinstance(op, ast.In) else f"(negb {code})"), "bool"
        ops = {ast.Eq: "=?", ast.Lt: "<?", ast.LtE: "<=?"}
        if type(op) in ops:
            a = self.as_int(e.left, B)
            b = self.as_int(r, B)
            return f"({a} {ops[type(op)]} {b})", "bool"
        bad(e, "comparison")

    def slice_bound(self, b, B):
        if b is None:
            return "None"
        return f"(Some {self.as_int(b, B)})"

    def subscript(self, e, B):
        v, ty = self.expr(e.value, B)
        s = e.slice
        if ty == "tensor" and isinstance(s, ast.Slice):
            if s.step is not None:
                bad(e, "slice step")
            lo = self.slice_bound(s.lower, B)
            hi = self.slice_bound(s.upper, B)
            return f"(t_slice {v} {lo} {hi})", "tensor"
        if isinstance(s, (ast.Slice, ast.Tuple)):
            bad(e, "slice")
        i, ity = self.expr(s, B)
        if ty == "tensor" and ity == "list Z":
            return self.bind(B, f"t_index {v} {i}", "tensor")
        if ty == "tdict" and ity == "fname":
            return self.bind(B, f"d_get {v} {i}", "tensor")
        if ty == "list Z" and ity == "Z":
            return self.bind(B, f"py_getitem {v} {i}", "Z")
        if ty == "list tdict" and ity == "Z":
            return self.bind(B, f"py_getitem {v} {i}", "tdict")
        bad(e, f"subscript of {ty} by {ity}")

    def call(self, e, B):
        f = e.func
        src = ast.unparse(f)
        kws = {k.arg: k.value for k in e.keywords}
        if None in kws:
            bad(e, "**kwargs")
        # ---- torch / builtins
        if src == "torch.load":
            if len(e.args) != 1 or kws:
                bad(e, "torch.load arguments")
            p, ty = self.expr(e.args[0], B)
            if ty != "path":
                bad(e, "torch.load of something that is not self.path")
            return f"(load {p})", "tdict"
        if src == "torch.Generator().manual_seed":
            if len(e.args) != 1 or kws or f.value.args or f.value.keywords:
                bad(e, "manual_seed arguments")
            return f"(seed_gen {self.as_int(e.args[0], B)})", "gen"
        if src == "torch.randperm":
            if len(e.args) != 1 or set(kws) - {"generator"}:
                bad(e, "torch.randperm arguments")
            if self.lambda_depth:
                bad(e, "torch.randperm inside a comprehension (the generator would advance once per element)")
            n = self.as_int(e.args[0], B)
            if "generator" in kws:
                if ast.unparse(kws["generator"]) != "self.generator" or self.selfty != "dsobj":
                    bad(e, "generator other than self.generator")
                g, _ = self.bind(B, "get_generator self", "gen")
                p = self.fresh()
                g2 = self.fresh()
                B.append(("bind", f"'({p}, {g2})", f"torch_randperm randperm {g} {n}"))
                B.append(("let", "self", f"set_generator self {g2}"))
                return p, "list Z"
            p = self.fresh()
            B.append(("bind", f"'({p}, grng)", f"torch_randperm randperm grng {n}"))
            return p, "list Z"
        if src == "torch.zeros":
            if len(e.args) != 1 or not isinstance(e.args[0], ast.Tuple) or len(e.args[0].elts) != 2 or set(kws) != {"dtype"}:
                bad(e, "torch.zeros arguments")
            a = self.as_int(e.args[0].elts[0], B)
            b = self.as_int(e.args[0].elts[1], B)
            d, dty = self.expr(kws["dtype"], B)
            if d not in ("INT64", "BOOL"):
                bad(e, "torch.zeros dtype")
            return self.bind(B, f"torch_zeros2 {a} {b} {d}", "tensor")
        if src == "torch.cat":
            if len(e.args) != 1 or kws:
                bad(e, "torch.cat arguments")
            l, ty = self.expr(e.args[0], B)
            if ty != "list tensor":
                bad(e, "torch.cat of something that is not a list of tensors")
            return self.bind(B, f"torch_cat {l}", "tensor")
        if src == "len":
            if len(e.args) != 1 or kws:
                bad(e, "len arguments")
            if isinstance(e.args[0], ast.Name) and e.args[0].id == "self":
                return self.method_call("__len__", [], B, e)
            v, ty = self.expr(e.args[0], B)
            if ty == "tensor":
                return f"(t_len {v})", "Z"
            bad(e, f"len of {ty}")
        if src == "next":
            a = e.args[0] if len(e.args) == 1 and not kws else None
            if not (isinstance(a, ast.Call) and ast.unparse(a.func) == "iter" and len(a.args) == 1 and not a.keywords):
                bad(e, "next(..) of something that is not iter(..)")
            v, ty = self.expr(a.args[0], B)
            if ty != "list tensor":
                bad(e, "next(iter(..)) of something that is not d.values()")
            return self.bind(B, f"py_next {v}", "tensor")
        if src == "range":
            if kws or len(e.args) not in (1, 3):
                bad(e, "range arguments")
            args = [self.as_int(a, B) for a in e.args]
            if len(args) == 1:
                return f"(py_range {args[0]})", "list Z"
            return self.bind(B, f"py_range3 {args[0]} {args[1]} {args[2]}", "list Z")
        if src in ("sum", "max"):
            if len(e.args) != 1 or kws:
                bad(e, f"{src} arguments")
            l, ty = self.expr(e.args[0], B)
            if ty != "list Z":
                bad(e, f"{src} of something that is not a generator of ints")
            if src == "sum":
                return f"(py_sum {l})", "Z"
            return self.bind(B, f"py_max {l}", "Z")
        if src in ("self.batch_class", "ReplayBufferBatch"):
            if len(e.args) != 1 or kws:
                bad(e, "batch constructor arguments")
            v, ty = self.expr(e.args[0], B)
            if ty != "tdict":
                bad(e, "batch constructor of something that is not a dict of tensors")
            return v, "tdict"
        if src == "self.pin":
            if len(e.args) != 1 or kws:
                bad(e, "pin arguments")
            v, ty = self.expr(e.args[0], B)
            if ty != "tensor":
                bad(e, "pin of a non-tensor")
            return f"(t_pin {v})", "tensor"
        # ---- methods of self
        if isinstance(f, ast.Attribute) and isinstance(f.value, ast.Name) and f.value.id == "self":
            if kws:
                bad(e, "keyword arguments")
            return self.method_call(f.attr, e.args, B, e)
        # ---- methods of values
        if isinstance(f, ast.Attribute):
            v, ty = self.expr(f.value, B)
            if ty == "tdict" and f.attr in ("items", "values", "keys") and not e.args and not kws:
                return {"items": (f"(d_items {v})", "pairs"), "values": (f"(d_values {v})", "list tensor"),
                        "keys": (f"(d_keys {v})", "list fname")}[f.attr]
            if ty == "tensor" and f.attr == "long" and not e.args and not kws:
                return self.bind(B, f"t_long {v}", "tensor")
            if ty == "tensor" and f.attr == "to" and len(e.args) == 1 and not kws and ast.unparse(e.args[0]) == "self.device":
                return f"(t_to {v})", "tensor"
            if ty == "tensor" and f.attr == "size" and len(e.args) == 1 and not kws:
                return self.bind(B, f"t_size {v} {self.as_int(e.args[0], B)}", "Z")
        bad(e, "call")

    def method_call(self, mname, args, B, node):
        info = self.tr.methods.get((self.selfty, mname))
        if info is None:
            bad(node, f"call of an untranslated method `{mname}`")
        if self.lambda_depth and info["effects"]:
            bad(node, "a state-changing method inside a comprehension")
        avals = []
        if len(args) != len(info["params"]):
            bad(node, "argument count")
        for a, (pn, pty) in zip(args, info["params"]):
            c, ty = self.expr(a, B)
            if ty != pty:
                bad(node, f"argument type {ty}, expected {pty}")
            avals.append(c)
        callargs = ["self"] + (["grng"] if "grng" in info["effects"] else []) + avals
        code = f"{info['name']} " + " ".join(callargs)
        outs = []
        val = None
        if info["ret"] is not None:
            val = self.fresh()
            outs.append(val)
        if "self" in info["effects"]:
            outs.append("self")
        if "grng" in info["effects"]:
            outs.append("grng")
        pat = outs[0] if len(outs) == 1 else "'(" + ", ".join(outs) + ")"
        B.append(("bind", pat, code))
        return (val, info["ret"]) if val else ("tt", "unit")

    def comp_source(self, g, B):
        """the iterated collection of a comprehension: (code, element pattern, bound variables with types)"""
        if g.is_async:
            bad(g, "async comprehension")
        it, ty = self.expr(g.iter, B)
        if ty == "tdict":                       # iterating a dict = its keys
            it, ty = f"(d_keys {it})", "list fname"
        t = g.target
        if ty == "pairs":
            if not (isinstance(t, ast.Tuple) and len(t.elts) == 2 and all(isinstance(x, ast.Name) for x in t.elts)):
                bad(t, "target of an iteration over items()")
            k, v = t.elts[0].id, t.elts[1].id
            return it, f"'({ident(k)}, {ident(v)})", [(k, "fname"), (v, "tensor")]
        elt = {"list fname": "fname", "list tdict": "tdict", "list Z": "Z", "list tensor": "tensor"}.get(ty)
        if elt is None or not isinstance(t, ast.Name):
            bad(g, f"comprehension over {ty}")
        return it, ident(t.id), [(t.id, elt)]

    def with_locals(self, bound, f):
        saved = {n: self.types.get(n) for n, _ in bound}
        for n, ty in bound:
            self.types[n] = ty
        self.lambda_depth += 1
        try:
            return f()
        finally:
            self.lambda_depth -= 1
            for n, old in saved.items():
                if old is None:
                    self.types.pop(n, None)
                else:
                    self.types[n] = old

    def comp_filter(self, g, it, pat, bound):
        for cond in g.ifs:
            def f():
                B2 = []
                c, ty = self.expr(cond, B2)
                if B2 or ty != "bool":
                    bad(cond, "comprehension condition that can raise")
                return c
            c = self.with_locals(bound, f)
            it = f"(filter (fun {pat.lstrip(chr(39))} => {c}) {it})" if not pat.startswith("'") else \
                f"(filter (fun kv => let {pat} := kv in {c}) {it})"
        return it

    def dictcomp(self, e, B):
        if len(e.generators) != 1:
            bad(e, "nested comprehension")
        g = e.generators[0]
        it, pat, bound = self.comp_source(g, B)
        it = self.comp_filter(g, it, pat, bound)

        def f():
            B2 = []
            k, kty = self.expr(e.key, B2)
            v, vty = self.expr(e.value, B2)
            if kty != "fname" or vty != "tensor":
                bad(e, "dict comprehension that is not str -> tensor")
            return render(B2, f"Ok ({k}, {v})", 6)
        body = self.with_locals(bound, f)
        lam = f"(fun {pat} =>\n{body})" if not pat.startswith("'") else f"(fun kv => let {pat} := kv in\n{body})"
        p, _ = self.bind(B, f"mapM {lam}\n      {it}", "pairs")
        return f"(dict_of_pairs {p})", "tdict"

    def listcomp(self, e, B):
        if len(e.generators) != 1:
            bad(e, "nested comprehension")
        g = e.generators[0]
        it, pat, bound = self.comp_source(g, B)
        it = self.comp_filter(g, it, pat, bound)

        def f():
            B2 = []
            v, vty = self.expr(e.elt, B2)
            return render(B2, f"Ok {v}", 6), vty
        body, vty = self.with_locals(bound, f)
        if vty not in ("tensor", "Z"):
            bad(e, f"comprehension producing {vty}")
        lam = f"(fun {pat} =>\n{body})" if not pat.startswith("'") else f"(fun kv => let {pat} := kv in\n{body})"
        return self.bind(B, f"mapM {lam}\n      {it}", "list " + vty)

    # ---- statements
    def assign_to(self, target, code, ty, B, node):
        if isinstance(target, ast.Name):
            self.define(target.id, ty)
            B.append(("let", ident(target.id), code))
            return
        bad(node, "assignment target")

    def stmt(self, st, B, in_loop):
        if isinstance(st, ast.Expr) and isinstance(st.value, ast.Constant) and isinstance(st.value.value, str):
            return
        if isinstance(st, ast.Assign):
            if len(st.targets) != 1:
                bad(st, "multiple assignment")
            t = st.targets[0]
            c, ty = self.expr(st.value, B)            # the value is evaluated first
            if isinstance(t, ast.Name):
                return self.assign_to(t, c, ty, B, st)
            if isinstance(t, ast.Attribute) and isinstance(t.value, ast.Name) and t.value.id == "self":
                setter = SETTERS[self.selfty].get(t.attr)
                if setter is None or setter[1] != ty:
                    bad(st, "assignment to an attribute of self")
                B.append(("let", "self", f"{setter[0]} self {c}"))
                return
            if isinstance(t, ast.Subscript):
                return self.item_assign(t, c, ty, B, st)
            bad(st, "assignment target")
        if isinstance(st, ast.AugAssign):
            if not isinstance(st.target, ast.Name) or not isinstance(st.op, ast.Add):
                bad(st, "augmented assignment")
            if self.types.get(st.target.id) != "Z":
                bad(st, "+= on a non-integer")
            c = self.as_int(st.value, B)
            B.append(("let", ident(st.target.id), f"({ident(st.target.id)} + {c})"))
            return
        if isinstance(st, ast.Expr) and isinstance(st.value, ast.Call):
            self.expr(st.value, B)
            return
        if isinstance(st, ast.If):
            return self.if_stmt(st, B, in_loop)
        if isinstance(st, ast.For):
            return self.for_stmt(st, B)
        bad(st, "statement")

    def item_assign(self, t, c, ty, B, st):
        # self.data[k] = v
        if isinstance(t.value, ast.Attribute) and isinstance(t.value.value, ast.Name) and t.value.value.id == "self":
            attr = t.value.attr
            d, dty = self.attribute(t.value, B)
            k, kty = self.expr(t.slice, B)
            setter = SETTERS[self.selfty].get(attr)
            if dty != "tdict" or kty != "fname" or ty != "tensor" or setter is None:
                bad(st, "item assignment through self")
            B.append(("let", "self", f"{setter[0]} self (d_set {d} {k} {c})"))
            return
        if not isinstance(t.value, ast.Name) or t.value.id not in self.types:
            bad(st, "item assignment target")
        name = t.value.id
        nty = self.types[name]
        if nty == "tdict":
            k, kty = self.expr(t.slice, B)
            if kty != "fname" or ty != "tensor":
                bad(st, "dict item assignment")
            B.append(("let", ident(name), f"(d_set {ident(name)} {k} {c})"))
            return
        if nty == "tensor":
            # dst[r0:r1, :c1] = src
            s = t.slice
            ok = (isinstance(s, ast.Tuple) and len(s.elts) == 2 and all(isinstance(x, ast.Slice) for x in s.elts)
                  and s.elts[0].lower is not None and s.elts[0].upper is not None and s.elts[0].step is None
                  and s.elts[1].lower is None and s.elts[1].upper is not None and s.elts[1].step is None)
            if not ok or ty != "tensor":
                bad(st, "tensor block assignment of another shape than dst[a:b, :c] = src")
            r0 = self.as_int(s.elts[0].lower, B)
            r1 = self.as_int(s.elts[0].upper, B)
            c1 = self.as_int(s.elts[1].upper, B)
            B.append(("bind", ident(name), f"t_setblock {ident(name)} {r0} {r1} {c1} {c}"))
            return
        bad(st, "item assignment")

    def live_assigned(self, stmts):
        m = self.mutated_by(stmts)
        names = [n for n in ["self", "grng"] if n in m] + [n for n in self.order if n in m]
        return names

    def tuple_of(self, names):
        names = [ident(n) if n not in ("self", "grng") else n for n in names]
        return names[0] if len(names) == 1 else "(" + ", ".join(names) + ")"

    def pat_of(self, names):
        names = [ident(n) if n not in ("self", "grng") else n for n in names]
        return names[0] if len(names) == 1 else "'(" + ", ".join(names) + ")"

    def if_stmt(self, st, B, in_loop):
        for n in ast.walk(st):
            if isinstance(n, (ast.Return, ast.Yield, ast.For, ast.Break, ast.Continue)):
                bad(st, "return / yield / loop inside if")
        c, ty = self.expr(st.test, B)
        if ty != "bool":
            bad(st, "condition that is not a boolean")
        before = set(self.types)
        names = self.live_assigned(st.body + st.orelse)
        if not names:
            bad(st, "if without effect")
        branches = []
        for body in (st.body, st.orelse):
            B2 = []
            for s in body:
                self.stmt(s, B2, in_loop)
            branches.append(render(B2, f"Ok {self.tuple_of(names)}", 8))
        new = set(self.types) - before
        if new:
            raise Untranslatable(f"line {st.lineno}: variables first defined inside an if: {sorted(new)}")
        B.append(("bind", self.pat_of(names), f"(if {c} then\n{branches[0]}\n      else\n{branches[1]})"))

    def reads(self, stmts):
        out = set()
        for st in stmts:
            for n in ast.walk(st):
                if isinstance(n, ast.Name) and isinstance(n.ctx, ast.Load):
                    out.add(n.id)
        return out

    def for_stmt(self, st, B):
        if st.orelse:
            bad(st, "for-else")
        for n in ast.walk(st):
            if isinstance(n, (ast.Return, ast.Break, ast.Continue)):
                bad(st, "return / break / continue inside a loop")
            if isinstance(n, ast.For) and n is not st:
                bad(st, "nested loop")
        it, ity = self.expr(st.iter, B)
        t = st.target
        if ity == "pairs":
            if not (isinstance(t, ast.Tuple) and len(t.elts) == 2 and all(isinstance(x, ast.Name) for x in t.elts)):
                bad(t, "target of an iteration over items()")
            bound = [(t.elts[0].id, "fname"), (t.elts[1].id, "tensor")]
            pat = f"({ident(bound[0][0])}, {ident(bound[1][0])})"
        else:
            elt = {"list Z": "Z", "list tdict": "tdict"}.get(ity)
            if elt is None or not isinstance(t, ast.Name):
                bad(st, f"loop over {ity}")
            bound = [(t.id, elt)]
            pat = ident(t.id)
        defined_before = list(self.order)
        mutated = self.mutated_by(st.body)
        if self.mutated_iter(st):
            bad(st, "the loop body rebinds the collection it iterates")
        state = [n for n in ["self", "grng"] if n in mutated] + [n for n in defined_before if n in mutated and n not in [b[0] for b in bound]]
        rd = self.reads(st.body)
        free = [n for n in (["self"] if "self" in rd and "self" not in state else [])] + \
               [n for n in defined_before if n in rd and n not in state and n not in [b[0] for b in bound]]
        if "grng" in state and "grng" not in self.tr.current_effects:
            bad(st, "global generator")
        # yields: only as the last statement of the body
        ys = [n for n in ast.walk(st) if isinstance(n, ast.Yield)]
        has_yield = bool(ys)
        body = list(st.body)
        ycode = None
        self.loops += 1
        fix = f"{self.name}_for{self.loops}"
        saved_types = dict(self.types)
        saved_order = list(self.order)
        for n, ty in bound:
            if n != "_":
                self.types[n] = ty
                if n not in self.order:
                    self.order.append(n)
        B2 = []
        if has_yield:
            last = body[-1]
            if len(ys) != 1 or not (isinstance(last, ast.Expr) and last.value is ys[0]) or ys[0].value is None:
                bad(st, "yield that is not the last statement of the loop body")
            body = body[:-1]
        for s in body:
            self.stmt(s, B2, True)
        if has_yield:
            ycode, yty = self.expr(ys[0].value, B2)
            if yty != "tdict":
                bad(st, "yield of something that is not a batch")
        local_new = [n for n in self.order if n not in saved_order]
        self.types, self.order = saved_types, saved_order
        self.loop_locals = getattr(self, "loop_locals", set()) | set(local_new) | {b[0] for b in bound}

        def ty_of(n):
            return TY_COQ[self.selfty] if n == "self" else "gen" if n == "grng" else TY_COQ[self.types[n]]
        elt_ty = "fname * tensor" if ity == "pairs" else TY_COQ[bound[0][1]]
        params = " ".join(f"({self.nm(n)} : {ty_of(n)})" for n in free + state)
        args = " ".join(self.nm(n) for n in free + state)
        state_ty = " * ".join(ty_of(n) for n in state)
        if has_yield:
            res_ty = f"({state_ty} * list tdict)" if state else "(list tdict)"
            nil = f"Ok ({self.tuple_of(state)}, [])" if state else "Ok []"
            if state:
                final = f"'({self.tuple_of(state)}, ys) <- {fix} {args} it' ;;\n      Ok ({self.tuple_of(state)}, {ycode} :: ys)"
            else:
                final = f"ys <- {fix} {args} it' ;;\n      Ok ({ycode} :: ys)"
        else:
            if not state:
                bad(st, "loop without effect")
            res_ty = f"({state_ty})"
            nil = f"Ok {self.tuple_of(state)}"
            final = f"{fix} {args} it'"
        text = (f"Fixpoint {fix} {params} (it : list ({elt_ty})) : res {res_ty} :=\n"
                f"  match it with\n  | [] => {nil}\n  | {pat} :: it' =>\n{render(B2, final, 6)}\n  end.")
        self.aux.append(text)
        outs = state + (["ys"] if has_yield else [])
        if has_yield:
            if getattr(self, "yields_var", None):
                bad(st, "two yielding loops")
            self.yields_var = "ys"
        pat_out = outs[0] if len(outs) == 1 else "'(" + ", ".join(self.nm(n) for n in outs) + ")"
        if len(outs) == 1:
            pat_out = self.nm(outs[0])
        B.append(("bind", pat_out, f"{fix} {args} {it}"))

    def nm(self, n):
        return n if n in ("self", "grng", "ys") else ident(n)

    def mutated_iter(self, st):
        names = {n.id for n in ast.walk(st.iter) if isinstance(n, ast.Name)} - {"self", "range", "len"}
        return bool(names & self.mutated_by(st.body))

    # ---- the whole method
    def run(self, params, effects):
        fn = self.fn
        a = fn.args
        if a.vararg or a.kwarg or a.kwonlyargs or a.defaults or a.posonlyargs or [x.arg for x in a.args] != ["self"] + [p for p, _ in params]:
            bad(fn, "signature")
        for p, ty in params:
            self.define(p, ty)
        B = []
        body = list(fn.body)
        for i, st in enumerate(body):
            if isinstance(st, ast.Return):
                if i != len(body) - 1 or st.value is None or self.is_gen:
                    bad(st, "return that is not the last statement / return in a generator")
                self.ret = self.expr(st.value, B)
                break
            self.stmt(st, B, False)
            used_later = self.reads(body[i + 1:])
            leaked = getattr(self, "loop_locals", set()) & used_later - set(self.types)
            if leaked:
                raise Untranslatable(f"{fn.name}: loop-local variables used after the loop: {sorted(leaked)}")
        outs, tys = [], []
        if self.is_gen:
            if not getattr(self, "yields_var", None):
                bad(fn, "generator without a yielding loop")
            outs.append("ys")
            tys.append("list tdict")
            self.ret = ("ys", "list tdict")
        elif self.ret is not None:
            outs.append(self.ret[0])
            tys.append(TY_COQ[self.ret[1]])
        for n in ("self", "grng"):
            if n in effects:
                outs.append(n)
                tys.append(TY_COQ[self.selfty] if n == "self" else "gen")
        if not outs:
            bad(fn, "method without result or effect")
        final = "Ok " + (outs[0] if len(outs) == 1 else "(" + ", ".join(outs) + ")")
        res_ty = tys[0] if len(tys) == 1 else "(" + " * ".join(tys) + ")"
        sig = f"(self : {TY_COQ[self.selfty]})" + (" (grng : gen)" if "grng" in effects else "") + \
            "".join(f" ({ident(p)} : {TY_COQ[ty]})" for p, ty in params)
        if self.is_gen:     # PEP 479: a StopIteration escaping a generator body becomes RuntimeError
            body = f"  py_generator (\n{render(B, final, 4)})"
        else:
            body = render(B, final, 2)
        text = "\n\n".join(self.aux + [f"Definition {self.name} {sig} : res {res_ty} :=\n{body}."])
        return text


class Translator:
    # (class type, method) in dependency order, with the types of the extra parameters
    TARGETS = [("dsobj", "__len__", []), ("dsobj", "__attrs_post_init__", []), ("dsobj", "_next_epoch", []),
               ("dsobj", "fastforward_epochs", [("n", "Z")]), ("dsobj", "__iter__", []),
               ("rbobj", "cat_replay_buffer", []), ("rbobj", "__attrs_post_init__", []), ("rbobj", "__iter__", [])]
    PREFIX = {"dsobj": "ds_", "rbobj": "rb_"}

    def __init__(self, src_x, src_r):
        self.src_x, self.src_r = src_x, src_r
        self.methods = {}
        self.current_effects = set()

    def call_effects(self, call):
        """effects ('self' / 'grng') of one call node, from the source alone"""
        src = ast.unparse(call.func)
        if src == "torch.randperm":
            return {"self"} if any(k.arg == "generator" for k in call.keywords) else {"grng"}
        f = call.func
        if isinstance(f, ast.Attribute) and isinstance(f.value, ast.Name) and f.value.id == "self":
            return set(self.effects.get((self.cur_cls, f.attr), set()))
        if src == "len" and len(call.args) == 1 and isinstance(call.args[0], ast.Name) and call.args[0].id == "self":
            return set(self.effects.get((self.cur_cls, "__len__"), set()))
        return set()

    def analyse_effects(self, fns):
        """least fixed point: which methods rebind self / advance the global generator"""
        self.effects = {k: set() for k in fns}
        changed = True
        while changed:
            changed = False
            for (cls, name), fn in fns.items():
                self.cur_cls = cls
                eff = set()
                for n in ast.walk(fn):
                    if isinstance(n, (ast.Assign, ast.AugAssign)):
                        for t in (n.targets if isinstance(n, ast.Assign) else [n.target]):
                            base = t
                            while isinstance(base, (ast.Subscript, ast.Attribute)):
                                base = base.value
                            if isinstance(base, ast.Name) and base.id == "self" and base is not t:
                                eff.add("self")
                    elif isinstance(n, ast.Call):
                        eff |= self.call_effects(n)
                if eff != self.effects[(cls, name)]:
                    self.effects[(cls, name)] = eff
                    changed = True

    def run(self):
        mx = ast.parse(self.src_x)
        mr = ast.parse(self.src_r)
        top_x = {n.name: n for n in mx.body if isinstance(n, (ast.ClassDef, ast.FunctionDef))}
        top_r = {n.name: n for n in mr.body if isinstance(n, (ast.ClassDef, ast.FunctionDef))}
        pinned(top_x, PIN_XFORMER, "xformer/data/__init__.py")
        pinned(top_r, PIN_RB_BATCH, "tak/alphazero/data.py")
        if "Dataset" not in top_x or "ReplayBufferDataset" not in top_r:
            raise Untranslatable("class Dataset / ReplayBufferDataset not found")
        ds_methods = check_class(top_x["Dataset"], DS_FIELDS, DS_DECORATORS, DS_METHODS, "Dataset")
        pinned(ds_methods, PIN_DS_METHODS, "Dataset")
        rb_methods = check_class(top_r["ReplayBufferDataset"], RB_FIELDS, RB_DECORATORS, RB_METHODS, "ReplayBufferDataset")
        pinned({"pin": rb_methods["pin"]}, "def pin(self, tensor):\n    if self.device.startswith('cuda'):\n        return tensor.pin_memory()\n    return tensor\n",
               "ReplayBufferDataset")
        fns = {}
        for cls, name, _ in self.TARGETS:
            fns[(cls, name)] = (ds_methods if cls == "dsobj" else rb_methods)[name]
        self.analyse_effects(fns)
        chunks = []
        for cls, name, params in self.TARGETS:
            self.cur_cls = cls
            fn = fns[(cls, name)]
            eff = self.effects[(cls, name)]
            self.current_effects = eff
            m = Method(self, cls, fn, self.PREFIX[cls])
            text = m.run(params, eff)
            self.methods[(cls, name)] = {"name": m.name, "params": params, "effects": eff,
                                         "ret": m.ret[1] if m.ret is not None else None}
            where = "xformer/data/__init__.py: Dataset" if cls == "dsobj" else "tak/alphazero/data.py: ReplayBufferDataset"
            chunks.append(f"(* {where}.{name} (line {fn.lineno}) *)\n{text}")
        for key, want in ((("dsobj", "__attrs_post_init__"), {"self"}), (("dsobj", "__len__"), set()),
                          (("rbobj", "cat_replay_buffer"), set()), (("rbobj", "__attrs_post_init__"), {"self"}),
                          (("rbobj", "__iter__"), {"grng"}), (("dsobj", "__iter__"), {"self"}),
                          (("dsobj", "_next_epoch"), {"self"}), (("dsobj", "fastforward_epochs"), {"self"})):
            if self.effects[key] != want:
                raise Untranslatable(f"{key[1]} of {key[0]}: effects {sorted(self.effects[key])}, the fixed definitions "
                                     f"below (constructors, __setstate__) expect {sorted(want)}")
        h = hashlib.sha256((self.src_x + "\0" + self.src_r).encode()).hexdigest()[:16]
        head = (f"(* GENERATED by harness/data2coq.py from python/xformer/data/__init__.py and python/tak/alphazero/data.py\n"
                f"   of the tree under test - do not edit.  A shallow embedding: one Gallina function per method, written\n"
                f"   against model/TorchData.v (Python / torch semantics of dicts of tensors, slicing, fancy indexing, range,\n"
                f"   torch.cat, torch.zeros, block assignment, exceptions).  sha256 of the two sources: {h} *)\n"
                "From Coq Require Import ZArith List Bool.\nFrom TV Require Import model.Dataset model.TorchData.\n"
                "Import ListNotations.\nOpen Scope Z_scope.\n\nSection Gen.\n"
                "  Variable gen : Type.                               (* state of a torch generator *)\n"
                "  Variable seed_gen : Z -> gen.                      (* torch.Generator().manual_seed(seed) *)\n"
                "  Variable randperm : gen -> nat -> list nat * gen.  (* torch.randperm(n, generator=g) *)\n"
                "  Variable load : list Z -> tdict.                   (* torch.load(path) *)\n"
                "\n")
        fixed = ("(* the attrs-generated __init__ (fields in declaration order, transient ones absent) followed by __attrs_post_init__ *)\n"
                 "Definition ds_new (path : list Z) (batch_size : Z) (batches : option Z) (seed : Z) : res (dsobj gen) :=\n"
                 "  ds_attrs_post_init (mkDs path batch_size batches seed None None).\n\n"
                 "(* Dataset.__getstate__ (pinned): the non-transient attributes *)\n"
                 "Definition ds_getstate (self : dsobj gen) : res dsstate := Ok (state_of self).\n\n"
                 "(* Dataset.__setstate__ (pinned): setattr of every item on a fresh object, then __attrs_post_init__ *)\n"
                 "Definition ds_setstate (state : dsstate) : res (dsobj gen) := ds_attrs_post_init (obj_of_state state).\n\n"
                 "(* ReplayBufferDataset(replay_buffer, batch_size, device) *)\n"
                 "Definition rb_new (replay_buffer : list tdict) (batch_size : Z) : res rbobj :=\n"
                 "  rb_attrs_post_init (mkRb replay_buffer batch_size None).\n")
        body = "\n\n".join(chunks) + "\n\n" + fixed
        body = "\n".join(("  " + l if l else l) for l in body.split("\n"))
        return head + body + "End Gen.\n"


STUB = ("(* GENERATED by harness/data2coq.py: the translation FAILED, so the definitions are absent and every proof about\n"
        "   them fails to compile (nothing is re-checked against stale text).\n   reason: {why} *)\n"
        "Definition translation_failed : unit := tt.\n")


def translate(repo_python):
    """gen/DatasetGen.v: (coq text, error or None)"""
    try:
        src_x = (Path(repo_python) / "xformer" / "data" / "__init__.py").read_text()
        src_r = (Path(repo_python) / "tak" / "alphazero" / "data.py").read_text()
        return Translator(src_x, src_r).run(), None
    except Untranslatable as e:
        why = str(e)
    except (SyntaxError, OSError, RecursionError, KeyError, IndexError, AttributeError, TypeError, ValueError) as e:
        why = f"{type(e).__name__}: {e}"
    clean = why.replace("*)", "* )").replace("(*", "( *").replace('"', "'")
    return STUB.format(why=clean), why


def main():
    text, err = translate(sys.argv[1] if len(sys.argv) > 1 else "/repo/python")
    sys.stdout.write(text)
    if err:
        sys.stderr.write("TRANSLATION FAILED: " + err + "\n")
        return 1
    return 0


if __name__ == "__main__":
    sys.exit(main())
