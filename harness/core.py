"""Common machinery of ./check: paths, implementation import, Coq build,
correspondence runner (cases evaluated by vm_compute inside Coq), evidence,
violation / known-finding protocol.  See DESIGN.md section 2."""
import fcntl
import hashlib
import json
import os
import random
import re
import shutil
import subprocess
import sys
import time
from concurrent.futures import ThreadPoolExecutor
from pathlib import Path

VERIF = Path(__file__).resolve().parents[1]
REPO = Path(os.environ.get("VERIF_REPO", "/repo"))
COQ = VERIF / "coq"
BUILD = VERIF / "build"
EVID = VERIF / "evidence"
REPLAYS = VERIF / "replays"
GUARD = "NELHAGE_TAKTICIAN_PYTHON_VERIF"
NPROC = int(os.environ.get("VERIF_JOBS", str(os.cpu_count() or 8)))

STDLIB_AXIOM_WHITELIST = {
    # declared by Coq's standard library; listed in the trusted base when they occur
    "ClassicalDedekindReals.sig_forall_dec",
    "ClassicalDedekindReals.sig_not_dec",
    "FunctionalExtensionality.functional_extensionality_dep",
    "Classical_Prop.classic",
    "Eqdep.Eq_rect_eq.eq_rect_eq",
    "ProofIrrelevance.proof_irrelevance",
    "PropExtensionality.propositional_extensionality",
    "JMeq.JMeq_eq",
}

HYGIENE_RE = re.compile(
    r"\b(Admitted|admit|Axiom|Parameter|Parameters|Axioms|Conjecture|Hypothesis|Variable|Abort All)\b"
    r"|Unset\s+Guard|bypass_check|type-in-type|impredicative-set|Unset\s+Positivity|Unset\s+Universe"
)


def log(*a):
    print(*a, file=sys.stderr, flush=True)


# --------------------------------------------------------------------------
# implementation side
# --------------------------------------------------------------------------
_impl_ready = {}


def build_ext():
    """compile the real python/ext/tak.cpp of the tree under test (cached by hash)"""
    env = dict(os.environ, VERIF_REPO=str(REPO))
    r = subprocess.run([str(VERIF / "harness" / "build_ext.sh")], capture_output=True, text=True, env=env,
                       timeout=600)
    if r.returncode != 0:
        raise RuntimeError("tak_ext build failed:\n" + r.stderr[-3000:])
    return r.stdout.strip().splitlines()[-1]


def setup_impl(ext=False, shims=False):
    """make `import tak`, `import xformer` resolve to the tree under test"""
    os.environ["PYTHONHASHSEED"] = "0"
    os.environ[GUARD] = "1"
    pp = str(REPO / "python")
    if pp not in sys.path:
        sys.path.insert(0, pp)
    for m in list(sys.modules):
        if (m == "tak" or m.startswith("tak.") or m == "xformer" or m.startswith("xformer.")) and not _impl_ready.get("base"):
            del sys.modules[m]
    _impl_ready["base"] = True
    if shims and not _impl_ready.get("shims"):
        sys.path.insert(0, str(VERIF / "shims"))
        import verif_shims  # noqa: F401  (installs stand-ins for grpc/tqdm/protobuf)
        _impl_ready["shims"] = True
    if ext and not _impl_ready.get("ext"):
        d = build_ext()
        sys.path.insert(0, d)
        _impl_ready["ext"] = d
    return pp


def child_env(ext=False, shims=False):
    """environment for subprocesses that must import the implementation"""
    env = dict(os.environ)
    parts = [str(REPO / "python")]
    if shims:
        parts.insert(0, str(VERIF / "shims"))
    if ext:
        parts.insert(0, build_ext())
    parts.append(str(VERIF))
    env["PYTHONPATH"] = os.pathsep.join(parts)
    env["PYTHONHASHSEED"] = "0"
    env[GUARD] = "1"
    return env


# --------------------------------------------------------------------------
# Coq side
# --------------------------------------------------------------------------
class BuildLock:
    def __enter__(self):
        BUILD.mkdir(exist_ok=True)
        self.fh = open(BUILD / ".lock", "w")
        fcntl.flock(self.fh, fcntl.LOCK_EX)
        return self

    def __exit__(self, *a):
        fcntl.flock(self.fh, fcntl.LOCK_UN)
        self.fh.close()


def write_if_changed(path: Path, text: str):
    path.parent.mkdir(parents=True, exist_ok=True)
    if path.exists() and path.read_text() == text:
        return False
    path.write_text(text)
    return True


PROJECT_HEAD = ("-Q . TV\n"
                "-arg -w -arg -notation-overridden,-deprecated-hint-without-locality,-deprecated-instance-without-locality\n")


def ensure_makefile():
    """_CoqProject lists every .v under gen/ model/ spec/ proofs/ props/ (sorted); regenerated when the set changes"""
    files = []
    for d in ("gen", "model", "spec", "proofs", "props"):
        files += sorted(str(f.relative_to(COQ)) for f in (COQ / d).glob("*.v"))
    text = PROJECT_HEAD + "\n".join(files) + "\n"
    proj = COQ / "_CoqProject"
    changed = write_if_changed(proj, text)
    mk = COQ / "Makefile"
    if changed or not mk.exists():
        subprocess.run(["coq_makefile", "-f", "_CoqProject", "-o", "Makefile"], cwd=COQ, check=True,
                       capture_output=True)


def coq_make(targets, timeout=1500):
    """full .vo build of the given targets (paths relative to coq/).  Returns (ok, log)."""
    ensure_makefile()
    cmd = ["timeout", str(timeout), "make", "-j", str(NPROC)] + list(targets)
    t0 = time.time()
    r = subprocess.run(cmd, cwd=COQ, capture_output=True, text=True)
    out = r.stdout + r.stderr
    return r.returncode == 0, out, time.time() - t0


def failing_file(makelog):
    m = re.search(r'File "\./([^"]+)", line (\d+)', makelog)
    if m:
        return f"{m.group(1)}:{m.group(2)}"
    m = re.search(r"\*\*\* \[[^:]*: ([^\]]+)\]", makelog)
    return m.group(1) if m else "unknown"


def coqc_file(path: Path, timeout=600):
    cmd = ["timeout", str(timeout), "coqc", "-noglob", "-Q", str(COQ), "TV", "-w", "-notation-overridden", str(path)]
    r = subprocess.run(cmd, capture_output=True, text=True, cwd=path.parent)
    return r.returncode, r.stdout, r.stderr


def print_assumptions(prop_id, theorems):
    """compile a tiny file that prints the assumptions of every property theorem"""
    d = BUILD / prop_id
    d.mkdir(parents=True, exist_ok=True)
    f = d / f"assum_{prop_id}.v"
    lines = [f"From TV Require Import props.{prop_id}."]
    for t in theorems:
        lines.append(f'Goal True. idtac "@@THM {t}". exact I. Qed.')
        lines.append(f"Print Assumptions {t}.")
    f.write_text("\n".join(lines) + "\n")
    rc, out, err = coqc_file(f)
    res = {}
    if rc != 0:
        return None, err[-2000:]
    cur = None
    for line in out.splitlines():
        if line.startswith("@@THM "):
            cur = line[6:].strip()
            res[cur] = {"closed": False, "axioms": []}
        elif cur is not None:
            if "Closed under the global context" in line:
                res[cur]["closed"] = True
            else:
                # "name : type" on one line, or the bare name with the type on indented continuation lines
                m = re.match(r"^([A-Za-z_][\w.']*)\s*(:|$)", line)
                if m and not line.startswith("Axioms") and m.group(1) not in ("Axioms", "Opaque", "Transparent"):
                    res[cur]["axioms"].append(m.group(1))
    return res, ""


def dep_closure(start_rel):
    """files of the development that props/<id>.v (transitively) requires, by scanning `From TV Require` lines"""
    seen, todo = set(), [start_rel]
    while todo:
        rel = todo.pop()
        if rel in seen or not (COQ / rel).exists():
            continue
        seen.add(rel)
        txt = strip_comments((COQ / rel).read_text())
        for m in re.finditer(r"From\s+TV\s+Require\s+(?:Import\s+|Export\s+)?([^.]*(?:\.[A-Za-z_][^.\s]*)*)\.", txt):
            pass
        for m in re.finditer(r"From\s+TV\s+Require\s+(?:Import\s+|Export\s+)?((?:[A-Za-z_][\w']*(?:\.[A-Za-z_][\w']*)*\s*)+)\.(?:\s|$)", txt):
            for mod in m.group(1).split():
                todo.append(mod.replace(".", "/") + ".v")
        for m in re.finditer(r"Require\s+(?:Import\s+|Export\s+)?((?:TV\.[\w.']+\s*)+)\.(?:\s|$)", txt):
            for mod in m.group(1).split():
                todo.append(mod[3:].replace(".", "/") + ".v")
    return sorted(seen)


def hygiene(prop_id=None):
    """no Admitted/admit/Axiom/... in the files the property depends on (comments stripped)"""
    bad = []
    if prop_id:
        files = [COQ / r for r in dep_closure(f"props/{prop_id}.v")]
    else:
        files = sorted(COQ.rglob("*.v"))
    for f in files:
        txt = f.read_text()
        txt = strip_comments(txt)
        in_section = 0
        for n, line in enumerate(txt.splitlines(), 1):
            if re.match(r"\s*Section\b", line):
                in_section += 1
            if re.match(r"\s*End\b", line) and in_section:
                in_section -= 1
            for m in HYGIENE_RE.finditer(line):
                w = m.group(0)
                if w in ("Variable", "Hypothesis") and in_section:
                    continue
                bad.append(f"{f.relative_to(COQ)}:{n}: {w}")
    return bad


def strip_comments(txt):
    out, depth, i = [], 0, 0
    while i < len(txt):
        if txt.startswith("(*", i):
            depth += 1
            i += 2
        elif txt.startswith("*)", i) and depth:
            depth -= 1
            i += 2
        else:
            if depth == 0:
                out.append(txt[i])
            elif txt[i] == "\n":
                out.append("\n")
            i += 1
    return "".join(out)


# --------------------------------------------------------------------------
# Coq literal emitters
# --------------------------------------------------------------------------
def cz(n):
    n = int(n)
    return str(n) if n >= 0 else f"({n})"


def clist(items):
    return "[" + "; ".join(items) + "]"


def czlist(ns):
    return clist([cz(n) for n in ns])


def cbool(b):
    return "true" if b else "false"


def copt(s):
    return "None" if s is None else f"(Some {s})"


def cstr(s):
    """Python str -> list of code points (Z)"""
    return czlist([ord(c) for c in s])


# --------------------------------------------------------------------------
# correspondence: cases evaluated inside Coq
# --------------------------------------------------------------------------
class Cases:
    """A family of cases with one Coq-side check.

    header : Coq text (Require lines, helper definitions) placed at the top of each shard
    ctype  : Coq type of one case
    check  : Coq term of type ctype -> bool ("model agrees with the observed output")
    show   : optional Coq term ctype -> T used to print the model's view of failing cases
    """

    def __init__(self, prop_id, name, header, ctype, check, show=None, shard=400):
        self.prop_id, self.name = prop_id, name
        self.header, self.ctype, self.check, self.show = header, ctype, check, show
        self.shard = shard
        self.terms, self.metas = [], []

    def add(self, term, meta):
        self.terms.append(term)
        self.metas.append(meta)

    def __len__(self):
        return len(self.terms)

    def _shard_text(self, terms):
        body = ";\n  ".join(terms)
        return (
            f"{self.header}\nOpen Scope Z_scope.\n"
            f"Definition cases : list ({self.ctype}) := [\n  {body}\n].\n"
            f"Definition chk : ({self.ctype}) -> bool := {self.check}.\n"
            f"Eval vm_compute in (bad_indices chk cases).\n"
        )

    def run(self, timeout=900):
        """returns (failing metas, shard results); a shard that does not compile fails as a whole"""
        d = BUILD / self.prop_id / "cases"
        d.mkdir(parents=True, exist_ok=True)
        for old in d.glob(f"{self.name}_*"):
            old.unlink()
        jobs = []
        for k in range(0, len(self.terms), self.shard):
            f = d / f"{self.name}_{k // self.shard:04d}.v"
            f.write_text("From TV Require Import model.Harness.\n" + self._shard_text(self.terms[k:k + self.shard]))
            jobs.append((k, f))

        def one(job):
            k, f = job
            rc, out, err = coqc_file(f, timeout=timeout)
            tries = 0
            # killed by a signal / timed out / out of memory without a Coq error message: the machine was
            # overloaded, not the model wrong - retry (alone) before calling the shard broken
            while rc != 0 and not re.search(r"Error|error:", err) and tries < 2:
                tries += 1
                rc, out, err = coqc_file(f, timeout=timeout * 2)
            if rc != 0:
                return (k, f, None, (err[-1500:] or f"coqc exit status {rc} without a message (timeout {timeout}s?)"))
            m = re.search(r"=\s*\[(.*?)\]\s*:\s*list Z", out, re.S)
            if not m:
                return (k, f, None, "unparsed output: " + out[-500:])
            idx = [int(x) for x in re.findall(r"-?\d+", m.group(1))]
            return (k, f, idx, "")

        failing, shard_fail = [], []
        with ThreadPoolExecutor(max_workers=NPROC) as ex:
            for k, f, idx, err in ex.map(one, jobs):
                if idx is None:
                    shard_fail.append({"shard": f.name, "error": err})
                else:
                    for i in idx:
                        failing.append(self.metas[k + i])
                    # remove compiled by-products of passing shards
                for ext in (".vo", ".vos", ".vok", ".glob"):
                    p = f.with_suffix(ext)
                    if p.exists():
                        p.unlink()
                aux = f.parent / ("." + f.stem + ".aux")
                if aux.exists():
                    aux.unlink()
        return failing, shard_fail, len(jobs)

    def model_view(self, term):
        """print what the model computes for one case (for replays)"""
        if not self.show:
            return None
        d = BUILD / self.prop_id / "cases"
        d.mkdir(parents=True, exist_ok=True)
        f = d / f"view_{self.name}.v"
        f.write_text(f"From TV Require Import model.Harness.\n{self.header}\nOpen Scope Z_scope.\n"
                     f"Eval vm_compute in (({self.show}) ({term})).\n")
        rc, out, err = coqc_file(f, timeout=300)
        return (out if rc == 0 else err)[-4000:].strip()


# --------------------------------------------------------------------------
# run bookkeeping, evidence, violations
# --------------------------------------------------------------------------
def known_findings():
    out = []
    f = VERIF / "known_findings.txt"
    if f.exists():
        for line in f.read_text().splitlines():
            m = re.match(r"finding:\s*property=(\S+)\s+key=(\S+)\s*(.*)", line)
            if m:
                out.append({"property": m.group(1), "key": m.group(2), "what": m.group(3)})
    return out


class Run:
    def __init__(self, prop_id, tier, seed):
        self.prop_id, self.tier, self.seed = prop_id, tier, seed
        self.t0 = time.time()
        self.rng = random.Random(seed)
        self.obligations = []       # (name, ok: bool, detail)
        self.violations = []        # dicts: key, found_input, replay
        self.known = []
        self.cov = {"evaluations": 0, "distinct_nontrivial": 0, "samples": [], "distribution": {}}
        self.rules = []
        self.assumptions = []
        self.axioms = {}
        self.extra = {}

    @property
    def quick(self):
        return self.tier == "quick"

    def oblige(self, name, ok, detail=""):
        self.obligations.append((name, bool(ok), detail))
        if not ok:
            log(f"[{self.prop_id}] obligation FAILED: {name}: {detail[:2000]}")

    def count(self, evaluations, distinct_nontrivial, rule, samples, distribution=None, label=None):
        self.cov["evaluations"] += int(evaluations)
        self.cov["distinct_nontrivial"] += int(distinct_nontrivial)
        self.rules.append((f"{label}: " if label else "") + rule)
        self.cov["samples"].extend(samples[:4])
        if distribution:
            self.cov["distribution"][label or f"part{len(self.rules)}"] = distribution

    def violation(self, key, replay, found_input=True):
        """record a violation; replay is a JSON-able dict describing the failing input / broken obligation"""
        for kf in known_findings():
            if kf["property"] == self.prop_id and kf["key"] == key:
                self.known.append((key, kf["what"]))
                return
        REPLAYS.mkdir(exist_ok=True)
        h = hashlib.sha256(json.dumps([self.prop_id, key], sort_keys=True, default=str).encode()).hexdigest()[:12]
        path = REPLAYS / f"{self.prop_id}-{h}.json"
        replay = dict(replay)
        replay.update({"property": self.prop_id, "key": key, "found_failing_input": bool(found_input),
                       "seed": self.seed, "tier": self.tier})
        path.write_text(json.dumps(replay, indent=1, default=str))
        self.violations.append({"key": key, "found_input": found_input, "replay": str(path.relative_to(VERIF))})

    def finish(self, level="proof", checker_cmd="", trusted_base=None, level_note=""):
        n_ob = len(self.obligations)
        n_ok = sum(1 for o in self.obligations if o[1])
        cov = dict(self.cov)
        cov.update({
            "obligations": n_ob,
            "discharged": n_ok,
            "checker_cmd": checker_cmd,
            "trusted_base": trusted_base or [],
            "rule": " | ".join(self.rules),
            "obligation_list": [{"name": o[0], "ok": o[1]} for o in self.obligations],
            "axioms_reported": self.axioms,
        })
        cov.update(self.extra)
        if not cov["samples"]:
            cov["samples"] = ["(no correspondence cases in this run)"]
        ev = {
            "property_id": self.prop_id,
            "tier": self.tier,
            "seed": self.seed,
            "level": level,
            "coverage": cov,
            "assumptions": self.assumptions,
            "wall_s": round(time.time() - self.t0, 2),
            "violations": len(self.violations),
            "known_findings": [k for k, _ in self.known],
        }
        EVID.mkdir(exist_ok=True)
        (EVID / f"{self.prop_id}.json").write_text(json.dumps(ev, indent=1, default=str))
        for key, what in self.known:
            print(f"KNOWN-FINDING: property={self.prop_id} {key} {what}")
        seen = set()
        for v in self.violations:
            if v["replay"] in seen:
                continue
            seen.add(v["replay"])
            tail = "" if v["found_input"] else " no-failing-input-found"
            print(f"VIOLATION property={self.prop_id} replay={v['replay']}{tail}")
        print(f"[{self.prop_id}] tier={self.tier} seed={self.seed} obligations={n_ok}/{n_ob} "
              f"evaluations={cov['evaluations']} distinct_nontrivial={cov['distinct_nontrivial']} "
              f"violations={len(self.violations)} known={len(self.known)} wall={ev['wall_s']}s")
        return 1 if self.violations else 0
