"""run every property's translator (pregen) so that a full `make` has all generated files"""
import importlib
import pkgutil
import sys
import traceback

from . import core, props


def main():
    rc = 0
    for mi in pkgutil.iter_modules(props.__path__):
        mod = importlib.import_module(f"harness.props.{mi.name}")
        if hasattr(mod, "pregen"):
            try:
                mod.pregen(core.Run(mi.name.upper(), 'quick', 0))
            except Exception:
                traceback.print_exc()
                rc = 1
    return rc


if __name__ == "__main__":
    sys.exit(main())
