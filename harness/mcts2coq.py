"""mcts2coq - a fail-closed translator (Python `ast`, nothing is executed) from the CURRENT text of
python/tak/mcts.py to Gallina, for exactly three pieces of pure logic:

    MCTS.update(path)            -> update_for1, update
    Node.policy_probs(c)         -> policy_probs            (oracles: tak_ext.solve_policy, the float operations of the multiplier)
    MCTS.populate(node, is_root) -> populate_for1, populate (oracles: network.evaluate, the Dirichlet sample)

The output (coq/gen/MctsGen.v) is a shallow embedding written against coq/model/PySem.v + coq/model/MctsSem.v;
coq/proofs/MctsGenEq.v proves it equal to what model/Mcts.v's `simulate` does.  Scheme:

 * locals are values that are REBOUND (`let` / monadic bind that shadows); every Python local `x` becomes `v_x`;
 * an object whose attributes are assigned (`node.value += v`, `node.children = []`, `node.children.append(..)`) is a
   record that is rebound; a function returns the objects it mutates (update: the path's records, populate: the node);
 * an expression that can raise is bound (`t <- e ;;`) in Python's evaluation order; PySem's outcomes `Ok | Illegal | Crash`;
 * `for v in it` / `for v in reversed(it)` -> a `Fixpoint <f>_for<k>` by structural recursion over the iterated list;
   state = the variables assigned in the body that exist before the loop, in order of definition; a loop that assigns
   attributes of its loop variable also returns the list of the updated elements, which rebinds `it`;
 * `try: x = e  except IllegalMove: continue` -> `match e with Ok v => .. | Illegal => <next iteration> | Crash e => Crash e end`;
 * `if` whose branches fall through returns the tuple of the variables it assigns that exist before it (or are
   assigned in every branch); a branch that ends in `return` does not reach the rest;
 * statements that update `self.stats.<counter>` are dropped (search statistics, not part of any property);
 * anything else raises Untranslatable: the obligation translate:mcts.py breaks and a stub without definitions is
   written, so every proof about the generated names fails.
"""
import ast
import hashlib
from fractions import Fraction
from pathlib import Path


class Untranslatable(Exception):
    pass


def bad(node, why):
    line = getattr(node, "lineno", "?")
    raise Untranslatable(f"mcts.py:{line}: {why}: {ast.dump(node)[:160] if isinstance(node, ast.AST) else node}")


COQ_TYPE = {"Q": "Q", "Z": "Z", "bool": "bool", "F": "F", "pos": "position", "mv": "mv", "color": "color",
            "ocolor": "option color", "oreason": "option reason", "pystat": "pystat", "pynode": "pynode",
            "cfg": "pyconfig", "unit": "unit"}


def coq_type(t):
    if t.startswith("list:"):
        return f"list ({coq_type(t[5:])})"
    if t.startswith("opt:"):
        return f"option ({coq_type(t[4:])})"
    if t.startswith("pair:"):
        a, b = t[5:].split("|", 1)
        return f"({coq_type(a)} * {coq_type(b)})"
    if t == "?":
        return "unit"
    return COQ_TYPE[t]


ATTRS = {
    "pystat": {"v_zero": ("Q", "ps_v_zero"), "value": ("Q", "ps_value"), "simulations": ("Z", "ps_simulations")},
    "pynode": {"position": ("pos", "pn_position"), "move": ("opt:mv", "pn_move"), "v_zero": ("Q", "pn_v_zero"),
               "value": ("Q", "pn_value"), "simulations": ("Z", "pn_simulations"),
               "child_probs": ("opt:list:Q", "pn_child_probs"), "children": ("opt:list:pynode", "pn_children")},
    "pos": {"size": ("Z", "size")},
    "cfg": {"cutoff_prob": ("Q", "cfg_cutoff_prob"), "root_noise_alpha": ("opt:Q", "cfg_root_noise_alpha"),
            "root_noise_mix": ("Q", "cfg_root_noise_mix")},
}
SETTERS = {("pystat", "value"): "set_ps_value", ("pystat", "simulations"): "set_ps_simulations",
           ("pystat", "v_zero"): "set_ps_v_zero", ("pynode", "v_zero"): "set_pn_v_zero",
           ("pynode", "children"): "set_pn_children", ("pynode", "child_probs"): "set_pn_child_probs"}


class Var:
    def __init__(self, coq, typ, order):
        self.coq, self.typ, self.order = coq, typ, order


class Fn:
    """compilation state of one function"""

    def __init__(self, name, self_type, ret_kind):
        self.name, self.self_type, self.ret_kind = name, self_type, ret_kind
        self.tmp = 0
        self.loops = []          # emitted Fixpoints (text)
        self.nloops = 0
        self.order = 0
        self.nil_types = {}      # placeholder -> Var (empty list literals whose element type is fixed later)

    def fresh(self):
        self.tmp += 1
        return f"t{self.tmp}"

    def define(self, env, name, typ):
        self.order += 1
        env[name] = Var("v_" + name, typ, env[name].order if name in env else self.order)
        return env[name]


# ---------------------------------------------------------------------------
# expressions: cx -> (prelude [(var, res term)], pure term, type)
# ---------------------------------------------------------------------------
def name_chain(node):
    parts = []
    while isinstance(node, ast.Attribute):
        parts.append(node.attr)
        node = node.value
    if isinstance(node, ast.Name):
        parts.append(node.id)
        return list(reversed(parts))
    return None


def coerce(term, typ, want, node):
    if want is None or typ == want:
        return term, typ
    if typ == "Z" and want == "Q":
        return f"(q_of_int {term})", "Q"
    if want.startswith("opt:") and typ == want[4:]:
        return f"(Some {term})", want
    if typ.startswith("list:") and want.startswith("opt:list:") and (typ[5:] == "?" or typ == want[4:]):
        return f"(Some {term})", want
    if typ == "list:?" and want.startswith("list:"):
        return term, want
    bad(node, f"type {typ} where {want} is needed")


def bind_all(prelude, body):
    out = body
    for var, term in reversed(prelude):
        out = f"{var} <- {term} ;;\n{out}"
    return out


def cx(fn, e, env, want=None):
    pre, term, typ = cx0(fn, e, env, want)
    if typ == "list:?" and want is not None and term in fn.nil_types and fn.nil_types[term] is None:
        elem = want[9:] if want.startswith("opt:list:") else want[5:] if want.startswith("list:") else None
        if elem and elem != "?":
            fn.nil_types[term] = Var("", "list:" + elem, 0)      # an empty list literal used where the type is known
    term, typ = coerce(term, typ, want, e)
    return pre, term, typ


def cx_res(fn, e, env, want=None):
    """an expression as ONE res term (its own prelude folded in)"""
    pre, term, typ = cx(fn, e, env, want)
    return bind_all(pre, f"Ok {term}") if pre else None, term, typ, pre


def cx0(fn, e, env, want):
    if isinstance(e, ast.Name):
        if e.id == "self" and fn.self_type:
            return [], "self", fn.self_type
        if e.id not in env:
            bad(e, "unknown name")
        return [], env[e.id].coq, env[e.id].typ
    if isinstance(e, ast.Constant):
        if isinstance(e.value, bool) or e.value is None:
            bad(e, "constant")
        if isinstance(e.value, int):
            return [], (f"{e.value}" if e.value >= 0 else f"({e.value})"), "Z"
        if isinstance(e.value, float):
            fr = Fraction(e.value)
            return [], f"(Qmake {fr.numerator if fr.numerator >= 0 else '(' + str(fr.numerator) + ')'} {fr.denominator})", "Q"
        bad(e, "constant")
    if isinstance(e, ast.List) and not e.elts:
        ph = f"@@NIL{len(fn.nil_types)}@@"
        fn.nil_types[ph] = None
        return [], ph, "list:?"
    if isinstance(e, ast.UnaryOp) and isinstance(e.op, ast.USub):
        pre, t, ty = cx(fn, e.operand, env)
        if ty == "Q":
            return pre, f"(Qopp {t})", "Q"
        if ty == "Z":
            return pre, f"(Z.opp {t})", "Z"
        bad(e, "unary minus on " + ty)
    if isinstance(e, ast.BinOp):
        return cx_binop(fn, e, env)
    if isinstance(e, ast.Compare):
        return cx_compare(fn, e, env)
    if isinstance(e, ast.BoolOp) and isinstance(e.op, ast.And):
        pre, terms = [], []
        for v in e.values:
            p, t, ty = cx(fn, v, env, "bool")
            if p and terms:
                bad(e, "raising operand after the first in `and`")
            pre += p
            terms.append(t)
        return pre, "(" + " && ".join(terms) + ")", "bool"
    if isinstance(e, ast.IfExp):
        pc, c, _ = cx(fn, e.test, env, "bool")
        ra, ta, tya, pa = cx_res(fn, e.body, env)
        rb, tb, tyb, pb = cx_res(fn, e.orelse, env)
        if tya != tyb:
            if {tya, tyb} == {"Q", "Z"}:
                ra, ta, tya, pa = cx_res(fn, e.body, env, "Q")
                rb, tb, tyb, pb = cx_res(fn, e.orelse, env, "Q")
            else:
                bad(e, f"branches of different types {tya} / {tyb}")
        if not pa and not pb:
            return pc, f"(if {c} then {ta} else {tb})", tya
        v = fn.fresh()
        return pc + [(v, f"(if {c} then {ra or 'Ok ' + ta} else {rb or 'Ok ' + tb})")], v, tya
    if isinstance(e, ast.Attribute):
        return cx_attr(fn, e, env)
    if isinstance(e, ast.Subscript):
        return cx_subscript(fn, e, env)
    if isinstance(e, ast.Call):
        return cx_call(fn, e, env)
    if isinstance(e, ast.ListComp):
        return cx_listcomp(fn, e, env)
    bad(e, "expression")


def cx_attr(fn, e, env):
    chain = name_chain(e)
    if chain and chain[:2] == ["self", "config"] and len(chain) == 3 and fn.self_type is None:
        if chain[2] not in ATTRS["cfg"]:
            bad(e, "config field")
        ty, acc = ATTRS["cfg"][chain[2]]
        return [], f"({acc} cfg)", ty
    pre, t, ty = cx(fn, e.value, env)
    if ty in ATTRS and e.attr in ATTRS[ty]:
        rty, acc = ATTRS[ty][e.attr]
        return pre, f"({acc} {t})", rty
    bad(e, f"attribute {e.attr} of {ty}")


def cx_binop(fn, e, env):
    pa, a, ta = cx(fn, e.left, env)
    pb, b, tb = cx(fn, e.right, env)
    op = type(e.op).__name__
    pre = pa + pb
    if ta == "Z" and tb == "Z" and op in ("Add", "Sub", "Mult"):
        return pre, f"(Z.{ {'Add': 'add', 'Sub': 'sub', 'Mult': 'mul'}[op]} {a} {b})", "Z"
    if {ta, tb} <= {"Q", "Z"} and "Q" in (ta, tb) or (ta == "Z" and tb == "Z" and op == "Div"):
        a, _ = coerce(a, ta, "Q", e)
        b, _ = coerce(b, tb, "Q", e)
        if op in ("Add", "Sub", "Mult"):
            return pre, f"(Q{ {'Add': 'plus', 'Sub': 'minus', 'Mult': 'mult'}[op]} {a} {b})", "Q"
        if op == "Div":
            v = fn.fresh()
            return pre + [(v, f"py_truediv {a} {b}")], v, "Q"
    if ta == "F" and tb == "F" and op == "Mult":
        return pre, f"(f_mul {a} {b})", "F"
    if ta == "F" and tb == "Z" and op == "Div":
        v = fn.fresh()
        return pre + [(v, f"py_fdiv_int f_div_int {a} {b}")], v, "F"
    if tb == "list:Q" and ta in ("Q", "Z") and op == "Mult":
        a, _ = coerce(a, ta, "Q", e)
        return pre, f"(ft_scale {a} {b})", "list:Q"
    if ta == "list:Q" and tb == "list:Q" and op == "Add":
        v = fn.fresh()
        return pre + [(v, f"ft_add {a} {b}")], v, "list:Q"
    bad(e, f"operator {op} on {ta}, {tb}")


def cx_compare(fn, e, env):
    if len(e.ops) != 1:
        bad(e, "chained comparison")
    op = type(e.ops[0]).__name__
    right = e.comparators[0]
    if op in ("Is", "IsNot") and isinstance(right, ast.Constant) and right.value is None:
        pre, t, ty = cx(fn, e.left, env)
        if not ty.startswith("opt:") and ty not in ("ocolor", "oreason"):
            bad(e, "`is None` on " + ty)
        return pre, (f"(negb (is_some {t}))" if op == "Is" else f"(is_some {t})"), "bool"
    pa, a, ta = cx(fn, e.left, env)
    pb, b, tb = cx(fn, right, env)
    pre = pa + pb
    if ta == "ocolor" and tb == "color" and op == "Eq":
        return pre, f"(opt_color_is {a} {b})", "bool"
    if ta == "list:Q" and tb in ("Q", "Z") and op in ("GtE", "Gt"):
        b, _ = coerce(b, tb, "Q", e)
        return pre, f"({'ft_ge' if op == 'GtE' else 'ft_gt'} {a} {b})", "list:bool"
    if ta == "Z" and tb == "Z":
        m = {"Eq": f"(Z.eqb {a} {b})", "NotEq": f"(negb (Z.eqb {a} {b}))", "Gt": f"(Z.ltb {b} {a})",
             "GtE": f"(Z.leb {b} {a})", "Lt": f"(Z.ltb {a} {b})", "LtE": f"(Z.leb {a} {b})"}
        if op in m:
            return pre, m[op], "bool"
    if {ta, tb} <= {"Q", "Z"}:
        a, _ = coerce(a, ta, "Q", e)
        b, _ = coerce(b, tb, "Q", e)
        m = {"Eq": f"(q_eqb {a} {b})", "NotEq": f"(negb (q_eqb {a} {b}))", "Gt": f"(q_ltb {b} {a})",
             "GtE": f"(q_leb {b} {a})", "Lt": f"(q_ltb {a} {b})", "LtE": f"(q_leb {a} {b})"}
        if op in m:
            return pre, m[op], "bool"
    bad(e, f"comparison {op} on {ta}, {tb}")


def cx_subscript(fn, e, env):
    pre, t, ty = cx(fn, e.value, env)
    s = e.slice
    if isinstance(s, ast.Slice):
        if s.lower is not None or s.step is not None or s.upper is None or ty != "list:Q":
            bad(e, "slice")
        pu, u, _ = cx(fn, s.upper, env, "Z")
        return pre + pu, f"(ft_slice_to {t} {u})", ty
    pi, i, ti = cx(fn, s, env)
    if ty.startswith("list:") and ti == "Z":
        v = fn.fresh()
        return pre + pi + [(v, f"py_getitem {t} {i}")], v, ty[5:]
    if ty == "list:Q" and ti == "list:Z":
        v = fn.fresh()
        return pre + pi + [(v, f"ft_index {t} {i}")], v, "list:Q"
    bad(e, f"subscript of {ty} by {ti}")


def is_call(e, chain):
    return isinstance(e, ast.Call) and name_chain(e.func) == chain


def cx_call(fn, e, env):
    chain = name_chain(e.func)
    nargs = len(e.args)
    # torch.nonzero(B)[:, 0].numpy()
    if (isinstance(e.func, ast.Attribute) and e.func.attr == "numpy" and nargs == 0
            and isinstance(e.func.value, ast.Subscript) and is_call(e.func.value.value, ["torch", "nonzero"])):
        sub = e.func.value
        sl = sub.slice
        ok = (isinstance(sl, ast.Tuple) and len(sl.elts) == 2 and isinstance(sl.elts[0], ast.Slice)
              and sl.elts[0].lower is None and sl.elts[0].upper is None and sl.elts[0].step is None
              and isinstance(sl.elts[1], ast.Constant) and sl.elts[1].value == 0 and len(sub.value.args) == 1)
        if not ok:
            bad(e, "nonzero pattern")
        pre, b, tb = cx(fn, sub.value.args[0], env)
        if tb != "list:bool":
            bad(e, "nonzero of " + tb)
        return pre, f"(bt_nonzero {b})", "list:Z"
    # torch.distributions.Dirichlet(torch.full_like(T, fill_value=A)).sample()
    if (isinstance(e.func, ast.Attribute) and e.func.attr == "sample" and nargs == 0
            and is_call(e.func.value, ["torch", "distributions", "Dirichlet"])):
        d = e.func.value
        if len(d.args) != 1 or not is_call(d.args[0], ["torch", "full_like"]):
            bad(e, "Dirichlet pattern")
        fl = d.args[0]
        if len(fl.args) != 1 or len(fl.keywords) != 1 or fl.keywords[0].arg != "fill_value":
            bad(e, "full_like pattern")
        pt, t, tt = cx(fn, fl.args[0], env)
        pa, a, ta = cx(fn, fl.keywords[0].value, env)
        if tt != "list:Q" or ta != "opt:Q":
            bad(e, "Dirichlet argument types")
        v = fn.fresh()
        return pt + pa + [(v, f"dirichlet (zlen {t}) {a}")], v, "list:Q"
    if e.keywords and chain != ["Node"]:
        bad(e, "keyword arguments")
    if chain == ["reversed"] and nargs == 1:
        pre, t, ty = cx(fn, e.args[0], env)
        if not ty.startswith("list:"):
            bad(e, "reversed of " + ty)
        return pre, f"(rev {t})", ty
    if chain == ["len"] and nargs == 1:
        pre, t, ty = cx(fn, e.args[0], env)
        if ty.startswith("list:"):
            return pre, f"(zlen {t})", "Z"
        if ty.startswith("opt:list:"):
            v = fn.fresh()
            return pre + [(v, f"py_len_opt {t}")], v, "Z"
        bad(e, "len of " + ty)
    if chain == ["math", "sqrt"] and nargs == 1:
        pre, t, ty = cx(fn, e.args[0], env, "Z")
        return pre, f"(f_sqrt {t})", "F"
    if chain == ["torch", "tensor"] and nargs == 1:
        pre, t, ty = cx(fn, e.args[0], env)
        if ty != "list:Q":
            bad(e, "torch.tensor of " + ty)
        return pre, t, ty
    if chain == ["tak_ext", "solve_policy"] and nargs == 3:
        p1, a, ta = cx(fn, e.args[0], env)
        p2, b, tb = cx(fn, e.args[1], env, "list:Q")
        p3, c, tc = cx(fn, e.args[2], env, "F")
        pre = p1 + p2 + p3
        if ta == "opt:list:Q":
            v = fn.fresh()
            pre.append((v, f"py_tensor_arg {a}"))
            a = v
        elif ta != "list:Q":
            bad(e, "solve_policy argument " + ta)
        v = fn.fresh()
        return pre + [(v, f"solve_policy {a} {b} {c}")], v, "list:Q"
    if chain == ["self", "network", "evaluate"] and nargs == 1 and fn.self_type is None:
        pre, t, ty = cx(fn, e.args[0], env, "pos")
        v = fn.fresh()
        return pre + [(v, f"evaluate {t}")], v, "pair:list:Q|Q"
    if chain == ["encoding", "n_moves_for_size"] and nargs == 1:
        pre, t, ty = cx(fn, e.args[0], env, "Z")
        return pre, f"(n_moves_for_size {t})", "Z"
    if chain == ["encoding", "decode_move"] and nargs == 2:
        p1, a, _ = cx(fn, e.args[0], env, "Z")
        p2, b, _ = cx(fn, e.args[1], env, "Z")
        v = fn.fresh()
        return p1 + p2 + [(v, f"py_decode_move {a} {b}")], v, "mv"
    if chain == ["Node"] and nargs == 0 and [k.arg for k in e.keywords] == ["position", "move"]:
        p1, a, _ = cx(fn, e.keywords[0].value, env, "pos")
        p2, b, _ = cx(fn, e.keywords[1].value, env, "mv")
        return p1 + p2, f"(py_new_node {a} {b})", "pynode"
    if isinstance(e.func, ast.Attribute):
        meth = e.func.attr
        pre, t, ty = cx(fn, e.func.value, env)
        if ty == "pos" and meth == "winner" and nargs == 0:
            return pre, f"(Road.winner {t})", "pair:ocolor|oreason"
        if ty == "pos" and meth == "to_move" and nargs == 0:
            return pre, f"(to_move {t})", "color"
        if ty == "color" and meth == "flip" and nargs == 0:
            return pre, f"(flip {t})", "color"
        if ty == "pos" and meth == "move" and nargs == 1:
            pm, m, _ = cx(fn, e.args[0], env, "mv")
            v = fn.fresh()
            return pre + pm + [(v, f"py_move {t} {m}")], v, "pos"
        if ty == "list:Q" and meth == "sum" and nargs == 0:
            return pre, f"(ft_sum {t})", "Q"
    bad(e, "call")


def cx_listcomp(fn, e, env):
    if len(e.generators) != 1:
        bad(e, "comprehension with several generators")
    g = e.generators[0]
    if g.ifs or g.is_async or not isinstance(g.target, ast.Name):
        bad(e, "comprehension shape")
    pre, it, ty = cx(fn, g.iter, env)
    if ty.startswith("opt:list:"):
        v = fn.fresh()
        pre = pre + [(v, f"py_iter_opt {it}")]
        it, ty = v, ty[4:]
    if not ty.startswith("list:"):
        bad(e, "comprehension over " + ty)
    inner = dict(env)
    inner[g.target.id] = Var("x_" + g.target.id, ty[5:], 0)     # the comprehension's own scope
    r, t, ety, p = cx_res(fn, e.elt, inner)
    x = inner[g.target.id].coq
    if p:
        v = fn.fresh()
        return pre + [(v, f"py_mapM (fun {x} => {r}) {it}")], v, "list:" + ety
    return pre, f"(map (fun {x} => {t}) {it})", "list:" + ety


# ---------------------------------------------------------------------------
# statements (continuation passing: k(env) gives the term for "the rest")
# ---------------------------------------------------------------------------
def assigned_names(stmts):
    """names (re)bound by the statements, attribute assignment / append counting as rebinding the object"""
    out = []

    def add(n):
        if n not in out:
            out.append(n)

    def target(t):
        if isinstance(t, ast.Name):
            add(t.id)
        elif isinstance(t, ast.Tuple):
            for x in t.elts:
                target(x)
        elif isinstance(t, ast.Attribute):
            ch = name_chain(t)
            if ch and ch[0] != "self":
                add(ch[0])
            elif not ch or ch[:2] != ["self", "stats"]:
                bad(t, "assignment target")
        else:
            bad(t, "assignment target")

    for s in stmts:
        if isinstance(s, ast.Assign):
            for t in s.targets:
                target(t)
        elif isinstance(s, ast.AugAssign):
            target(s.target)
        elif isinstance(s, ast.Expr) and isinstance(s.value, ast.Call) and isinstance(s.value.func, ast.Attribute) \
                and s.value.func.attr == "append":
            ch = name_chain(s.value.func.value)
            if not ch:
                bad(s, "append target")
            add(ch[0])
        elif isinstance(s, ast.If):
            for n in assigned_names(s.body) + assigned_names(s.orelse):
                add(n)
        elif isinstance(s, ast.For):
            for n in assigned_names(s.body):
                add(n)
        elif isinstance(s, ast.Try):
            for n in assigned_names(s.body):
                add(n)
    return out


def always_returns(stmts):
    if not stmts:
        return False
    last = stmts[-1]
    if isinstance(last, ast.Return):
        return True
    if isinstance(last, ast.If):
        return always_returns(last.body) and always_returns(last.orelse)
    return False


def is_stats_update(s):
    if isinstance(s, ast.AugAssign):
        ch = name_chain(s.target)
        return bool(ch) and ch[:2] == ["self", "stats"] and len(ch) == 3
    return False


def tuple_pat(names):
    return names[0] if len(names) == 1 else "'(" + ", ".join(names) + ")"


def tuple_val(names):
    return names[0] if len(names) == 1 else "(" + ", ".join(names) + ")"


def cs(fn, stmts, env, k, loop_k=None):
    """term (of type res ..) for the statements followed by k(env)"""
    if not stmts:
        return k(env)
    s, rest = stmts[0], stmts[1:]

    def cont(env2):
        return cs(fn, rest, env2, k, loop_k)

    if is_stats_update(s) or isinstance(s, ast.Pass):
        return cont(env)
    if isinstance(s, ast.Expr) and isinstance(s.value, ast.Constant) and isinstance(s.value.value, str):
        return cont(env)
    if isinstance(s, ast.Return):
        if rest:
            bad(s, "statements after return")
        return fn.ret(env, s.value)
    if isinstance(s, ast.Continue):
        if rest or loop_k is None:
            bad(s, "continue")
        return loop_k(env)
    if isinstance(s, ast.Assign):
        if len(s.targets) != 1:
            bad(s, "multiple targets")
        return cs_assign(fn, s.targets[0], s.value, env, cont, s)
    if isinstance(s, ast.AugAssign):
        op = ast.BinOp(left=target_as_expr(s.target), op=s.op, right=s.value)
        ast.copy_location(op, s)
        if isinstance(s.op, ast.Div) and isinstance(s.target, ast.Name) and s.target.id in env \
                and env[s.target.id].typ == "list:Q":
            pre, b, tb = cx(fn, s.value, env, "Q")
            v = fn.fresh()
            env2 = dict(env)
            var = fn.define(env2, s.target.id, "list:Q")
            return bind_all(pre + [(v, f"ft_idiv_scalar {env[s.target.id].coq} {b}")], f"let {var.coq} := {v} in\n" + cont(env2))
        return cs_assign(fn, s.target, op, env, cont, s)
    if isinstance(s, ast.Expr) and isinstance(s.value, ast.Call) and isinstance(s.value.func, ast.Attribute) \
            and s.value.func.attr == "append" and len(s.value.args) == 1:
        tgt = s.value.func.value
        if isinstance(tgt, ast.Name):
            if tgt.id not in env or not env[tgt.id].typ.startswith("list:"):
                bad(s, "append to a non-list")
            pre, v, tv = cx(fn, s.value.args[0], env)
            old = env[tgt.id]
            if old.typ == "list:?":
                old.typ = "list:" + tv
            elif old.typ != "list:" + tv:
                bad(s, "append of " + tv + " to " + old.typ)
            env2 = dict(env)
            var = fn.define(env2, tgt.id, old.typ)
            return bind_all(pre, f"let {var.coq} := ({old.coq} ++ [{v}]) in\n" + cont(env2))
        ch = name_chain(tgt)
        if ch and len(ch) == 2 and ch[0] in env and env[ch[0]].typ == "pynode" and ch[1] == "children":
            pre, v, tv = cx(fn, s.value.args[0], env, "pynode")
            env2 = dict(env)
            old = env[ch[0]]
            var = fn.define(env2, ch[0], "pynode")
            t = fn.fresh()
            return bind_all(pre + [(t, f"pn_children_append {old.coq} {v}")], f"let {var.coq} := {t} in\n" + cont(env2))
        bad(s, "append target")
    if isinstance(s, ast.If):
        return cs_if(fn, s, rest, env, k, loop_k)
    if isinstance(s, ast.For):
        return cs_for(fn, s, env, cont)
    if isinstance(s, ast.Try):
        return cs_try(fn, s, env, cont, loop_k)
    bad(s, "statement")


def target_as_expr(t):
    e = ast.parse(ast.unparse(t), mode="eval").body
    ast.copy_location(e, t)
    for n in ast.walk(e):
        ast.copy_location(n, t)
    return e


def cs_assign(fn, target, value, env, cont, s):
    if isinstance(target, ast.Name):
        pre, v, tv = cx(fn, value, env)
        if target.id in env and env[target.id].typ not in (tv, "list:?") and tv != "list:?":
            bad(s, f"{target.id} changes type from {env[target.id].typ} to {tv}")
        env2 = dict(env)
        var = fn.define(env2, target.id, tv)
        if tv == "list:?":
            fn.nil_types[v] = var
        return bind_all(pre, f"let {var.coq} := {v} in\n" + cont(env2))
    if isinstance(target, ast.Attribute):
        ch = name_chain(target)
        if not ch or len(ch) != 2 or ch[0] not in env:
            bad(s, "attribute assignment target")
        old = env[ch[0]]
        if (old.typ, ch[1]) not in SETTERS:
            bad(s, f"assignment to {old.typ}.{ch[1]}")
        want = ATTRS[old.typ][ch[1]][0]
        pre, v, tv = cx(fn, value, env, want)
        env2 = dict(env)
        var = fn.define(env2, ch[0], old.typ)
        return bind_all(pre, f"let {var.coq} := {SETTERS[(old.typ, ch[1])]} {old.coq} {v} in\n" + cont(env2))
    if isinstance(target, ast.Tuple) and len(target.elts) == 2:
        pre, v, tv = cx(fn, value, env)
        if not tv.startswith("pair:"):
            bad(s, "unpacking of " + tv)
        ta, tb = tv[5:].split("|", 1)
        names, env2, after = [], dict(env), []
        for el, ty in zip(target.elts, (ta, tb)):
            if isinstance(el, ast.Name):
                names.append(fn.define(env2, el.id, ty).coq)
            elif isinstance(el, ast.Attribute):
                ch = name_chain(el)
                if not ch or len(ch) != 2 or ch[0] not in env2 or (env2[ch[0]].typ, ch[1]) not in SETTERS:
                    bad(s, "unpacking target")
                if ATTRS[env2[ch[0]].typ][ch[1]][0] != ty:
                    bad(s, "unpacking target type")
                t = fn.fresh()
                names.append(t)
                after.append((ch[0], ch[1], t))
            else:
                bad(s, "unpacking target")
        body = ""
        for obj, attr, t in after:
            old = env2[obj]
            var = fn.define(env2, obj, old.typ)
            body += f"let {var.coq} := {SETTERS[(old.typ, attr)]} {old.coq} {t} in\n"
        return bind_all(pre, f"let '({names[0]}, {names[1]}) := {v} in\n" + body + cont(env2))
    bad(s, "assignment target")


def cs_if(fn, s, rest, env, k, loop_k):
    pc, c, _ = cx(fn, s.test, env, "bool")
    body_ret, else_ret = always_returns(s.body), always_returns(s.orelse)

    def after(env2):
        return cs(fn, rest, env2, k, loop_k)

    if body_ret or else_ret:
        # a branch that returns never reaches the rest: the rest goes after the other branch
        tb = cs(fn, s.body, dict(env), (lambda e2: bad(s, "unreachable")) if body_ret else after, loop_k)
        te = cs(fn, s.orelse, dict(env), (lambda e2: bad(s, "unreachable")) if else_ret else after, loop_k)
        return bind_all(pc, f"if {c} then\n{tb}\nelse\n{te}")
    a_body, a_else = assigned_names(s.body), assigned_names(s.orelse)
    state = [n for n in env if n in a_body or n in a_else]
    state += [n for n in a_body if n in a_else and n not in state]
    state.sort(key=lambda n: env[n].order if n in env else 10 ** 6)
    if not state:
        bad(s, "if without effect")
    types = {}

    def branch(stmts):
        def fin(env2):
            for n in state:
                if n not in env2:
                    bad(s, f"{n} is not bound on every path")
                types[n] = env2[n].typ
            return "Ok " + tuple_val([env2[n].coq for n in state])
        return cs(fn, stmts, dict(env), fin, loop_k)

    tb = branch(s.body)
    te = branch(s.orelse)
    env2 = dict(env)
    names = [fn.define(env2, n, types[n]).coq for n in state]
    pat = names[0] if len(names) == 1 else "'(" + ", ".join(names) + ")"
    return bind_all(pc, f"{pat} <- (if {c} then\n{tb}\nelse\n{te}) ;;\n" + after(env2))


def cs_try(fn, s, env, cont, loop_k):
    ok = (len(s.body) == 1 and isinstance(s.body[0], ast.Assign) and len(s.body[0].targets) == 1
          and isinstance(s.body[0].targets[0], ast.Name) and len(s.handlers) == 1 and not s.orelse and not s.finalbody
          and name_chain(s.handlers[0].type) in (["game", "IllegalMove"], ["IllegalMove"])
          and len(s.handlers[0].body) == 1 and isinstance(s.handlers[0].body[0], ast.Continue) and loop_k is not None)
    if not ok:
        bad(s, "try shape (only `try: x = e  except IllegalMove: continue` inside a loop)")
    a = s.body[0]
    pre, v, tv = cx(fn, a.value, env)
    if not pre:
        bad(s, "try around an expression that cannot raise")
    last_var, last_term = pre[-1]
    if v != last_var:
        bad(s, "try body shape")
    env2 = dict(env)
    var = fn.define(env2, a.targets[0].id, tv)
    inner = (f"match {last_term} with\n| Ok {var.coq} =>\n{cont(env2)}\n| Illegal =>\n{loop_k(env)}\n"
             f"| Crash e => Crash e\nend")
    return bind_all(pre[:-1], inner)


def free_names(stmts):
    out = []
    for s in stmts:
        for n in ast.walk(s):
            if isinstance(n, ast.Name) and n.id not in out:
                out.append(n.id)
    return out


def cs_for(fn, s, env, cont):
    if s.orelse or not isinstance(s.target, ast.Name):
        bad(s, "for shape")
    for n in ast.walk(s):
        if isinstance(n, (ast.Break, ast.Return)):
            bad(n, "break / return inside a loop")
    it_expr, src_name, reverse = s.iter, None, False
    if is_call(it_expr, ["reversed"]) and len(it_expr.args) == 1 and isinstance(it_expr.args[0], ast.Name):
        src_name, reverse = it_expr.args[0].id, True
    elif isinstance(it_expr, ast.Name):
        src_name = it_expr.id
    pre, it, ity = cx(fn, it_expr, env)
    if not ity.startswith("list:"):
        bad(s, "iteration over " + ity)
    elt = ity[5:]
    lv = s.target.id
    assigned = assigned_names(s.body)
    mutates_elt = lv in assigned
    if mutates_elt and (src_name is None or elt not in ("pystat",)):
        bad(s, "a loop that updates its elements must run over a variable holding records")
    if src_name in assigned:
        bad(s, "the iterated list is changed inside the loop")
    state = sorted([n for n in assigned if n in env and n != lv], key=lambda n: env[n].order)
    used = free_names(s.body)
    params = sorted([n for n in used if n in env and n not in state and n != lv], key=lambda n: env[n].order)
    uses_cfg = any(name_chain(n) and name_chain(n)[:2] == ["self", "config"] for b in s.body for n in ast.walk(b)
                   if isinstance(n, ast.Attribute))
    fn.nloops += 1
    fname = f"{fn.name}_for{fn.nloops}"
    envb = dict(env)
    fn.define(envb, lv, elt)
    raising = [False]
    types = {}

    def rec_call(env2):
        args = (["cfg"] if uses_cfg else []) + [env[n].coq for n in params] + [env2[n].coq for n in state] + ["it'"]
        return f"{fname} " + " ".join(args)

    def step(env2):
        for n in state:
            types[n] = env2[n].typ
        if mutates_elt:
            names = [f"r_{n}" for n in state] + ["out"]
            return ("RECBIND " + tuple_pat(names) + " := " + rec_call(env2) + " IN " +
                    tuple_val([f"r_{n}" for n in state] + [f"({env2[lv].coq} :: out)"]))
        return "RECTAIL " + rec_call(env2)

    body = cs(fn, s.body, envb, step, step)
    raising[0] = (" <- " in body) or ("match " in body and "Illegal" in body) or ("Crash" in body)
    for n in state:
        types.setdefault(n, env[n].typ)
    st_types = [coq_type(types[n]) for n in state] + ([f"list ({coq_type(elt)})"] if mutates_elt else [])
    ret_t = " * ".join(st_types) if st_types else "unit"
    base_val = tuple_val([env[n].coq for n in state] + (["[]"] if mutates_elt else [])) if st_types else "tt"
    if raising[0]:
        body = body.replace("RECTAIL ", "")
        import re
        body = re.sub(r"RECBIND (.*?) := (.*?) IN (.*)", lambda m: f"{m.group(1)} <- {m.group(2)} ;;\nOk {m.group(3)}", body)
        ret_t, base = f"res ({ret_t})", f"Ok {base_val}"
    else:
        import re
        body = body.replace("RECTAIL ", "")
        body = re.sub(r"RECBIND (.*?) := (.*?) IN (.*)", lambda m: f"let {m.group(1)} := {m.group(2)} in\n{m.group(3)}", body)
        base = base_val
    sig = ("(cfg : pyconfig) " if uses_cfg else "") + \
        " ".join(f"({env[n].coq} : {coq_type(env[n].typ)})" for n in params) + " " + \
        " ".join(f"({env[n].coq} : {coq_type(types[n])})" for n in state)
    fn.loops.append((fname, f"Fixpoint {fname} {sig} (it : list ({coq_type(elt)})) {{struct it}} : {ret_t} :=\n"
                            f"match it with\n| [] => {base}\n| {envb[lv].coq} :: it' =>\n{body}\nend."))
    env2 = dict(env)
    call = f"{fname} " + " ".join((["cfg"] if uses_cfg else []) + [env[n].coq for n in params] + [env[n].coq for n in state] + [it])
    names = [fn.define(env2, n, types[n]).coq for n in state]
    extra = ""
    if mutates_elt:
        names = names + ["out"]
        src = fn.define(env2, src_name, env[src_name].typ)
        extra = f"let {src.coq} := {'(rev out)' if reverse else 'out'} in\n"
    pat = tuple_pat(names)
    if raising[0]:
        if pat.startswith("'"):
            return bind_all(pre, f"{pat} <- {call} ;;\n{extra}" + cont(env2))
        return bind_all(pre, f"{pat} <- {call} ;;\n{extra}" + cont(env2))
    return bind_all(pre, f"let {pat} := {call} in\n{extra}" + cont(env2))


# ---------------------------------------------------------------------------
# the three functions
# ---------------------------------------------------------------------------
def find_method(tree, cls, name):
    for n in tree.body:
        if isinstance(n, ast.ClassDef) and n.name == cls:
            for m in n.body:
                if isinstance(m, ast.FunctionDef) and m.name == name:
                    return m
    raise Untranslatable(f"mcts.py: no method {cls}.{name}")


def arg_names(f):
    a = f.args
    if a.vararg or a.kwarg or a.kwonlyargs or a.posonlyargs:
        bad(f, "signature")
    return [x.arg for x in a.args]


def finish(fn, text):
    for ph, var in fn.nil_types.items():
        ty = var.typ if var is not None else "list:?"
        text = text.replace(ph, f"(@nil ({coq_type(ty[5:])}))")
    return text


def tr_update(tree):
    f = find_method(tree, "MCTS", "update")
    names = arg_names(f)
    if len(names) != 2 or names[0] != "self":
        bad(f, "update signature")
    fn = Fn("update", None, "path")
    env = {}
    fn.define(env, names[1], "list:pystat")
    pname = names[1]
    fn.ret = lambda env2, value: (bad(f, "update returns a value") if value is not None else f"Ok {env2[pname].coq}")
    body = cs(fn, f.body, env, lambda env2: f"Ok {env2[pname].coq}")
    text = "\n\n".join(t for _, t in fn.loops) + \
        f"\n\nDefinition update (v_{pname} : list pystat) : res (list pystat) :=\n{body}."
    return finish(fn, text), src_of(f)


def tr_policy_probs(tree):
    f = find_method(tree, "Node", "policy_probs")
    names = arg_names(f)
    if len(names) != 2 or names[0] != "self":
        bad(f, "policy_probs signature")
    fn = Fn("policy_probs", "pynode", "expr")
    env = {}
    fn.define(env, names[1], "F")

    def ret(env2, value):
        if value is None:
            bad(f, "policy_probs must return a value")
        pre, v, tv = cx(fn, value, env2)
        v, _ = coerce(v, tv, "opt:list:Q", value)
        return bind_all(pre, f"Ok {v}")
    fn.ret = ret
    body = cs(fn, f.body, env, lambda env2: bad(f, "policy_probs falls off the end"))
    text = ("Section policy_probs_oracles.\n"
            "(* the float operations of the multiplier and the native solver *)\n"
            "Variable F : Type.\nVariable f_sqrt : Z -> F.\nVariable f_mul : F -> F -> F.\nVariable f_div_int : F -> Z -> F.\n"
            "Variable solve_policy : list Q -> list Q -> F -> res (list Q).\n\n" +
            "\n\n".join(t for _, t in fn.loops) +
            f"\n\nDefinition policy_probs (self : pynode) (v_{names[1]} : F) : res (option (list Q)) :=\n{body}.\n"
            "End policy_probs_oracles.")
    return finish(fn, text), src_of(f)


def tr_populate(tree):
    f = find_method(tree, "MCTS", "populate")
    names = arg_names(f)
    if len(names) != 3 or names[0] != "self":
        bad(f, "populate signature")
    d = f.args.defaults
    if len(d) != 1 or not (isinstance(d[0], ast.Constant) and d[0].value is False):
        bad(f, "populate defaults")
    fn = Fn("populate", None, "node")
    env = {}
    fn.define(env, names[1], "pynode")
    fn.define(env, names[2], "bool")
    nname = names[1]
    fn.ret = lambda env2, value: (bad(f, "populate returns a value") if value is not None else f"Ok {env2[nname].coq}")
    body = cs(fn, f.body, env, lambda env2: f"Ok {env2[nname].coq}")
    text = ("Section populate_oracles.\n"
            "(* network.evaluate(position) and torch.distributions.Dirichlet(full_like(raw, alpha)).sample() *)\n"
            "Variable evaluate : position -> res (list Q * Q).\n"
            "Variable dirichlet : Z -> option Q -> res (list Q).\n\n" +
            "\n\n".join(t for _, t in fn.loops) +
            f"\n\nDefinition populate (cfg : pyconfig) (v_{names[1]} : pynode) (v_{names[2]} : bool) : res pynode :=\n{body}.\n"
            "End populate_oracles.")
    return finish(fn, text), src_of(f)


def src_of(f):
    return ast.unparse(f)


HEADER = """(* GENERATED by harness/mcts2coq.py from python/tak/mcts.py - do not edit.
   MCTS.update, Node.policy_probs, MCTS.populate as a shallow embedding against
   model/PySem.v + model/MctsSem.v.  sha256 of the three function sources: {sha} *)
From Coq Require Import ZArith QArith List Bool.
From TV Require Import model.Tak model.Road model.PySem model.Mcts model.MctsSem.
Import ListNotations.
Open Scope Z_scope.
"""

STUB = """(* GENERATED by harness/mcts2coq.py: the translation FAILED, nothing is defined here,
   so every proof about the generated names fails.
   {why} *)
"""


def translate(repo_python):
    """(coq text, error or None)"""
    try:
        src = (Path(repo_python) / "tak" / "mcts.py").read_text()
        tree = ast.parse(src)
        parts, srcs = [], []
        for tr in (tr_update, tr_policy_probs, tr_populate):
            text, s = tr(tree)
            parts.append(text)
            srcs.append(s)
        sha = hashlib.sha256("\n".join(srcs).encode()).hexdigest()
        return HEADER.format(sha=sha) + "\n" + "\n\n".join(parts) + "\n", None
    except Untranslatable as e:
        return STUB.format(why=str(e).replace("*)", "* )")), str(e)
    except (SyntaxError, OSError) as e:
        return STUB.format(why=repr(e).replace("*)", "* )")), repr(e)


if __name__ == "__main__":
    import sys
    text, err = translate(sys.argv[1] if len(sys.argv) > 1 else "/repo/python")
    print(text)
    if err:
        print("ERROR:", err, file=sys.stderr)
        sys.exit(1)
