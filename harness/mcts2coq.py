"""mcts2coq - a fail-closed translator (Python `ast`, nothing is executed) from the CURRENT text of
python/tak/mcts.py to Gallina, for exactly three pieces of pure logic:

    MCTS.update(path)            -> update_for1, update
    Node.policy_probs(c)         -> policy_probs            (oracles: tak_ext.solve_policy, the float operations of the multiplier)
    MCTS.populate(node, is_root) -> populate_for1, populate (oracles: network.evaluate, the Dirichlet sample)

The output (coq/gen/MctsGen.v) is a shallow embedding written against coq/model/PySem.v + coq/model/MctsSem.v;
coq/proofs/MctsGenEq.v proves it equal to what model/Mcts.v's `simulate` does.  Scheme:

 * locals are values that are REBOUND (`let` / monadic bind that shadows); every Python local `x` becomes `v_x`;
 * an object whose attributes are assigned (`node.value += v`, `node.children = []`, `node.children.append(..)`) is a
   record that is rebound; a function returns the objects it mutates (update: the path's records, populate: the node);
 * an expression that can raise is bound (`t <- e ;;`) in Python's evaluation order; PySem's outcomes `Ok | Illegal | Crash`;
 * `for v in it` / `for v in reversed(it)` -> a `Fixpoint <f>_for<k>` by structural recursion over the iterated list;
   state = the variables assigned in the body that exist before the loop, in order of definition; a loop that assigns
   attributes of its loop variable also returns the list of the updated elements, which rebinds `it`;
 * `try: x = e  except IllegalMove: continue` -> `match e with Ok v => .. | Illegal => <next iteration> | Crash e => Crash e end`;
 * `if` whose branches fall through returns the tuple of the variables it assigns that exist before it (or are
   assigned in every branch); a branch that ends in `return` does not reach the rest;
 * statements that update `self.stats.<counter>` are dropped (search statistics, not part of any property);
 * anything else raises Untranslatable: the obligation translate:mcts.py breaks and a stub without definitions is
   written, so every proof about the generated names fails.
"""
import ast
import hashlib
from fractions import Fraction
from pathlib import Path


class Untranslatable(Exception):
    pass


def bad(node, why):
    line = getattr(node, "lineno", "?")
    raise Untranslatable(f"mcts.py:{line}: {why}: {ast.dump(node)[:160] if isinstance(node, ast.AST) else node}")


COQ_TYPE = {"Q": "Q", "Z": "Z", "bool": "bool", "F": "F", "pos": "position", "mv": "mv", "color": "color",
            "ocolor": "option color", "oreason": "option reason", "pystat": "pystat", "pynode": "pynode",
            "cfg": "pyconfig", "unit": "unit", "ref": "place", "xtime": "xtime", "heap": "pynode"}


def coq_type(t):
    if t.startswith("list:"):
        return f"list ({coq_type(t[5:])})"
    if t.startswith("opt:"):
        return f"option ({coq_type(t[4:])})"
    if t.startswith("pair:"):
        a, b = t[5:].split("|", 1)
        return f"({coq_type(a)} * {coq_type(b)})"
    if t == "?":
        return "unit"
    return COQ_TYPE[t]


ATTRS = {
    "pystat": {"v_zero": ("Q", "ps_v_zero"), "value": ("Q", "ps_value"), "simulations": ("Z", "ps_simulations")},
    "pynode": {"position": ("pos", "pn_position"), "move": ("opt:mv", "pn_move"), "v_zero": ("Q", "pn_v_zero"),
               "value": ("Q", "pn_value"), "simulations": ("Z", "pn_simulations"),
               "child_probs": ("opt:list:Q", "pn_child_probs"), "children": ("opt:list:pynode", "pn_children")},
    "pos": {"size": ("Z", "size")},
    "cfg": {"cutoff_prob": ("Q", "cfg_cutoff_prob"), "root_noise_alpha": ("opt:Q", "cfg_root_noise_alpha"),
            "root_noise_mix": ("Q", "cfg_root_noise_mix"), "time_limit": ("Q", "cfg_time_limit"),
            "simulation_limit": ("Z", "cfg_simulation_limit")},
}
SETTERS = {("pystat", "value"): "set_ps_value", ("pystat", "simulations"): "set_ps_simulations",
           ("pystat", "v_zero"): "set_ps_v_zero", ("pynode", "v_zero"): "set_pn_v_zero",
           ("pynode", "children"): "set_pn_children", ("pynode", "child_probs"): "set_pn_child_probs"}


class Var:
    def __init__(self, coq, typ, order):
        self.coq, self.typ, self.order = coq, typ, order


class Fn:
    """compilation state of one function"""

    def __init__(self, name, self_type, ret_kind):
        self.name, self.self_type, self.ret_kind = name, self_type, ret_kind
        self.tmp = 0
        self.loops = []          # emitted Fixpoints (text)
        self.nloops = 0
        self.order = 0
        self.nil_types = {}      # placeholder -> Var (empty list literals whose element type is fixed later)

    def fresh(self):
        self.tmp += 1
        return f"t{self.tmp}"

    def define(self, env, name, typ):
        self.order += 1
        env[name] = Var("v_" + name, typ, env[name].order if name in env else self.order)
        return env[name]


# ---------------------------------------------------------------------------
# expressions: cx -> (prelude [(var, res term)], pure term, type)
# ---------------------------------------------------------------------------
def name_chain(node):
    parts = []
    while isinstance(node, ast.Attribute):
        parts.append(node.attr)
        node = node.value
    if isinstance(node, ast.Name):
        parts.append(node.id)
        return list(reversed(parts))
    return None


def coerce(term, typ, want, node):
    if want is None or typ == want:
        return term, typ
    if typ == "Z" and want == "Q":
        return f"(q_of_int {term})", "Q"
    if want.startswith("opt:") and typ == want[4:]:
        return f"(Some {term})", want
    if typ.startswith("list:") and want.startswith("opt:list:") and (typ[5:] == "?" or typ == want[4:]):
        return f"(Some {term})", want
    if typ == "list:?" and want.startswith("list:"):
        return term, want
    bad(node, f"type {typ} where {want} is needed")


MODE = {"m": False}      # True while a function that threads the oracle state (monad M of MctsSem.v) is compiled
EMITTED = {}


def bind1(pat, term, body):
    """one bind in the current monad; a term tagged "M:" is a stateful computation"""
    if MODE["m"]:
        t = term[2:] if term.startswith("M:") else f"lift ({term})"
        return f"{pat} <~ {t} ;;\n{body}"
    if term.startswith("M:"):
        raise Untranslatable("a stateful oracle (sampler / clock / network) is used in a function translated as pure: " + term[:60])
    return f"{pat} <- {term} ;;\n{body}"


def ok(term):
    return f"mret {term}" if MODE["m"] else f"Ok {term}"


def bind_all(prelude, body):
    out = body
    for var, term in reversed(prelude):
        out = bind1(var, term, out)
    return out


def cx(fn, e, env, want=None):
    pre, term, typ = cx0(fn, e, env, want)
    if typ == "list:?" and want is not None and term in fn.nil_types and fn.nil_types[term] is None:
        elem = want[9:] if want.startswith("opt:list:") else want[5:] if want.startswith("list:") else None
        if elem and elem != "?":
            fn.nil_types[term] = Var("", "list:" + elem, 0)      # an empty list literal used where the type is known
    term, typ = coerce(term, typ, want, e)
    return pre, term, typ


def cx_res(fn, e, env, want=None):
    """an expression as ONE res term (its own prelude folded in)"""
    pre, term, typ = cx(fn, e, env, want)
    return bind_all(pre, ok(term)) if pre else None, term, typ, pre


def cx0(fn, e, env, want):
    if isinstance(e, ast.Name):
        if e.id == "self" and fn.self_type:
            return [], "self", fn.self_type
        if e.id not in env:
            bad(e, "unknown name")
        return [], env[e.id].coq, env[e.id].typ
    if isinstance(e, ast.Constant):
        if isinstance(e.value, bool) or e.value is None:
            bad(e, "constant")
        if isinstance(e.value, int):
            return [], (f"{e.value}" if e.value >= 0 else f"({e.value})"), "Z"
        if isinstance(e.value, float):
            fr = Fraction(e.value)
            return [], f"(Qmake {fr.numerator if fr.numerator >= 0 else '(' + str(fr.numerator) + ')'} {fr.denominator})", "Q"
        bad(e, "constant")
    if isinstance(e, ast.List) and not e.elts:
        ph = f"@@NIL{len(fn.nil_types)}@@"
        fn.nil_types[ph] = None
        return [], ph, "list:?"
    if isinstance(e, ast.UnaryOp) and isinstance(e.op, ast.USub):
        pre, t, ty = cx(fn, e.operand, env)
        if ty == "Q":
            return pre, f"(Qopp {t})", "Q"
        if ty == "Z":
            return pre, f"(Z.opp {t})", "Z"
        bad(e, "unary minus on " + ty)
    if isinstance(e, ast.BinOp):
        return cx_binop(fn, e, env)
    if isinstance(e, ast.Compare):
        return cx_compare(fn, e, env)
    if isinstance(e, ast.BoolOp):
        is_and = isinstance(e.op, ast.And)
        parts = [cx(fn, v, env, "bool") for v in e.values]
        if not any(p for p, _, _ in parts[1:]):
            pre = parts[0][0]
            return pre, "(" + (" && " if is_and else " || ").join(t for _, t, _ in parts) + ")", "bool"
        # a later operand has effects / can raise: it is evaluated only when Python evaluates it
        term = bind_all(parts[-1][0], ok(parts[-1][1]))
        for p, t, _ in reversed(parts[1:-1]):
            term = bind_all(p, f"if {t} then {term if is_and else ok('true')} else {ok('false') if is_and else term}")
        v = fn.fresh()
        first_pre, first_t, _ = parts[0]
        cond = f"(if {first_t} then {term if is_and else ok('true')} else {ok('false') if is_and else term})"
        return first_pre + [(v, ("M:" if MODE["m"] else "") + cond)], v, "bool"
    if isinstance(e, ast.IfExp):
        pc, c, _ = cx(fn, e.test, env, "bool")
        ra, ta, tya, pa = cx_res(fn, e.body, env)
        rb, tb, tyb, pb = cx_res(fn, e.orelse, env)
        if tya != tyb:
            if {tya, tyb} == {"Q", "Z"}:
                ra, ta, tya, pa = cx_res(fn, e.body, env, "Q")
                rb, tb, tyb, pb = cx_res(fn, e.orelse, env, "Q")
            else:
                bad(e, f"branches of different types {tya} / {tyb}")
        if not pa and not pb:
            return pc, f"(if {c} then {ta} else {tb})", tya
        v = fn.fresh()
        return pc + [(v, ("M:" if MODE["m"] else "") + f"(if {c} then {ra or ok(ta)} else {rb or ok(tb)})")], v, tya
    if isinstance(e, ast.Attribute):
        return cx_attr(fn, e, env)
    if isinstance(e, ast.Subscript):
        return cx_subscript(fn, e, env)
    if isinstance(e, ast.Call):
        return cx_call(fn, e, env)
    if isinstance(e, ast.ListComp):
        return cx_listcomp(fn, e, env)
    bad(e, "expression")


def hp_of(env, node):
    if "@hp" not in env:
        bad(node, "a node reference is used where no tree is in scope")
    return env["@hp"].coq


def cx_attr(fn, e, env):
    chain = name_chain(e)
    if chain == ["self", "config", "C"] and fn.self_type is None:
        return [], "cfg_C", "F"
    if chain and chain[:2] == ["self", "config"] and len(chain) == 3 and fn.self_type is None:
        if chain[2] not in ATTRS["cfg"]:
            bad(e, "config field")
        ty, acc = ATTRS["cfg"][chain[2]]
        return [], f"({acc} cfg)", ty
    if chain == ["self", "config", "C"] and fn.self_type is None:
        return [], "cfg_C", "F"
    pre, t, ty = cx(fn, e.value, env)
    if ty == "ref":                      # an attribute of the node behind a reference: read through the tree
        v = fn.fresh()
        pre, t, ty = pre + [(v, f"pt_get {hp_of(env, e)} {t}")], v, "pynode"
    if ty in ATTRS and e.attr in ATTRS[ty]:
        rty, acc = ATTRS[ty][e.attr]
        return pre, f"({acc} {t})", rty
    bad(e, f"attribute {e.attr} of {ty}")


def cx_binop(fn, e, env):
    pa, a, ta = cx(fn, e.left, env)
    pb, b, tb = cx(fn, e.right, env)
    op = type(e.op).__name__
    pre = pa + pb
    if ta == "Z" and tb == "Z" and op in ("Add", "Sub", "Mult"):
        return pre, f"(Z.{ {'Add': 'add', 'Sub': 'sub', 'Mult': 'mul'}[op]} {a} {b})", "Z"
    if {ta, tb} <= {"Q", "Z"} and "Q" in (ta, tb) or (ta == "Z" and tb == "Z" and op == "Div"):
        a, _ = coerce(a, ta, "Q", e)
        b, _ = coerce(b, tb, "Q", e)
        if op in ("Add", "Sub", "Mult"):
            return pre, f"(Q{ {'Add': 'plus', 'Sub': 'minus', 'Mult': 'mult'}[op]} {a} {b})", "Q"
        if op == "Div":
            v = fn.fresh()
            return pre + [(v, f"py_truediv {a} {b}")], v, "Q"
    if ta == "F" and tb == "F" and op == "Mult":
        return pre, f"(f_mul {a} {b})", "F"
    if ta == "F" and tb == "Z" and op == "Div":
        v = fn.fresh()
        return pre + [(v, f"py_fdiv_int f_div_int {a} {b}")], v, "F"
    if tb == "list:Q" and ta in ("Q", "Z") and op == "Mult":
        a, _ = coerce(a, ta, "Q", e)
        return pre, f"(ft_scale {a} {b})", "list:Q"
    if ta == "list:Q" and tb == "list:Q" and op == "Add":
        v = fn.fresh()
        return pre + [(v, f"ft_add {a} {b}")], v, "list:Q"
    bad(e, f"operator {op} on {ta}, {tb}")


def cx_compare(fn, e, env):
    if len(e.ops) != 1:
        bad(e, "chained comparison")
    op = type(e.ops[0]).__name__
    right = e.comparators[0]
    if op in ("Is", "IsNot") and isinstance(right, ast.Constant) and right.value is None:
        pre, t, ty = cx(fn, e.left, env)
        if not ty.startswith("opt:") and ty not in ("ocolor", "oreason"):
            bad(e, "`is None` on " + ty)
        return pre, (f"(negb (is_some {t}))" if op == "Is" else f"(is_some {t})"), "bool"
    pa, a, ta = cx(fn, e.left, env)
    pb, b, tb = cx(fn, right, env)
    pre = pa + pb
    if ta == "ref" and tb == "ref" and op in ("Is", "IsNot"):
        return pre, (f"(place_eqb {a} {b})" if op == "Is" else f"(negb (place_eqb {a} {b}))"), "bool"
    if ta == "Q" and tb == "xtime" and op == "Gt":
        return pre, f"(xt_gt {a} {b})", "bool"
    if ta == "ocolor" and tb == "color" and op == "Eq":
        return pre, f"(opt_color_is {a} {b})", "bool"
    if ta == "list:Q" and tb in ("Q", "Z") and op in ("GtE", "Gt"):
        b, _ = coerce(b, tb, "Q", e)
        return pre, f"({'ft_ge' if op == 'GtE' else 'ft_gt'} {a} {b})", "list:bool"
    if ta == "Z" and tb == "Z":
        m = {"Eq": f"(Z.eqb {a} {b})", "NotEq": f"(negb (Z.eqb {a} {b}))", "Gt": f"(Z.ltb {b} {a})",
             "GtE": f"(Z.leb {b} {a})", "Lt": f"(Z.ltb {a} {b})", "LtE": f"(Z.leb {a} {b})"}
        if op in m:
            return pre, m[op], "bool"
    if {ta, tb} <= {"Q", "Z"}:
        a, _ = coerce(a, ta, "Q", e)
        b, _ = coerce(b, tb, "Q", e)
        m = {"Eq": f"(q_eqb {a} {b})", "NotEq": f"(negb (q_eqb {a} {b}))", "Gt": f"(q_ltb {b} {a})",
             "GtE": f"(q_leb {b} {a})", "Lt": f"(q_ltb {a} {b})", "LtE": f"(q_leb {a} {b})"}
        if op in m:
            return pre, m[op], "bool"
    bad(e, f"comparison {op} on {ta}, {tb}")


def cx_subscript(fn, e, env):
    if isinstance(e.value, ast.Attribute) and e.value.attr == "children" and not isinstance(e.slice, ast.Slice):
        p0, t0, ty0 = cx(fn, e.value.value, env)
        if ty0 == "ref":
            pi, i, _ = cx(fn, e.slice, env, "Z")
            v = fn.fresh()
            return p0 + pi + [(v, f"pt_child {hp_of(env, e)} {t0} {i}")], v, "ref"
    pre, t, ty = cx(fn, e.value, env)
    s = e.slice
    if isinstance(s, ast.Slice):
        if s.lower is not None or s.step is not None or s.upper is None or ty != "list:Q":
            bad(e, "slice")
        pu, u, _ = cx(fn, s.upper, env, "Z")
        return pre + pu, f"(ft_slice_to {t} {u})", ty
    pi, i, ti = cx(fn, s, env)
    if ty.startswith("list:") and ti == "Z":
        v = fn.fresh()
        return pre + pi + [(v, f"py_getitem {t} {i}")], v, ty[5:]
    if ty == "list:Q" and ti == "list:Z":
        v = fn.fresh()
        return pre + pi + [(v, f"ft_index {t} {i}")], v, "list:Q"
    bad(e, f"subscript of {ty} by {ti}")


# the search functions: how they are called (pure res / stateful with fuel) and what they return
SEARCH_FUNS = {"descend": ("fuel", "list:ref"), "analyze_tree": ("fuel", "heap"), "analyze": ("fuel", "heap"),
               "select_root_move": ("m", "opt:mv"), "tree_probs": ("pure", "opt:list:Q"), "get_move": ("fuel", "opt:mv")}


def is_call(e, chain):
    return isinstance(e, ast.Call) and name_chain(e.func) == chain


def cx_call(fn, e, env):
    chain = name_chain(e.func)
    nargs = len(e.args)
    # torch.nonzero(B)[:, 0].numpy()
    if (isinstance(e.func, ast.Attribute) and e.func.attr in ("numpy", "tolist") and nargs == 0
            and isinstance(e.func.value, ast.Subscript) and is_call(e.func.value.value, ["torch", "nonzero"])):
        sub = e.func.value
        sl = sub.slice
        ok = (isinstance(sl, ast.Tuple) and len(sl.elts) == 2 and isinstance(sl.elts[0], ast.Slice)
              and sl.elts[0].lower is None and sl.elts[0].upper is None and sl.elts[0].step is None
              and isinstance(sl.elts[1], ast.Constant) and sl.elts[1].value == 0 and len(sub.value.args) == 1)
        if not ok:
            bad(e, "nonzero pattern")
        pre, b, tb = cx(fn, sub.value.args[0], env)
        if tb != "list:bool":
            bad(e, "nonzero of " + tb)
        return pre, f"(bt_nonzero {b})", "list:Z"
    # torch.distributions.Dirichlet(torch.full_like(T, fill_value=A)).sample()
    if (isinstance(e.func, ast.Attribute) and e.func.attr == "sample" and nargs == 0
            and is_call(e.func.value, ["torch", "distributions", "Dirichlet"])):
        d = e.func.value
        if len(d.args) != 1 or not is_call(d.args[0], ["torch", "full_like"]):
            bad(e, "Dirichlet pattern")
        fl = d.args[0]
        if len(fl.args) != 1 or len(fl.keywords) != 1 or fl.keywords[0].arg != "fill_value":
            bad(e, "full_like pattern")
        pt, t, tt = cx(fn, fl.args[0], env)
        pa, a, ta = cx(fn, fl.keywords[0].value, env)
        if tt != "list:Q" or ta != "opt:Q":
            bad(e, "Dirichlet argument types")
        v = fn.fresh()
        return pt + pa + [(v, f"M:dirichlet_st (zlen {t}) {a}" if MODE["m"] else f"dirichlet (zlen {t}) {a}")], v, "list:Q"
    # torch.multinomial(P, 1).item(): the sampler, an oracle with state
    if (isinstance(e.func, ast.Attribute) and e.func.attr == "item" and nargs == 0
            and is_call(e.func.value, ["torch", "multinomial"])):
        mc = e.func.value
        if len(mc.args) != 2 or mc.keywords or not (isinstance(mc.args[1], ast.Constant) and mc.args[1].value == 1):
            bad(e, "multinomial pattern")
        pp, pol, tp = cx(fn, mc.args[0], env)
        if tp != "opt:list:Q":
            bad(e, "multinomial of " + tp)
        v = fn.fresh()
        return pp + [(v, f"M:multinomial {pol}")], v, "Z"
    if chain == ["time", "monotonic"] and nargs == 0 and not e.keywords:
        v = fn.fresh()
        return [(v, "M:monotonic")], v, "Q"
    if chain == ["float"] and nargs == 1 and isinstance(e.args[0], ast.Constant) and e.args[0].value == "inf":
        return [], "TInf", "xtime"
    if isinstance(e.func, ast.Attribute) and e.func.attr == "policy_probs" and nargs == 1 and not e.keywords:
        pn, n, tn = cx(fn, e.func.value, env)
        if tn == "ref":
            v0 = fn.fresh()
            pn, n, tn = pn + [(v0, f"pt_get {hp_of(env, e)} {n}")], v0, "pynode"
        if tn != "pynode":
            bad(e, "policy_probs of " + tn)
        pc, c, _ = cx(fn, e.args[0], env, "F")
        v = fn.fresh()
        return pn + pc + [(v, f"policy_probs F f_sqrt f_mul f_div_int solve_policy {n} {c}")], v, "opt:list:Q"
    if chain and chain[0] == "self" and len(chain) == 2 and chain[1] in SEARCH_FUNS and fn.self_type is None and not e.keywords:
        kind, rty = SEARCH_FUNS[chain[1]]
        args = [cx(fn, a, env) for a in e.args]
        pre = [x for p, _, _ in args for x in p]
        if chain[1] in ("descend", "select_root_move", "tree_probs", "analyze_tree"):
            if len(args) != 1 or args[0][2] != "ref":
                bad(e, chain[1] + " argument")
            call = f"{chain[1]} {'fuel0 cfg ' if kind == 'fuel' else ''}{hp_of(env, e)} {args[0][1]}"
        elif chain[1] == "analyze":
            if len(args) != 1 or args[0][2] != "pos":
                bad(e, "analyze argument")
            call = f"analyze fuel0 cfg {args[0][1]}"
        else:
            bad(e, "call")
        v = fn.fresh()
        return pre + [(v, ("" if kind == "pure" else "M:") + call)], v, rty
    if e.keywords and chain != ["Node"]:
        bad(e, "keyword arguments")
    if chain == ["reversed"] and nargs == 1:
        pre, t, ty = cx(fn, e.args[0], env)
        if not ty.startswith("list:"):
            bad(e, "reversed of " + ty)
        return pre, f"(rev {t})", ty
    if chain == ["len"] and nargs == 1:
        pre, t, ty = cx(fn, e.args[0], env)
        if ty.startswith("list:"):
            return pre, f"(zlen {t})", "Z"
        if ty.startswith("opt:list:"):
            v = fn.fresh()
            return pre + [(v, f"py_len_opt {t}")], v, "Z"
        bad(e, "len of " + ty)
    if chain == ["math", "sqrt"] and nargs == 1:
        pre, t, ty = cx(fn, e.args[0], env, "Z")
        return pre, f"(f_sqrt {t})", "F"
    if chain == ["torch", "tensor"] and nargs == 1:
        pre, t, ty = cx(fn, e.args[0], env)
        if ty != "list:Q":
            bad(e, "torch.tensor of " + ty)
        return pre, t, ty
    if chain == ["tak_ext", "solve_policy"] and nargs == 3:
        p1, a, ta = cx(fn, e.args[0], env)
        p2, b, tb = cx(fn, e.args[1], env, "list:Q")
        p3, c, tc = cx(fn, e.args[2], env, "F")
        pre = p1 + p2 + p3
        if ta == "opt:list:Q":
            v = fn.fresh()
            pre.append((v, f"py_tensor_arg {a}"))
            a = v
        elif ta != "list:Q":
            bad(e, "solve_policy argument " + ta)
        v = fn.fresh()
        return pre + [(v, f"solve_policy {a} {b} {c}")], v, "list:Q"
    if chain == ["self", "network", "evaluate"] and nargs == 1 and fn.self_type is None:
        pre, t, ty = cx(fn, e.args[0], env, "pos")
        v = fn.fresh()
        return pre + [(v, f"M:evaluate_st {t}" if MODE["m"] else f"evaluate {t}")], v, "pair:list:Q|Q"
    if chain == ["encoding", "n_moves_for_size"] and nargs == 1:
        pre, t, ty = cx(fn, e.args[0], env, "Z")
        return pre, f"(n_moves_for_size {t})", "Z"
    if chain == ["encoding", "decode_move"] and nargs == 2:
        p1, a, _ = cx(fn, e.args[0], env, "Z")
        p2, b, _ = cx(fn, e.args[1], env, "Z")
        v = fn.fresh()
        return p1 + p2 + [(v, f"py_decode_move {a} {b}")], v, "mv"
    if (chain == ["Node"] and nargs == 0 and [k.arg for k in e.keywords] == ["position", "move"]
            and isinstance(e.keywords[1].value, ast.Constant) and e.keywords[1].value.value is None):
        p1, a, _ = cx(fn, e.keywords[0].value, env, "pos")
        return p1, f"(py_new_root {a})", "heap"
    if chain == ["Node"] and nargs == 0 and [k.arg for k in e.keywords] == ["position", "move"]:
        p1, a, _ = cx(fn, e.keywords[0].value, env, "pos")
        p2, b, _ = cx(fn, e.keywords[1].value, env, "mv")
        return p1 + p2, f"(py_new_node {a} {b})", "pynode"
    if isinstance(e.func, ast.Attribute):
        meth = e.func.attr
        pre, t, ty = cx(fn, e.func.value, env)
        if ty == "pos" and meth == "winner" and nargs == 0:
            return pre, f"(Road.winner {t})", "pair:ocolor|oreason"
        if ty == "pos" and meth == "to_move" and nargs == 0:
            return pre, f"(to_move {t})", "color"
        if ty == "color" and meth == "flip" and nargs == 0:
            return pre, f"(flip {t})", "color"
        if ty == "pos" and meth == "move" and nargs == 1:
            pm, m, _ = cx(fn, e.args[0], env, "mv")
            v = fn.fresh()
            return pre + pm + [(v, f"py_move {t} {m}")], v, "pos"
        if ty == "list:Q" and meth == "sum" and nargs == 0:
            return pre, f"(ft_sum {t})", "Q"
    bad(e, "call")


def cx_listcomp(fn, e, env):
    if len(e.generators) != 1:
        bad(e, "comprehension with several generators")
    g = e.generators[0]
    if g.ifs or g.is_async or not isinstance(g.target, ast.Name):
        bad(e, "comprehension shape")
    pre, it, ty = cx(fn, g.iter, env)
    if ty.startswith("opt:list:"):
        v = fn.fresh()
        pre = pre + [(v, f"py_iter_opt {it}")]
        it, ty = v, ty[4:]
    if not ty.startswith("list:"):
        bad(e, "comprehension over " + ty)
    inner = dict(env)
    inner[g.target.id] = Var("x_" + g.target.id, ty[5:], 0)     # the comprehension's own scope
    r, t, ety, p = cx_res(fn, e.elt, inner)
    x = inner[g.target.id].coq
    if p:
        v = fn.fresh()
        return pre + [(v, f"py_mapM (fun {x} => {r}) {it}")], v, "list:" + ety
    return pre, f"(map (fun {x} => {t}) {it})", "list:" + ety


# ---------------------------------------------------------------------------
# statements (continuation passing: k(env) gives the term for "the rest")
# ---------------------------------------------------------------------------
def assigned_names(stmts):
    """names (re)bound by the statements, attribute assignment / append counting as rebinding the object"""
    out = []

    def add(n):
        if n not in out:
            out.append(n)

    def target(t):
        if isinstance(t, ast.Name):
            add(t.id)
        elif isinstance(t, ast.Tuple):
            for x in t.elts:
                target(x)
        elif isinstance(t, ast.Attribute):
            ch = name_chain(t)
            if ch and ch[0] != "self":
                add(ch[0])
            elif not ch or ch[:2] != ["self", "stats"]:
                bad(t, "assignment target")
        else:
            bad(t, "assignment target")

    for s in stmts:
        if isinstance(s, ast.Assign):
            for t in s.targets:
                target(t)
        elif isinstance(s, ast.AugAssign):
            target(s.target)
        elif isinstance(s, ast.Expr) and isinstance(s.value, ast.Call) and name_chain(s.value.func) in (["self", "populate"], ["self", "update"]):
            add("@hp")
        elif isinstance(s, ast.While):
            for n in assigned_names(s.body):
                add(n)
        elif isinstance(s, ast.Expr) and isinstance(s.value, ast.Call) and isinstance(s.value.func, ast.Attribute) \
                and s.value.func.attr == "append":
            ch = name_chain(s.value.func.value)
            if not ch:
                bad(s, "append target")
            add(ch[0])
        elif isinstance(s, ast.If):
            for n in assigned_names(s.body) + assigned_names(s.orelse):
                add(n)
        elif isinstance(s, ast.For):
            for n in assigned_names(s.body):
                add(n)
        elif isinstance(s, ast.Try):
            for n in assigned_names(s.body):
                add(n)
    return out


def always_returns(stmts):
    if not stmts:
        return False
    last = stmts[-1]
    if isinstance(last, (ast.Return, ast.Break, ast.Continue)):
        return True
    if isinstance(last, ast.If):
        return always_returns(last.body) and always_returns(last.orelse)
    return False


def is_stats_update(s):
    if isinstance(s, ast.AugAssign):
        ch = name_chain(s.target)
        return bool(ch) and ch[:2] == ["self", "stats"] and len(ch) == 3
    return False


def tuple_pat(names):
    return names[0] if len(names) == 1 else "'(" + ", ".join(names) + ")"


def tuple_val(names):
    return names[0] if len(names) == 1 else "(" + ", ".join(names) + ")"


def cs(fn, stmts, env, k, loop_k=None, break_k=None):
    """term (of type res .. / M ost ..) for the statements followed by k(env)"""
    if not stmts:
        return k(env)
    s, rest = stmts[0], stmts[1:]

    def cont(env2):
        return cs(fn, rest, env2, k, loop_k, break_k)

    if isinstance(s, ast.Break):
        if rest or break_k is None:
            bad(s, "break")
        return break_k(env)
    if isinstance(s, ast.While):
        return cs_while(fn, s, rest, env, k, cont)
    if isinstance(s, ast.Expr) and isinstance(s.value, ast.Call) and name_chain(s.value.func) == ["self", "populate"]:
        c = s.value
        if len(c.args) != 2 or c.keywords or not MODE["m"]:
            bad(s, "populate call")
        pa, a, ta = cx(fn, c.args[0], env)
        pb, b, tb = cx(fn, c.args[1], env, "bool")
        if ta != "ref":
            bad(s, "populate of " + ta)
        env2 = dict(env)
        old_hp = hp_of(env, s)
        fn.define(env2, "@hp", "heap")
        env2["@hp"].coq = "hp"
        return bind_all(pa + pb, bind1("hp", f"M:populate_at cfg {old_hp} {a} {b}", cont(env2)))
    if isinstance(s, ast.Expr) and isinstance(s.value, ast.Call) and name_chain(s.value.func) == ["self", "update"]:
        c = s.value
        if len(c.args) != 1 or c.keywords:
            bad(s, "update call")
        pa, a, ta = cx(fn, c.args[0], env)
        if ta != "list:ref":
            bad(s, "update of " + ta)
        env2 = dict(env)
        old_hp = hp_of(env, s)
        fn.define(env2, "@hp", "heap")
        env2["@hp"].coq = "hp"
        return bind_all(pa, bind1("hp", f"pt_with_stats {old_hp} {a} update", cont(env2)))

    if is_stats_update(s) or isinstance(s, ast.Pass):
        return cont(env)
    if isinstance(s, ast.Expr) and isinstance(s.value, ast.Constant) and isinstance(s.value.value, str):
        return cont(env)
    if isinstance(s, ast.Return):
        if rest:
            bad(s, "statements after return")
        return fn.ret(env, s.value)
    if isinstance(s, ast.Continue):
        if rest or loop_k is None:
            bad(s, "continue")
        return loop_k(env)
    if isinstance(s, ast.Assign):
        if len(s.targets) != 1:
            bad(s, "multiple targets")
        return cs_assign(fn, s.targets[0], s.value, env, cont, s)
    if isinstance(s, ast.AugAssign):
        op = ast.BinOp(left=target_as_expr(s.target), op=s.op, right=s.value)
        ast.copy_location(op, s)
        if isinstance(s.op, ast.Div) and isinstance(s.target, ast.Name) and s.target.id in env \
                and env[s.target.id].typ == "list:Q":
            pre, b, tb = cx(fn, s.value, env, "Q")
            v = fn.fresh()
            env2 = dict(env)
            var = fn.define(env2, s.target.id, "list:Q")
            return bind_all(pre + [(v, f"ft_idiv_scalar {env[s.target.id].coq} {b}")], f"let {var.coq} := {v} in\n" + cont(env2))
        return cs_assign(fn, s.target, op, env, cont, s)
    if isinstance(s, ast.Expr) and isinstance(s.value, ast.Call) and isinstance(s.value.func, ast.Attribute) \
            and s.value.func.attr == "append" and len(s.value.args) == 1:
        tgt = s.value.func.value
        if isinstance(tgt, ast.Name):
            if tgt.id not in env or not env[tgt.id].typ.startswith("list:"):
                bad(s, "append to a non-list")
            pre, v, tv = cx(fn, s.value.args[0], env)
            old = env[tgt.id]
            if old.typ == "list:?":
                old.typ = "list:" + tv
            elif old.typ != "list:" + tv:
                bad(s, "append of " + tv + " to " + old.typ)
            env2 = dict(env)
            var = fn.define(env2, tgt.id, old.typ)
            return bind_all(pre, f"let {var.coq} := ({old.coq} ++ [{v}]) in\n" + cont(env2))
        ch = name_chain(tgt)
        if ch and len(ch) == 2 and ch[0] in env and env[ch[0]].typ == "pynode" and ch[1] == "children":
            pre, v, tv = cx(fn, s.value.args[0], env, "pynode")
            env2 = dict(env)
            old = env[ch[0]]
            var = fn.define(env2, ch[0], "pynode")
            t = fn.fresh()
            return bind_all(pre + [(t, f"pn_children_append {old.coq} {v}")], f"let {var.coq} := {t} in\n" + cont(env2))
        bad(s, "append target")
    if isinstance(s, ast.If):
        return cs_if(fn, s, rest, env, k, loop_k, break_k)
    if isinstance(s, ast.For):
        return cs_for(fn, s, env, cont)
    if isinstance(s, ast.Try):
        return cs_try(fn, s, env, cont, loop_k)
    bad(s, "statement")


def target_as_expr(t):
    e = ast.parse(ast.unparse(t), mode="eval").body
    ast.copy_location(e, t)
    for n in ast.walk(e):
        ast.copy_location(n, t)
    return e


def cs_assign(fn, target, value, env, cont, s):
    if isinstance(target, ast.Name):
        pre, v, tv = cx(fn, value, env)
        if tv == "heap":                 # a new tree / the tree a search returns: the name refers to its root
            env2 = dict(env)
            fn.define(env2, "@hp", "heap")
            env2["@hp"].coq = "hp"
            var = fn.define(env2, target.id, "ref")
            return bind_all(pre, f"let hp := {v} in\nlet {var.coq} := (@nil Z) in\n" + cont(env2))
        if tv == "Q" and target.id in getattr(fn, "xtime_vars", ()):
            v, tv = f"(TFin {v})", "xtime"
        if target.id in env and env[target.id].typ not in (tv, "list:?") and tv != "list:?":
            bad(s, f"{target.id} changes type from {env[target.id].typ} to {tv}")
        env2 = dict(env)
        var = fn.define(env2, target.id, tv)
        if tv == "list:?":
            fn.nil_types[v] = var
        return bind_all(pre, f"let {var.coq} := {v} in\n" + cont(env2))
    if isinstance(target, ast.Attribute):
        ch = name_chain(target)
        if not ch or len(ch) != 2 or ch[0] not in env:
            bad(s, "attribute assignment target")
        old = env[ch[0]]
        if (old.typ, ch[1]) not in SETTERS:
            bad(s, f"assignment to {old.typ}.{ch[1]}")
        want = ATTRS[old.typ][ch[1]][0]
        pre, v, tv = cx(fn, value, env, want)
        env2 = dict(env)
        var = fn.define(env2, ch[0], old.typ)
        return bind_all(pre, f"let {var.coq} := {SETTERS[(old.typ, ch[1])]} {old.coq} {v} in\n" + cont(env2))
    if isinstance(target, ast.Tuple) and len(target.elts) == 2:
        pre, v, tv = cx(fn, value, env)
        if not tv.startswith("pair:"):
            bad(s, "unpacking of " + tv)
        ta, tb = tv[5:].split("|", 1)
        names, env2, after = [], dict(env), []
        for el, ty in zip(target.elts, (ta, tb)):
            if isinstance(el, ast.Name):
                names.append(fn.define(env2, el.id, ty).coq)
            elif isinstance(el, ast.Attribute):
                ch = name_chain(el)
                if not ch or len(ch) != 2 or ch[0] not in env2 or (env2[ch[0]].typ, ch[1]) not in SETTERS:
                    bad(s, "unpacking target")
                if ATTRS[env2[ch[0]].typ][ch[1]][0] != ty:
                    bad(s, "unpacking target type")
                t = fn.fresh()
                names.append(t)
                after.append((ch[0], ch[1], t))
            else:
                bad(s, "unpacking target")
        body = ""
        for obj, attr, t in after:
            old = env2[obj]
            var = fn.define(env2, obj, old.typ)
            body += f"let {var.coq} := {SETTERS[(old.typ, attr)]} {old.coq} {t} in\n"
        return bind_all(pre, f"let '({names[0]}, {names[1]}) := {v} in\n" + body + cont(env2))
    bad(s, "assignment target")


def cs_if(fn, s, rest, env, k, loop_k, break_k=None):
    pc, c, _ = cx(fn, s.test, env, "bool")
    body_ret, else_ret = always_returns(s.body), always_returns(s.orelse)

    def after(env2):
        return cs(fn, rest, env2, k, loop_k, break_k)

    if body_ret or else_ret:
        # a branch that returns never reaches the rest: the rest goes after the other branch
        tb = cs(fn, s.body, dict(env), (lambda e2: bad(s, "unreachable")) if body_ret else after, loop_k, break_k)
        te = cs(fn, s.orelse, dict(env), (lambda e2: bad(s, "unreachable")) if else_ret else after, loop_k, break_k)
        return bind_all(pc, f"if {c} then\n{tb}\nelse\n{te}")
    a_body, a_else = assigned_names(s.body), assigned_names(s.orelse)
    state = [n for n in env if n in a_body or n in a_else]
    state += [n for n in a_body if n in a_else and n not in state]
    state.sort(key=lambda n: env[n].order if n in env else 10 ** 6)
    if not state:
        bad(s, "if without effect")
    types = {}

    def branch(stmts):
        def fin(env2):
            for n in state:
                if n not in env2:
                    bad(s, f"{n} is not bound on every path")
                types[n] = env2[n].typ
            return ok(tuple_val([env2[n].coq for n in state]))
        return cs(fn, stmts, dict(env), fin, loop_k, break_k)

    tb = branch(s.body)
    te = branch(s.orelse)
    env2 = dict(env)
    names = [fn.define(env2, n, types[n]).coq for n in state]
    pat = names[0] if len(names) == 1 else "'(" + ", ".join(names) + ")"
    return bind_all(pc, bind1(pat, ("M:" if MODE["m"] else "") + f"(if {c} then\n{tb}\nelse\n{te})", after(env2)))


def cs_try(fn, s, env, cont, loop_k):
    ok = (len(s.body) == 1 and isinstance(s.body[0], ast.Assign) and len(s.body[0].targets) == 1
          and isinstance(s.body[0].targets[0], ast.Name) and len(s.handlers) == 1 and not s.orelse and not s.finalbody
          and name_chain(s.handlers[0].type) in (["game", "IllegalMove"], ["IllegalMove"])
          and len(s.handlers[0].body) == 1 and isinstance(s.handlers[0].body[0], ast.Continue) and loop_k is not None)
    if not ok:
        bad(s, "try shape (only `try: x = e  except IllegalMove: continue` inside a loop)")
    a = s.body[0]
    pre, v, tv = cx(fn, a.value, env)
    if not pre:
        bad(s, "try around an expression that cannot raise")
    last_var, last_term = pre[-1]
    if v != last_var:
        bad(s, "try body shape")
    env2 = dict(env)
    var = fn.define(env2, a.targets[0].id, tv)
    inner = (f"match {last_term} with\n| Ok {var.coq} =>\n{cont(env2)}\n| Illegal =>\n{loop_k(env)}\n"
             f"| Crash e => Crash e\nend")
    return bind_all(pre[:-1], inner)


def cs_while(fn, s, rest, env, k, cont):
    if not (isinstance(s.test, ast.Constant) and s.test.value is True) or s.orelse or not MODE["m"]:
        bad(s, "only `while True:` in a stateful function")
    has_ret = any(isinstance(n, ast.Return) for n in ast.walk(s))
    has_brk = any(isinstance(n, ast.Break) for n in ast.walk(s))
    if has_ret == has_brk:
        bad(s, "a while loop must leave either by return or by break")
    if has_ret and rest:
        bad(s, "statements after a loop that returns")
    assigned = assigned_names(s.body)
    state = sorted([n for n in assigned if n in env], key=lambda n: env[n].order)
    used = free_names(s.body) + ["@hp"]
    params = sorted([n for n in used if n in env and n not in state], key=lambda n: env[n].order)
    params = list(dict.fromkeys(params))
    fn.nloops += 1
    fname = f"{fn.name}_while{fn.nloops}"

    def rec_call(env2, fuel="fuel'"):
        return f"{fname} fuel0 {fuel} cfg " + " ".join([env[n].coq for n in params] + [env2[n].coq for n in state])

    def brk(env2):
        return ok(tuple_val([env2[n].coq for n in state]))
    body = cs(fn, s.body, dict(env), lambda env2: rec_call(env2), lambda env2: rec_call(env2), brk)
    ret_t = fn.ret_coq if has_ret else " * ".join(f"({coq_type(env[n].typ)})" for n in state)
    sig = " ".join(f"({env[n].coq} : {coq_type(env[n].typ)})" for n in params + state)
    fn.loops.append((fname, f"Fixpoint {fname} (fuel0 fuel : nat) (cfg : pyconfig) {sig} {{struct fuel}} : M ost ({ret_t}) :=\n"
                            f"match fuel with\n| O => mcrash OutOfFuel\n| S fuel' =>\n{body}\nend."))
    call = "M:" + rec_call(env, "fuel0")
    if has_ret:
        return call[2:]
    env2 = dict(env)
    names = []
    for n in state:
        var = fn.define(env2, n, env[n].typ)
        if n == "@hp":
            var.coq = "hp"
        names.append(var.coq)
    return bind1(tuple_pat(names), call, cont(env2))


def free_names(stmts):
    out = []
    for s in stmts:
        for n in ast.walk(s):
            if isinstance(n, ast.Name) and n.id not in out:
                out.append(n.id)
    return out


def cs_for(fn, s, env, cont):
    enum_target = None
    if (isinstance(s.target, ast.Tuple) and len(s.target.elts) == 2 and all(isinstance(x, ast.Name) for x in s.target.elts)
            and is_call(s.iter, ["enumerate"]) and len(s.iter.args) == 1):
        # for i, x in enumerate(l): iterate over PySem's py_enumerate (pairs)
        enum_target = (s.target.elts[0].id, s.target.elts[1].id)
    elif s.orelse or not isinstance(s.target, ast.Name):
        bad(s, "for shape")
    if s.orelse:
        bad(s, "for/else")
    for n in ast.walk(s):
        if isinstance(n, (ast.Break, ast.Return)):
            bad(n, "break / return inside a loop")
    it_expr, src_name, reverse = s.iter, None, False
    if is_call(it_expr, ["reversed"]) and len(it_expr.args) == 1 and isinstance(it_expr.args[0], ast.Name):
        src_name, reverse = it_expr.args[0].id, True
    elif isinstance(it_expr, ast.Name):
        src_name = it_expr.id
    if enum_target:
        pre, it, ity = cx(fn, it_expr.args[0], env)
        if not ity.startswith("list:"):
            bad(s, "enumerate of " + ity)
        it, ity = f"(py_enumerate {it})", f"list:pair:Z|{ity[5:]}"
        lv = "@pair"
    else:
        pre, it, ity = cx(fn, it_expr, env)
        if not ity.startswith("list:"):
            bad(s, "iteration over " + ity)
        lv = s.target.id
    elt = ity[5:]
    assigned = assigned_names(s.body)
    mutates_elt = lv in assigned
    if mutates_elt and (src_name is None or elt not in ("pystat",)):
        bad(s, "a loop that updates its elements must run over a variable holding records")
    if src_name in assigned:
        bad(s, "the iterated list is changed inside the loop")
    state = sorted([n for n in assigned if n in env and n != lv], key=lambda n: env[n].order)
    used = free_names(s.body)
    params = sorted([n for n in used if n in env and n not in state and n != lv], key=lambda n: env[n].order)
    uses_cfg = any(name_chain(n) and name_chain(n)[:2] == ["self", "config"] for b in s.body for n in ast.walk(b)
                   if isinstance(n, ast.Attribute))
    fn.nloops += 1
    fname = f"{getattr(fn, 'loop_prefix', fn.name)}_for{fn.nloops}"
    envb = dict(env)
    if enum_target:
        envb["@pair"] = Var("x_pair", elt, 0)
        ta, tb = elt[5:].split("|", 1)
        envb[enum_target[0]] = Var("(fst x_pair)", ta, 0)
        envb[enum_target[1]] = Var("(snd x_pair)", tb, 0)
    else:
        fn.define(envb, lv, elt)
    raising = [False]
    saved_mode, MODE["m"] = MODE["m"], False        # a for loop is translated as a pure (res) Fixpoint
    types = {}

    def rec_call(env2):
        args = (["cfg"] if uses_cfg else []) + [env[n].coq for n in params] + [env2[n].coq for n in state] + ["it'"]
        return f"{fname} " + " ".join(args)

    def step(env2):
        for n in state:
            types[n] = env2[n].typ
        if mutates_elt:
            names = [f"r_{n}" for n in state] + ["out"]
            return ("RECBIND " + tuple_pat(names) + " := " + rec_call(env2) + " IN " +
                    tuple_val([f"r_{n}" for n in state] + [f"({env2[lv].coq} :: out)"]))
        return "RECTAIL " + rec_call(env2)

    body = cs(fn, s.body, envb, step, step)
    raising[0] = (" <- " in body) or ("match " in body and "Illegal" in body) or ("Crash" in body)
    for n in state:
        types.setdefault(n, env[n].typ)
    st_types = [coq_type(types[n]) for n in state] + ([f"list ({coq_type(elt)})"] if mutates_elt else [])
    ret_t = " * ".join(st_types) if st_types else "unit"
    base_val = tuple_val([env[n].coq for n in state] + (["[]"] if mutates_elt else [])) if st_types else "tt"
    if raising[0]:
        body = body.replace("RECTAIL ", "")
        import re
        body = re.sub(r"RECBIND (.*?) := (.*?) IN (.*)", lambda m: f"{m.group(1)} <- {m.group(2)} ;;\nOk {m.group(3)}", body)
        ret_t, base = f"res ({ret_t})", f"Ok {base_val}"
    else:
        import re
        body = body.replace("RECTAIL ", "")
        body = re.sub(r"RECBIND (.*?) := (.*?) IN (.*)", lambda m: f"let {m.group(1)} := {m.group(2)} in\n{m.group(3)}", body)
        base = base_val
    sig = ("(cfg : pyconfig) " if uses_cfg else "") + \
        " ".join(f"({env[n].coq} : {coq_type(env[n].typ)})" for n in params) + " " + \
        " ".join(f"({env[n].coq} : {coq_type(types[n])})" for n in state)
    MODE["m"] = saved_mode
    if "M:" in body:
        bad(s, "a stateful oracle inside a for loop")
    text = (f"Fixpoint {fname} {sig} (it : list ({coq_type(elt)})) {{struct it}} : {ret_t} :=\n"
            f"match it with\n| [] => {base}\n| {envb[lv].coq} :: it' =>\n{body}\nend.")
    if EMITTED.get(fname) != text:
        if fname in EMITTED:
            bad(s, "two different loops would get the name " + fname)
        EMITTED[fname] = text
        fn.loops.append((fname, text))
    env2 = dict(env)
    call = f"{fname} " + " ".join((["cfg"] if uses_cfg else []) + [env[n].coq for n in params] + [env[n].coq for n in state] + [it])
    names = [fn.define(env2, n, types[n]).coq for n in state]
    extra = ""
    if mutates_elt:
        names = names + ["out"]
        src = fn.define(env2, src_name, env[src_name].typ)
        extra = f"let {src.coq} := {'(rev out)' if reverse else 'out'} in\n"
    pat = tuple_pat(names)
    if raising[0]:
        return bind_all(pre, bind1(pat, call, extra + cont(env2)))
    return bind_all(pre, f"let {pat} := {call} in\n{extra}" + cont(env2))


# ---------------------------------------------------------------------------
# the three functions
# ---------------------------------------------------------------------------
def find_method(tree, cls, name):
    for n in tree.body:
        if isinstance(n, ast.ClassDef) and n.name == cls:
            for m in n.body:
                if isinstance(m, ast.FunctionDef) and m.name == name:
                    return m
    raise Untranslatable(f"mcts.py: no method {cls}.{name}")


def arg_names(f):
    a = f.args
    if a.vararg or a.kwarg or a.kwonlyargs or a.posonlyargs:
        bad(f, "signature")
    return [x.arg for x in a.args]


def finish(fn, text):
    for ph, var in fn.nil_types.items():
        ty = var.typ if var is not None else "list:?"
        text = text.replace(ph, f"(@nil ({coq_type(ty[5:])}))")
    return text


def tr_update(tree):
    f = find_method(tree, "MCTS", "update")
    names = arg_names(f)
    if len(names) != 2 or names[0] != "self":
        bad(f, "update signature")
    fn = Fn("update", None, "path")
    env = {}
    fn.define(env, names[1], "list:pystat")
    pname = names[1]
    fn.ret = lambda env2, value: (bad(f, "update returns a value") if value is not None else ok(env2[pname].coq))
    body = cs(fn, f.body, env, lambda env2: ok(env2[pname].coq))
    text = "\n\n".join(t for _, t in fn.loops) + \
        f"\n\nDefinition update (v_{pname} : list pystat) : res (list pystat) :=\n{body}."
    return finish(fn, text), src_of(f)


def tr_policy_probs(tree):
    f = find_method(tree, "Node", "policy_probs")
    names = arg_names(f)
    if len(names) != 2 or names[0] != "self":
        bad(f, "policy_probs signature")
    fn = Fn("policy_probs", "pynode", "expr")
    env = {}
    fn.define(env, names[1], "F")

    def ret(env2, value):
        if value is None:
            bad(f, "policy_probs must return a value")
        pre, v, tv = cx(fn, value, env2)
        v, _ = coerce(v, tv, "opt:list:Q", value)
        return bind_all(pre, ok(v))
    fn.ret = ret
    body = cs(fn, f.body, env, lambda env2: bad(f, "policy_probs falls off the end"))
    text = ("Section policy_probs_oracles.\n"
            "(* the float operations of the multiplier and the native solver *)\n"
            "Variable F : Type.\nVariable f_sqrt : Z -> F.\nVariable f_mul : F -> F -> F.\nVariable f_div_int : F -> Z -> F.\n"
            "Variable solve_policy : list Q -> list Q -> F -> res (list Q).\n\n" +
            "\n\n".join(t for _, t in fn.loops) +
            f"\n\nDefinition policy_probs (self : pynode) (v_{names[1]} : F) : res (option (list Q)) :=\n{body}.\n"
            "End policy_probs_oracles.")
    return finish(fn, text), src_of(f)


def tr_populate(tree):
    f = find_method(tree, "MCTS", "populate")
    names = arg_names(f)
    if len(names) != 3 or names[0] != "self":
        bad(f, "populate signature")
    d = f.args.defaults
    if len(d) != 1 or not (isinstance(d[0], ast.Constant) and d[0].value is False):
        bad(f, "populate defaults")
    fn = Fn("populate", None, "node")
    env = {}
    fn.define(env, names[1], "pynode")
    fn.define(env, names[2], "bool")
    nname = names[1]
    fn.ret = lambda env2, value: (bad(f, "populate returns a value") if value is not None else ok(env2[nname].coq))
    body = cs(fn, f.body, env, lambda env2: ok(env2[nname].coq))
    text = ("Section populate_oracles.\n"
            "(* network.evaluate(position) and torch.distributions.Dirichlet(full_like(raw, alpha)).sample() *)\n"
            "Variable evaluate : position -> res (list Q * Q).\n"
            "Variable dirichlet : Z -> option Q -> res (list Q).\n\n" +
            "\n\n".join(t for _, t in fn.loops) +
            f"\n\nDefinition populate (cfg : pyconfig) (v_{names[1]} : pynode) (v_{names[2]} : bool) : res pynode :=\n{body}.\n"
            "End populate_oracles.")
    return finish(fn, text), src_of(f)


def tr_search(tree):
    """populate again against stateful oracles, then tree_probs, select_root_move, descend, analyze_tree, analyze, get_move"""
    srcs, defs = [], []

    def start(name, cls="MCTS"):
        f = find_method(tree, cls, name)
        srcs.append(src_of(f))
        return f, arg_names(f)

    def emit(fn, header, body):
        defs.extend(t for _, t in fn.loops)
        defs.append(finish(fn, f"{header} :=\n{body}."))

    # ---- populate, state-passing (same source, same loop function)
    MODE["m"] = True
    f, names = start("populate")
    fn = Fn("populate_st", None, "node")
    fn.loop_prefix = "populate"
    env = {}
    fn.define(env, names[1], "pynode")
    fn.define(env, names[2], "bool")
    nname = names[1]
    fn.ret = lambda env2, value: (bad(f, "populate returns a value") if value is not None else ok(env2[nname].coq))
    body = cs(fn, f.body, env, lambda env2: ok(env2[nname].coq))
    emit(fn, f"Definition populate_st (cfg : pyconfig) (v_{names[1]} : pynode) (v_{names[2]} : bool) : M ost pynode", body)
    defs.append("(* self.populate(ref, flag): the node behind the reference is read, rewritten, written back *)\n"
                "Definition populate_at (cfg : pyconfig) (hp : pynode) (pl : place) (is_root : bool) : M ost pynode :=\n"
                "n <~ lift (pt_get hp pl) ;;\nn' <~ populate_st cfg n is_root ;;\nlift (pt_set hp pl n').")

    def with_tree(name, mode, ret_typ, ptype):
        """a method whose argument is a node reference (ptype 'ref') or a position"""
        MODE["m"] = mode
        f, names = start(name)
        if len(names) != 2 or names[0] != "self":
            bad(f, name + " signature")
        fn = Fn(name, None, ret_typ)
        fn.ret_coq = coq_type(ret_typ)
        fn.xtime_vars = {t.id for n in ast.walk(f) if isinstance(n, ast.Assign) and is_call(n.value, ["float"])
                         for t in n.targets if isinstance(t, ast.Name)}
        env = {}
        if ptype == "ref":
            fn.define(env, "@hp", "heap")
            env["@hp"].coq = "hp"
        param = fn.define(env, names[1], ptype)
        assigned = assigned_names(f.body)

        def ret(env2, value):
            if value is None:
                bad(f, name + " must return a value")
            if ret_typ == "heap" and isinstance(value, ast.Name):
                if value.id != names[1] or names[1] in assigned or env2[value.id].coq != param.coq:
                    bad(value, "the node returned must be the one the search was started on")
                return ok(hp_of(env2, value))
            pre, v, tv = cx(fn, value, env2)
            if ret_typ == "heap" and tv == "heap":
                return bind_all(pre, ok(v))
            v, _ = coerce(v, tv, ret_typ, value)
            return bind_all(pre, ok(v))
        fn.ret = ret
        body = cs(fn, f.body, env, lambda env2: bad(f, name + " falls off the end"))
        return fn, names[1], body

    fn, a, body = with_tree("tree_probs", False, "opt:list:Q", "ref")
    emit(fn, f"Definition tree_probs (hp : pynode) (v_{a} : place) : res (option (list Q))", body)
    fn, a, body = with_tree("select_root_move", True, "opt:mv", "ref")
    emit(fn, f"Definition select_root_move (hp : pynode) (v_{a} : place) : M ost (option mv)", body)
    fn, a, body = with_tree("descend", True, "list:ref", "ref")
    emit(fn, f"Definition descend (fuel0 : nat) (cfg : pyconfig) (hp : pynode) (v_{a} : place) : M ost (list place)", body)
    fn, a, body = with_tree("analyze_tree", True, "heap", "ref")
    emit(fn, f"Definition analyze_tree (fuel0 : nat) (cfg : pyconfig) (hp : pynode) (v_{a} : place) : M ost pynode", body)
    fn, a, body = with_tree("analyze", True, "heap", "pos")
    emit(fn, f"Definition analyze (fuel0 : nat) (cfg : pyconfig) (v_{a} : position) : M ost pynode", body)
    fn, a, body = with_tree("get_move", True, "opt:mv", "pos")
    emit(fn, f"Definition get_move (fuel0 : nat) (cfg : pyconfig) (v_{a} : position) : M ost (option mv)", body)
    MODE["m"] = False
    text = ("Section search_oracles.\n"
            "(* the oracles with state (sampler, clock, network, Dirichlet sample), the float operations of the multiplier,\n"
            "   the native solver, Config.C *)\n"
            "Variable ost : Type.\n"
            "Variable multinomial : option (list Q) -> M ost Z.\n"
            "Variable monotonic : M ost Q.\n"
            "Variable evaluate_st : position -> M ost (list Q * Q).\n"
            "Variable dirichlet_st : Z -> option Q -> M ost (list Q).\n"
            "Variable F : Type.\nVariable f_sqrt : Z -> F.\nVariable f_mul : F -> F -> F.\nVariable f_div_int : F -> Z -> F.\n"
            "Variable solve_policy : list Q -> list Q -> F -> res (list Q).\n"
            "Variable cfg_C : F.\n\n" + "\n\n".join(defs) + "\nEnd search_oracles.")
    return text, "\n".join(srcs)


def src_of(f):
    return ast.unparse(f)


HEADER = """(* GENERATED by harness/mcts2coq.py from python/tak/mcts.py - do not edit.
   MCTS.update, Node.policy_probs, MCTS.populate as a shallow embedding against
   model/PySem.v + model/MctsSem.v; then the search loop (descend, analyze_tree, analyze,
   get_move, select_root_move, tree_probs) over the tree-as-heap and the stateful oracles
   of MctsSem.v.  sha256 of the translated sources: {sha} *)
From Coq Require Import ZArith QArith List Bool.
From TV Require Import model.Tak model.Road model.PySem model.Mcts model.MctsSem.
Import ListNotations.
Open Scope Z_scope.
"""

STUB = """(* GENERATED by harness/mcts2coq.py: the translation FAILED, nothing is defined here,
   so every proof about the generated names fails.
   {why} *)
"""


def translate(repo_python):
    """(coq text, error or None)"""
    try:
        src = (Path(repo_python) / "tak" / "mcts.py").read_text()
        tree = ast.parse(src)
        EMITTED.clear()
        MODE["m"] = False
        parts, srcs = [], []
        for tr in (tr_update, tr_policy_probs, tr_populate, tr_search):
            text, s = tr(tree)
            parts.append(text)
            srcs.append(s)
        sha = hashlib.sha256("\n".join(srcs).encode()).hexdigest()
        return HEADER.format(sha=sha) + "\n" + "\n\n".join(parts) + "\n", None
    except Untranslatable as e:
        return STUB.format(why=str(e).replace("*)", "* )")), str(e)
    except (SyntaxError, OSError) as e:
        return STUB.format(why=repr(e).replace("*)", "* )")), repr(e)


if __name__ == "__main__":
    import sys
    text, err = translate(sys.argv[1] if len(sys.argv) > 1 else "/repo/python")
    print(text)
    if err:
        print("ERROR:", err, file=sys.stderr)
        sys.exit(1)
