"""C17 translator (fail-closed, Python `ast`): the protocol of the batching
server - `Server.worker_loop` (with the nested `run_model`), `Server.Evaluate`,
the factory of the `queue` field (python/tak/model/server.py) and
`GRPCNetwork.evaluate` (python/tak/model/grpc.py) -> coq/gen/ServerIR.v.

Local variable names are resolved structurally (renaming them changes
nothing); any statement or expression shape that is not listed here raises
TranslateError (the check records a broken obligation `translate:C17` and a
stub IR is written).  Nothing is executed; only the source text is read."""
import ast
from fractions import Fraction
from pathlib import Path

from . import core


class TranslateError(Exception):
    pass


def _src(node):
    return ast.unparse(node)


def _fail(node, why):
    raise TranslateError(f"{why}: line {getattr(node, 'lineno', '?')}: {_src(node)[:160]}")


def _is_name(node, name):
    return isinstance(node, ast.Name) and node.id == name


def _call(node, func_src, nargs=None):
    """node is a call of the function whose source text is func_src"""
    return (isinstance(node, ast.Call) and _src(node.func) == func_src
            and (nargs is None or len(node.args) == nargs))


def _kwargs(call):
    return {k.arg: _src(k.value) for k in call.keywords}


DTYPES = {"torch.float32": "DFloat32", "np.float32": "DFloat32", "numpy.float32": "DFloat32", "torch.float": "DFloat32",
          "torch.float64": "DFloat64", "np.float64": "DFloat64", "torch.double": "DFloat64",
          "torch.long": "DLong", "torch.int64": "DLong", "torch.bool": "DBool"}


def _dtype(src):
    return DTYPES.get(src, "DOther")


class Translator:
    def __init__(self, repo: Path):
        self.server_path = repo / "python/tak/model/server.py"
        self.grpc_path = repo / "python/tak/model/grpc.py"
        self.server_text = self.server_path.read_text()
        self.server_mod = ast.parse(self.server_text)
        self.grpc_mod = ast.parse(self.grpc_path.read_text())

    # ---- lookups ---------------------------------------------------------
    @staticmethod
    def _class(mod, name):
        for n in mod.body:
            if isinstance(n, ast.ClassDef) and n.name == name:
                return n
        raise TranslateError(f"class {name} not found")

    @staticmethod
    def _method(cls, name, is_async):
        for n in cls.body:
            if isinstance(n, (ast.AsyncFunctionDef if is_async else ast.FunctionDef)) and n.name == name:
                return n
        raise TranslateError(f"{'async ' if is_async else ''}method {cls.name}.{name} not found")

    def _module_int(self, name):
        vals = [n.value for n in self.server_mod.body
                if isinstance(n, ast.Assign) and len(n.targets) == 1 and _is_name(n.targets[0], name)]
        if len(vals) != 1 or not (isinstance(vals[0], ast.Constant) and type(vals[0].value) is int):
            raise TranslateError(f"module constant {name} is not assigned exactly once to an integer literal")
        return vals[0].value

    # ---- queue capacity ----------------------------------------------------
    def capacity(self):
        cls = self._class(self.server_mod, "Server")
        for n in cls.body:
            if isinstance(n, ast.AnnAssign) and _is_name(n.target, "queue"):
                v = n.value
                if not (_call(v, "field", 0) and list(_kwargs(v)) == ["factory"]):
                    _fail(n, "queue field is not field(factory=...)")
                lam = v.keywords[0].value
                if not (isinstance(lam, ast.Lambda) and not lam.args.args and _call(lam.body, "asyncio.Queue", 1)
                        and not lam.body.keywords):
                    _fail(n, "queue factory is not `lambda: asyncio.Queue(<depth>)`")
                a = lam.body.args[0]
                if isinstance(a, ast.Constant) and type(a.value) is int:
                    return a.value
                if isinstance(a, ast.Name):
                    return self._module_int(a.id)
                _fail(a, "queue depth is neither an integer literal nor a module constant")
        raise TranslateError("Server.queue field not found")

    # ---- expressions -------------------------------------------------------
    def _seconds(self, node):
        """exact rational value of a timeout expression built from numeric literals and / * """
        if isinstance(node, ast.Constant) and type(node.value) in (int, float):
            seg = ast.get_source_segment(self.server_text, node)
            try:
                return Fraction(seg.replace("_", ""))
            except (ValueError, TypeError, AttributeError):
                return Fraction(node.value)
        if isinstance(node, ast.Name):
            return Fraction(self._module_number(node))
        if isinstance(node, ast.BinOp) and isinstance(node.op, (ast.Div, ast.Mult)):
            a, b = self._seconds(node.left), self._seconds(node.right)
            if isinstance(node.op, ast.Div):
                if b == 0:
                    _fail(node, "division by zero in the timeout")
                return a / b
            return a * b
        _fail(node, "unsupported timeout expression")

    def _module_number(self, name_node):
        vals = [n.value for n in self.server_mod.body
                if isinstance(n, ast.Assign) and len(n.targets) == 1 and _is_name(n.targets[0], name_node.id)]
        if len(vals) != 1:
            _fail(name_node, "timeout name is not a module constant assigned exactly once")
        return self._seconds(vals[0])

    @staticmethod
    def _index(node, i, batch):
        if _is_name(node, i):
            return "IdxI"
        # len(batch) - 1 - i
        if (isinstance(node, ast.BinOp) and isinstance(node.op, ast.Sub) and _is_name(node.right, i)
                and isinstance(node.left, ast.BinOp) and isinstance(node.left.op, ast.Sub)
                and _call(node.left.left, "len", 1) and _is_name(node.left.left.args[0], batch)
                and isinstance(node.left.right, ast.Constant) and node.left.right.value == 1):
            return "IdxRev"
        _fail(node, "unsupported index of a result row")

    # ---- worker_loop ---------------------------------------------------------
    def worker(self):
        fn = self._method(self._class(self.server_mod, "Server"), "worker_loop", True)
        if [a.arg for a in fn.args.args] != ["self"]:
            _fail(fn, "worker_loop signature")
        body = fn.body
        if len(body) != 2:
            _fail(fn, "worker_loop is not `loop = get_running_loop(); while True: ...`")
        a0, w = body
        if not (isinstance(a0, ast.Assign) and len(a0.targets) == 1 and isinstance(a0.targets[0], ast.Name)
                and _call(a0.value, "asyncio.get_running_loop", 0)):
            _fail(a0, "expected `<loop> = asyncio.get_running_loop()`")
        loopv = a0.targets[0].id
        if not (isinstance(w, ast.While) and isinstance(w.test, ast.Constant) and w.test.value is True and not w.orelse):
            _fail(w, "expected the outer `while True:`")
        out, run_model_ir = [], None
        st = list(w.body)
        # batch = []
        s = st.pop(0)
        if not (isinstance(s, ast.Assign) and len(s.targets) == 1 and isinstance(s.targets[0], ast.Name)
                and isinstance(s.value, ast.List) and not s.value.elts):
            _fail(s, "expected `batch = []` at the top of the loop")
        B = s.targets[0].id
        out.append("WBatchNew")
        # batch.append(await self.queue.get())
        s = st.pop(0)
        if not (isinstance(s, ast.Expr) and _call(s.value, f"{B}.append", 1) and isinstance(s.value.args[0], ast.Await)
                and _call(s.value.args[0].value, "self.queue.get", 0)):
            _fail(s, "expected `batch.append(await self.queue.get())`")
        out.append("WFirstGet")
        # the gather loop
        s = st.pop(0)
        out.append(self._gather(s, B))
        rm_name = P = V = None
        seen_run = False
        while st:
            s = st.pop(0)
            if isinstance(s, ast.FunctionDef) and rm_name is None and not seen_run:
                for d in s.decorator_list:
                    if _src(d) not in ("torch.inference_mode()", "torch.no_grad()"):
                        _fail(d, "unsupported decorator on run_model")
                rm_name = s.name
                run_model_ir = self._run_model(s)
                continue
            if (isinstance(s, ast.Assign) and len(s.targets) == 1 and isinstance(s.targets[0], ast.Name)
                    and _call(s.value, "time.perf_counter", 0)):
                continue        # timing for the log line
            if isinstance(s, ast.Expr) and isinstance(s.value, ast.Call) and _src(s.value.func) in (
                    "logging.info", "logging.debug"):
                continue        # log line
            if (not seen_run and isinstance(s, ast.Assign) and len(s.targets) == 1 and isinstance(s.targets[0], ast.Tuple)
                    and len(s.targets[0].elts) == 2 and all(isinstance(e, ast.Name) for e in s.targets[0].elts)
                    and isinstance(s.value, ast.Await) and _call(s.value.value, f"{loopv}.run_in_executor", 3)
                    and not s.value.value.keywords):
                a = s.value.value.args
                if not (isinstance(a[0], ast.Constant) and a[0].value is None and rm_name and _is_name(a[1], rm_name)
                        and _is_name(a[2], B)):
                    _fail(s, "expected run_in_executor(None, run_model, batch)")
                P, V = (e.id for e in s.targets[0].elts)
                seen_run = True
                out.append("WRunModel")
                continue
            if seen_run and isinstance(s, ast.For) and not st:
                out.append(self._hand_out(s, B, P, V))
                continue
            _fail(s, "unsupported statement in worker_loop")
        if not seen_run or not out[-1].startswith("WHandOut") or run_model_ir is None:
            _fail(w, "worker_loop lacks run_model / run_in_executor / the hand-out loop")
        return out, run_model_ir

    def _gather(self, s, B):
        if not (isinstance(s, ast.While) and isinstance(s.test, ast.Constant) and s.test.value is True and not s.orelse
                and len(s.body) == 1 and isinstance(s.body[0], ast.If)):
            _fail(s, "expected the inner `while True:` holding one if/else")
        iff = s.body[0]
        t = iff.test
        if not (isinstance(t, ast.Compare) and len(t.ops) == 1 and isinstance(t.ops[0], ast.GtE)
                and _call(t.left, "len", 1) and _is_name(t.left.args[0], B)):
            _fail(t, "expected `len(batch) >= <threshold>`")
        c = t.comparators[0]
        if isinstance(c, ast.Constant) and type(c.value) is int:
            thr = c.value
        elif isinstance(c, ast.Name):
            thr = self._module_int(c.id)
        else:
            _fail(c, "threshold is neither an integer literal nor a module constant")

        def one_try(stmts, what):
            if not (len(stmts) == 1 and isinstance(stmts[0], ast.Try) and len(stmts[0].handlers) == 1
                    and not stmts[0].orelse and not stmts[0].finalbody):
                _fail(iff, f"{what}: expected a single try/except")
            tr = stmts[0]
            h = tr.handlers[0]
            if not (h.name is None and len(h.body) == 1 and isinstance(h.body[0], ast.Break)):
                _fail(h, f"{what}: the handler is not a bare `break`")
            return tr.body, _src(h.type) if h.type is not None else None

        # len(batch) >= thr: drain without waiting
        body, exc = one_try(iff.body, "drain arm")
        if exc != "asyncio.QueueEmpty":
            _fail(iff, "drain arm: expected `except asyncio.QueueEmpty`")
        if not (len(body) == 1 and isinstance(body[0], ast.Expr) and _call(body[0].value, f"{B}.append", 1)
                and _call(body[0].value.args[0], "self.queue.get_nowait", 0)):
            _fail(iff, "drain arm: expected `batch.append(self.queue.get_nowait())` only")
        # else: wait up to the timeout for one more element
        body, exc = one_try(iff.orelse, "gather arm")
        if exc not in ("asyncio.TimeoutError", "TimeoutError"):
            _fail(iff, "gather arm: expected `except asyncio.TimeoutError`")

        def waited(node):
            if (isinstance(node, ast.Await) and _call(node.value, "asyncio.wait_for", 2) and not node.value.keywords
                    and _call(node.value.args[0], "self.queue.get", 0)):
                return self._seconds(node.value.args[1])
            return None

        secs = None
        if len(body) == 1 and isinstance(body[0], ast.Expr) and _call(body[0].value, f"{B}.append", 1):
            secs = waited(body[0].value.args[0])
        elif (len(body) == 2 and isinstance(body[0], ast.Assign) and len(body[0].targets) == 1
              and isinstance(body[0].targets[0], ast.Name) and isinstance(body[1], ast.Expr)
              and _call(body[1].value, f"{B}.append", 1) and _is_name(body[1].value.args[0], body[0].targets[0].id)):
            secs = waited(body[0].value)
        if secs is None:
            _fail(iff, "gather arm: expected `elem = await asyncio.wait_for(self.queue.get(), <timeout>); batch.append(elem)`")
        return f"WGather {core.cz(thr)} {core.cz(secs.numerator)} {core.cz(secs.denominator)}"

    def _hand_out(self, s, B, P, V):
        if s.orelse:
            _fail(s, "hand-out loop with else")
        tgt, it = s.target, s.iter
        body = s.body
        if len(body) != 3:
            _fail(s, "hand-out loop: expected exactly probs store, value store, ready.set()")

        def store(st, b, attr):
            if (isinstance(st, ast.Assign) and len(st.targets) == 1 and _src(st.targets[0]) == f"{b}.{attr}"):
                return st.value
            return None

        def is_set(st, b):
            return isinstance(st, ast.Expr) and _call(st.value, f"{b}.ready.set", 0) and not st.value.keywords

        if (_call(it, "enumerate", 1) and _is_name(it.args[0], B) and isinstance(tgt, ast.Tuple) and len(tgt.elts) == 2
                and all(isinstance(e, ast.Name) for e in tgt.elts)):
            i, b = (e.id for e in tgt.elts)
            kinds = []
            for st in body:
                if is_set(st, b):
                    kinds.append(("set",))
                    continue
                for attr, arr in (("probs", P), ("value", V)):
                    v = store(st, b, attr)
                    if v is not None:
                        if not (isinstance(v, ast.Subscript) and _is_name(v.value, arr)):
                            _fail(st, f"{attr} is not taken from the model's {attr} output")
                        kinds.append((attr, self._index(v.slice, i, B)))
                        break
                else:
                    _fail(st, "unsupported statement in the hand-out loop")
            names = [k[0] for k in kinds]
            if sorted(names) != ["probs", "set", "value"]:
                _fail(s, "hand-out loop: expected one probs store, one value store and one ready.set()")
            ip = next(k[1] for k in kinds if k[0] == "probs")
            iv = next(k[1] for k in kinds if k[0] == "value")
            return f"WHandOut {ip} {iv} {'true' if names[-1] == 'set' else 'false'}"
        if (_call(it, "zip", 3) and [_src(a) for a in it.args] == [B, P, V] and isinstance(tgt, ast.Tuple)
                and len(tgt.elts) == 3 and all(isinstance(e, ast.Name) for e in tgt.elts)):
            b, p, v = (e.id for e in tgt.elts)
            v1, v2 = store(body[0], b, "probs"), store(body[1], b, "value")
            if v1 is not None and v2 is not None and _is_name(v1, p) and _is_name(v2, v) and is_set(body[2], b):
                return "WHandOut IdxI IdxI true"
            _fail(s, "unsupported zip hand-out loop")
        _fail(s, "hand-out loop does not iterate over enumerate(batch) or zip(batch, probs, values)")

    # ---- run_model -----------------------------------------------------------
    def _run_model(self, fn):
        if len(fn.args.args) != 1 or fn.args.vararg or fn.args.kwarg or fn.args.kwonlyargs:
            _fail(fn, "run_model signature")
        BB = fn.args.args[0].arg
        st = list(fn.body)
        if len(st) != 7:
            _fail(fn, "run_model: expected 7 statements (positions, mask, fill loop, model call, probs, values, return)")
        out = []

        def assign(s):
            if not (isinstance(s, ast.Assign) and len(s.targets) == 1 and isinstance(s.targets[0], ast.Name)):
                _fail(s, "expected a simple assignment")
            return s.targets[0].id, s.value

        def plen(node, b):
            return _call(node, "len", 1) and _src(node.args[0]) == f"{b}.position"

        # positions = torch.zeros((len(batch), max(len(b.position) for b in batch)), dtype=torch.long)
        POS, v = assign(st[0])
        ok = _call(v, "torch.zeros", 1) and list(_kwargs(v)) == ["dtype"] and isinstance(v.args[0], ast.Tuple) \
            and len(v.args[0].elts) == 2
        if ok:
            d0, d1 = v.args[0].elts
            ok = (_call(d0, "len", 1) and _is_name(d0.args[0], BB) and _call(d1, "max", 1)
                  and isinstance(d1.args[0], ast.GeneratorExp) and len(d1.args[0].generators) == 1)
            if ok:
                g = d1.args[0].generators[0]
                ok = (isinstance(g.target, ast.Name) and _is_name(g.iter, BB) and not g.ifs
                      and plen(d1.args[0].elt, g.target.id))
        if not ok:
            _fail(st[0], "expected positions = torch.zeros((len(batch), max(len(b.position) for b in batch)), dtype=...)")
        out.append(f"RPositionsZeros {_dtype(_kwargs(v)['dtype'])}")
        # mask = torch.zeros_like(positions, dtype=torch.bool)
        MASK, v = assign(st[1])
        if not (_call(v, "torch.zeros_like", 1) and _is_name(v.args[0], POS) and list(_kwargs(v)) == ["dtype"]):
            _fail(st[1], "expected mask = torch.zeros_like(positions, dtype=...)")
        out.append(f"RMaskZerosLike {_dtype(_kwargs(v)['dtype'])}")
        # for (i, b) in enumerate(batch): positions[i, : len(b.position)] = b.position; mask[i, len(b.position) :].fill_(1)
        s = st[2]
        if not (isinstance(s, ast.For) and not s.orelse and _call(s.iter, "enumerate", 1) and _is_name(s.iter.args[0], BB)
                and isinstance(s.target, ast.Tuple) and len(s.target.elts) == 2
                and all(isinstance(e, ast.Name) for e in s.target.elts) and len(s.body) == 2):
            _fail(s, "expected the fill loop `for (i, b) in enumerate(batch):` with two statements")
        i, b = (e.id for e in s.target.elts)

        def row_slice(sub, arr):
            if not (isinstance(sub, ast.Subscript) and _is_name(sub.value, arr) and isinstance(sub.slice, ast.Tuple)
                    and len(sub.slice.elts) == 2 and isinstance(sub.slice.elts[1], ast.Slice)
                    and sub.slice.elts[1].step is None):
                _fail(sub, "expected <array>[<row>, <slice>]")
            row = self._index(sub.slice.elts[0], i, BB)
            sl = sub.slice.elts[1]
            if sl.lower is None and sl.upper is not None and plen(sl.upper, b):
                return row, "SlPrefix"
            if sl.upper is None and sl.lower is not None and plen(sl.lower, b):
                return row, "SlTail"
            _fail(sub, "slice is neither [: len(b.position)] nor [len(b.position) :]")

        s0, s1 = s.body
        if not (isinstance(s0, ast.Assign) and len(s0.targets) == 1 and _src(s0.value) == f"{b}.position"):
            _fail(s0, "expected positions[i, : len(b.position)] = b.position")
        r0, ps = row_slice(s0.targets[0], POS)
        if not (isinstance(s1, ast.Expr) and isinstance(s1.value, ast.Call) and isinstance(s1.value.func, ast.Attribute)
                and s1.value.func.attr == "fill_" and len(s1.value.args) == 1 and not s1.value.keywords
                and isinstance(s1.value.args[0], ast.Constant) and type(s1.value.args[0].value) in (int, bool)):
            _fail(s1, "expected mask[i, len(b.position) :].fill_(<0/1>)")
        r1, ms = row_slice(s1.value.func.value, MASK)
        if r0 != r1:
            _fail(s, "positions and mask are filled at different rows")
        out.append(f"RFill {r0} {ps} {ms} {core.cz(int(s1.value.args[0].value))}")
        # out = self.model(positions.to(self.device), mask.to(self.device))
        OUT, v = assign(st[3])
        if not (_call(v, "self.model", 2) and not v.keywords and _src(v.args[0]) == f"{POS}.to(self.device)"
                and _src(v.args[1]) == f"{MASK}.to(self.device)"):
            _fail(st[3], "expected out = self.model(positions.to(self.device), mask.to(self.device))")
        out.append("RCall")

        def to_numpy(v, what):
            # <inner>.to(device="cpu", dtype=<d>).numpy()
            if not (_call(v, _src(v.func), 0) and isinstance(v.func, ast.Attribute) and v.func.attr == "numpy"
                    and isinstance(v.func.value, ast.Call) and isinstance(v.func.value.func, ast.Attribute)
                    and v.func.value.func.attr == "to" and not v.func.value.args):
                _fail(v, f"{what}: expected <tensor>.to(device='cpu', dtype=...).numpy()")
            kw = _kwargs(v.func.value)
            if sorted(kw) != ["device", "dtype"] or kw["device"] not in ("'cpu'", '"cpu"'):
                _fail(v, f"{what}: expected .to(device='cpu', dtype=...)")
            return v.func.value.func.value, _dtype(kw["dtype"])

        # probs = torch.softmax(out["moves"], dim=-1).to(device="cpu", dtype=torch.float32).numpy()
        PR, v = assign(st[4])
        inner, d = to_numpy(v, "probs")
        if not (_call(inner, "torch.softmax", 1) and _src(inner.args[0]) in (f"{OUT}['moves']", f'{OUT}["moves"]')
                and list(_kwargs(inner)) == ["dim"]):
            _fail(st[4], "expected torch.softmax(out['moves'], dim=...)")
        try:
            dim = int(ast.literal_eval(inner.keywords[0].value))
        except Exception:
            _fail(st[4], "softmax dim is not an integer literal")
        out.append(f"RProbs {core.cz(dim)} {d}")
        # values = out["values"].to(device="cpu", dtype=torch.float32).numpy()
        VA, v = assign(st[5])
        inner, d = to_numpy(v, "values")
        if _src(inner) not in (f"{OUT}['values']", f'{OUT}["values"]'):
            _fail(st[5], "expected out['values']")
        out.append(f"RValues {d}")
        # return (probs, values)
        s = st[6]
        if not (isinstance(s, ast.Return) and isinstance(s.value, ast.Tuple) and [_src(e) for e in s.value.elts] == [PR, VA]):
            _fail(s, "expected return (probs, values)")
        out.append("RReturnProbsValues")
        return out

    # ---- Evaluate --------------------------------------------------------------
    def evaluate(self):
        fn = self._method(self._class(self.server_mod, "Server"), "Evaluate", True)
        args = [a.arg for a in fn.args.args]
        if len(args) != 3 or args[0] != "self":
            _fail(fn, "Evaluate signature")
        rq = args[1]
        st = fn.body
        if len(st) != 5:
            _fail(fn, "Evaluate: expected 5 statements (tensor, request, put, wait, return)")
        out = []
        s = st[0]
        if not (isinstance(s, ast.Assign) and len(s.targets) == 1 and isinstance(s.targets[0], ast.Name)
                and _call(s.value, "torch.tensor", 1) and _src(s.value.args[0]) == f"{rq}.position"
                and list(_kwargs(s.value)) == ["dtype"]):
            _fail(s, "expected position = torch.tensor(request.position, dtype=...)")
        POS = s.targets[0].id
        out.append(f"ETensor {_dtype(_kwargs(s.value)['dtype'])}")
        s = st[1]
        if not (isinstance(s, ast.Assign) and len(s.targets) == 1 and isinstance(s.targets[0], ast.Name)
                and _call(s.value, "QueueRequest", 0) and _kwargs(s.value) == {"position": POS}):
            _fail(s, "expected req = QueueRequest(position=position)")
        R = s.targets[0].id
        out.append("ERequest")
        s = st[2]
        if not (isinstance(s, ast.Expr) and isinstance(s.value, ast.Await) and _call(s.value.value, "self.queue.put", 1)
                and _is_name(s.value.value.args[0], R)):
            _fail(s, "expected await self.queue.put(req)")
        out.append("EPut")
        s = st[3]
        if not (isinstance(s, ast.Expr) and isinstance(s.value, ast.Await) and _call(s.value.value, f"{R}.ready.wait", 0)):
            _fail(s, "expected await req.ready.wait()")
        out.append("EWaitReady")
        s = st[4]
        if not (isinstance(s, ast.Return) and _call(s.value, "analysis_pb2.EvaluateResponse", 0)
                and sorted(_kwargs(s.value)) == ["move_probs_bytes", "value"]):
            _fail(s, "expected return analysis_pb2.EvaluateResponse(move_probs_bytes=..., value=...)")
        kw = _kwargs(s.value)
        if kw["move_probs_bytes"] != f"{R}.probs.tobytes()" or kw["value"] != f"{R}.value":
            _fail(s, "the reply is not (req.probs.tobytes(), req.value)")
        out.append("EReply")
        return out

    # ---- GRPCNetwork.evaluate ----------------------------------------------------
    def client(self):
        fn = self._method(self._class(self.grpc_mod, "GRPCNetwork"), "evaluate", False)
        args = [a.arg for a in fn.args.args]
        if len(args) != 2:
            _fail(fn, "GRPCNetwork.evaluate signature")
        pos = args[1]
        if not (len(fn.body) == 1 and isinstance(fn.body[0], ast.With) and len(fn.body[0].items) == 1
                and _src(fn.body[0].items[0].context_expr) == "torch.no_grad()"):
            _fail(fn, "expected a single `with torch.no_grad():`")
        st = fn.body[0].body
        if len(st) != 4:
            _fail(fn, "GRPCNetwork.evaluate: expected 4 statements (encode, stub call, frombuffer, return)")

        def assign(s):
            if not (isinstance(s, ast.Assign) and len(s.targets) == 1 and isinstance(s.targets[0], ast.Name)):
                _fail(s, "expected a simple assignment")
            return s.targets[0].id, s.value

        out = []
        ENC, v = assign(st[0])
        if not (_call(v, "encoding.encode", 1) and _is_name(v.args[0], pos) and not v.keywords):
            _fail(st[0], "expected encoded = encoding.encode(pos)")
        out.append("CEncode")
        OUT, v = assign(st[1])
        if not (_call(v, "self.stub.Evaluate", 1) and _call(v.args[0], "analysis_pb2.EvaluateRequest", 0)
                and _kwargs(v.args[0]) == {"position": ENC}):
            _fail(st[1], "expected out = self.stub.Evaluate(analysis_pb2.EvaluateRequest(position=encoded))")
        out.append("CEvaluate")
        MP, v = assign(st[2])
        ok = _call(v, "torch.from_numpy", 1) and isinstance(v.args[0], ast.Call) and _src(v.args[0].func).endswith(".copy") \
            and not v.args[0].args
        if ok:
            fb = v.args[0].func.value
            ok = (_call(fb, "np.frombuffer", 1) and _src(fb.args[0]) == f"{OUT}.move_probs_bytes"
                  and list(_kwargs(fb)) == ["dtype"])
        if not ok:
            _fail(st[2], "expected torch.from_numpy(np.frombuffer(out.move_probs_bytes, dtype=...).copy())")
        out.append(f"CFromBuffer {_dtype(_kwargs(fb)['dtype'])}")
        s = st[3]
        if not (isinstance(s, ast.Return) and isinstance(s.value, ast.Tuple)
                and [_src(e) for e in s.value.elts] == [MP, f"{OUT}.value"]):
            _fail(s, "expected return move_probs, out.value")
        out.append("CReturn")
        return out


TYPES = '''Inductive idx := IdxI | IdxRev.               (* i  |  len(batch) - 1 - i *)
Inductive slice := SlPrefix | SlTail.           (* [: len(b.position)]  |  [len(b.position) :] *)
Inductive dtype := DFloat32 | DFloat64 | DLong | DBool | DOther.
(* body of the outer `while True:` of Server.worker_loop, in order *)
Inductive wstmt :=
| WBatchNew                                     (* batch = [] *)
| WFirstGet                                     (* batch.append(await self.queue.get()) *)
| WGather (threshold tnum tden : Z)
    (* while True:
         if len(batch) >= threshold: try: batch.append(self.queue.get_nowait()) except asyncio.QueueEmpty: break
         else: try: elem = await asyncio.wait_for(self.queue.get(), tnum/tden seconds); batch.append(elem)
               except asyncio.TimeoutError: break *)
| WRunModel                                     (* (probs, values) = await loop.run_in_executor(None, run_model, batch) *)
| WHandOut (iprobs ivalue : idx) (set_last : bool).
    (* for (i, b) in enumerate(batch): b.probs = probs[iprobs]; b.value = values[ivalue]; b.ready.set()
       set_last = ready.set() comes after both stores *)
(* body of the nested run_model(batch) *)
Inductive rstmt :=
| RPositionsZeros (d : dtype)                   (* positions = torch.zeros((len(batch), max(len(b.position) for b in batch)), dtype=d) *)
| RMaskZerosLike (d : dtype)                    (* mask = torch.zeros_like(positions, dtype=d) *)
| RFill (row : idx) (ps ms : slice) (v : Z)     (* for (i, b) in enumerate(batch): positions[row, ps] = b.position; mask[row, ms].fill_(v) *)
| RCall                                         (* out = self.model(positions.to(self.device), mask.to(self.device)) *)
| RProbs (dim : Z) (d : dtype)                  (* probs = torch.softmax(out["moves"], dim=dim).to(device="cpu", dtype=d).numpy() *)
| RValues (d : dtype)                           (* values = out["values"].to(device="cpu", dtype=d).numpy() *)
| RReturnProbsValues.                           (* return (probs, values) *)
(* body of Server.Evaluate *)
Inductive estmt :=
| ETensor (d : dtype)                           (* position = torch.tensor(request.position, dtype=d) *)
| ERequest                                      (* req = QueueRequest(position=position) *)
| EPut                                          (* await self.queue.put(req) *)
| EWaitReady                                    (* await req.ready.wait() *)
| EReply.                                       (* return EvaluateResponse(move_probs_bytes=req.probs.tobytes(), value=req.value) *)
(* body of GRPCNetwork.evaluate (inside `with torch.no_grad():`) *)
Inductive cstmt :=
| CEncode                                       (* encoded = encoding.encode(pos) *)
| CEvaluate                                     (* out = self.stub.Evaluate(EvaluateRequest(position=encoded)) *)
| CFromBuffer (d : dtype)                       (* move_probs = torch.from_numpy(np.frombuffer(out.move_probs_bytes, dtype=d).copy()) *)
| CReturn.                                      (* return move_probs, out.value *)
Inductive server_ir :=
| IRUnknown                                     (* the translator did not recognise the source *)
| IR (capacity : Z)                             (* queue = asyncio.Queue(capacity) *)
     (worker : list wstmt) (run_model : list rstmt) (evaluate : list estmt) (client : list cstmt).'''

HEAD = ("(* GENERATED by harness/server_ir.py from python/tak/model/server.py and python/tak/model/grpc.py - do not edit.\n"
        "   The protocol of the batching server as the source states it now. *)\n"
        "From Coq Require Import ZArith List.\nImport ListNotations.\nOpen Scope Z_scope.\n\n")


def stub_text(why):
    return (f"(* harness/server_ir.py could not translate the source: {why} *)\n" + HEAD + TYPES +
            "\n\nDefinition server : server_ir := IRUnknown.\n")


def translate(repo=None):
    t = Translator(repo or core.REPO)
    cap = t.capacity()
    worker, run_model = t.worker()
    ev = t.evaluate()
    cl = t.client()

    def lst(xs):
        return "[" + "; ".join(xs) + "]"

    text = (HEAD + TYPES + "\n\nDefinition server : server_ir :=\n"
            f"  IR {core.cz(cap)}\n     {lst(worker)}\n     {lst(run_model)}\n     {lst(ev)}\n     {lst(cl)}.\n")
    return text, {"capacity": cap, "worker": worker, "run_model": run_model, "evaluate": ev, "client": cl}


def regen(repo=None):
    text, ir = translate(repo)
    changed = core.write_if_changed(core.COQ / "gen" / "ServerIR.v", text)
    return changed, ir


if __name__ == "__main__":
    print(translate()[0])
