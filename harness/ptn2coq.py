"""ptn2coq - a small fail-closed translator (Python `ast`, nothing is executed) for the two regular-expression
based functions of python/tak/ptn/ptn.py: `parse_move` and `PTN.parse`, plus the dict literals `slide_map`,
`place_map`.  Output: the text of coq/gen/PtnParseGen.v, a shallow embedding written against model/PySem.v
(outcomes Ok v | Illegal | Crash e, bind) and model/PtnSem.v (regular expressions as terms of spec/RegexSpec.v,
match objects, ord, split with maxsplit, dict()).  `raise BadMove(...)` becomes `Illegal` (the module's own refusal).

Every regular-expression literal is parsed into a RegexSpec term `re_k`; its source text is emitted next to it as
`re_k_src` and proofs/PtnParseGenEq.v proves `show re_k = re_k_src` by computation, so this parser is not trusted.
`^` / `$` become BolM / EolM when the call passes re.M, Bol / Eol otherwise (the flag is part of the term).

Anything outside the recognised subset raises Untranslatable: translate() then returns a stub (no parse_move, no
parse), so every proof about the generated names fails to compile.

Scheme (the same as harness/py2coq.py, much smaller):
  * a statement that can raise is a monadic bind, in evaluation order; `x = e` rebinds x;
  * `if c: raise BadMove(..)`           ->  if c then Illegal else <rest>
  * `if c: <assignments> [else: ..]`    ->  vars <- (if c then .. ;; ret vars else .. ;; ret vars) ;; <rest>
  * `a and b` where b can raise         ->  t <- (if a then <binds of b> ret b else ret false) ;;
  * `for t in tokens:` with `continue`  ->  Fixpoint parse_for<k> by recursion over the list, state = the variables the
                                            body assigns that exist before the loop; `continue` = the recursive call;
  * truthiness by type: str / list -> truthy_list, match object -> py_match_truthy, Optional tuple -> truthy_opt_list.
"""
import ast
import hashlib
import sys
from pathlib import Path


class Untranslatable(Exception):
    pass


def bad(node, why):
    raise Untranslatable(f"line {getattr(node, 'lineno', '?')}: {why}: {ast.dump(node)[:160] if isinstance(node, ast.AST) else node}")


# --------------------------------------------------------------------------------------------------
# regular expressions: Python syntax -> term of spec/RegexSpec.v
# --------------------------------------------------------------------------------------------------
SPECIAL = set(".[]\\()*+?|^$")


class RegexParser:
    def __init__(self, text, multiline):
        self.s, self.i, self.m, self.ngroups = text, 0, multiline, 0

    def peek(self):
        return self.s[self.i] if self.i < len(self.s) else None

    def parse(self):
        r = self.alt()
        if self.i != len(self.s):
            raise Untranslatable(f"regex {self.s!r}: unexpected {self.s[self.i]!r} at {self.i}")
        return r

    def alt(self):
        parts = [self.seq()]
        while self.peek() == "|":
            self.i += 1
            parts.append(self.seq())
        r = parts[-1]
        for p in reversed(parts[:-1]):
            r = f"(Alt {p} {r})"
        return r

    def seq(self):
        items = []
        while self.peek() is not None and self.peek() not in "|)":
            items.append(self.item())
        if not items:
            return "Eps"
        r = items[-1]
        for p in reversed(items[:-1]):
            r = f"(Seq {p} {r})"
        return r

    def item(self):
        a = self.atom()
        q = self.peek()
        if q in ("?", "*", "+"):
            self.i += 1
            if self.peek() in ("?", "+", "*", "{"):
                raise Untranslatable(f"regex {self.s!r}: lazy / possessive / stacked quantifier at {self.i}")
            return f"({ {'?': 'Opt', '*': 'Star', '+': 'Plus'}[q] } {a})"
        return a

    def atom(self):
        c = self.peek()
        self.i += 1
        if c == "\\":
            d = self.peek()
            self.i += 1
            if d == "A":
                return "Bos"
            if d == "Z":
                return "Eos"
            if d in "sdw":
                return "(Esc Esc%s)" % d.upper()
            if d is not None and d in SPECIAL:
                return f"(Chr {ord(d)})"
            raise Untranslatable(f"regex {self.s!r}: escape \\{d} is not modelled")
        if c == "^":
            return "BolM" if self.m else "Bol"
        if c == "$":
            return "EolM" if self.m else "Eol"
        if c == "(":
            if self.peek() == "?":
                raise Untranslatable(f"regex {self.s!r}: (?...) groups are not modelled")
            self.ngroups += 1
            n = self.ngroups
            r = self.alt()
            if self.peek() != ")":
                raise Untranslatable(f"regex {self.s!r}: unbalanced parenthesis")
            self.i += 1
            return f"(Group {n} {r})"
        if c == "[":
            neg = self.peek() == "^"
            if neg:
                self.i += 1
            items = []
            first = True
            while True:
                d = self.peek()
                if d is None:
                    raise Untranslatable(f"regex {self.s!r}: unterminated class")
                if d == "]" and not first:
                    self.i += 1
                    break
                if d in "\\[" or (d == "]" and first):
                    raise Untranslatable(f"regex {self.s!r}: {d!r} inside a class is not modelled")
                self.i += 1
                first = False
                if self.peek() == "-" and self.i + 1 < len(self.s) and self.s[self.i + 1] != "]":
                    hi = self.s[self.i + 1]
                    if hi in "\\[":
                        raise Untranslatable(f"regex {self.s!r}: range end {hi!r}")
                    self.i += 2
                    items.append(f"Range {ord(d)} {ord(hi)}")
                else:
                    items.append(f"Single {ord(d)}")
            return f"({'NotCls' if neg else 'Cls'} [{'; '.join(items)}])"
        if c in ")*+?|":
            raise Untranslatable(f"regex {self.s!r}: misplaced {c!r}")
        if c == "." or c == "{" and self._looks_like_repeat():
            raise Untranslatable(f"regex {self.s!r}: {c!r} is not modelled")
        return f"(Chr {ord(c)})"

    def _looks_like_repeat(self):
        # a "{" that Python would read as a repetition count {m}, {m,n}
        j = self.i
        k = j
        while k < len(self.s) and (self.s[k].isdigit() or self.s[k] == ","):
            k += 1
        return k > j and k < len(self.s) and self.s[k] == "}"


# --------------------------------------------------------------------------------------------------
# Coq text helpers
# --------------------------------------------------------------------------------------------------
def coq_str(s):
    """a str constant as a list of code points"""
    if s and all(c.isalnum() or c in " -<>+/.!?" for c in s) and all(ord(c) < 128 for c in s):
        return f'(pystr "{s}")'
    return "[" + "; ".join(str(ord(c)) for c in s) + "]"


MOVETYPES = {"PLACE_FLAT": "PlaceFlat", "PLACE_STANDING": "PlaceStanding", "PLACE_CAPSTONE": "PlaceCapstone",
             "SLIDE_LEFT": "SlideLeft", "SLIDE_RIGHT": "SlideRight", "SLIDE_UP": "SlideUp", "SLIDE_DOWN": "SlideDown"}
RENAME = {"move": "move_", "type": "type_", "at": "at_", "end": "end_", "in": "in_", "as": "as_", "return": "return_"}

T_STR, T_INT, T_BOOL, T_MATCH, T_CHAR, T_MTYPE, T_MV = "str", "int", "bool", "match", "char", "mtype", "mv"
T_NONE = "none"


def T_OPT(t):
    return ("opt", t)


def T_LIST(t):
    return ("list", t)


def T_PAIR(a, b):
    return ("pair", a, b)


class Tr:
    def __init__(self, src):
        self.src = src
        self.tree = ast.parse(src)
        self.regexes = []          # (term, source text)
        self.tmp = 0
        self.loops = []            # emitted Fixpoints of the current function
        self.nloop = 0
        self.dicts = {}            # module-level dict literals: name -> (key type, value type)

    # ----- bookkeeping -----
    def fresh(self):
        self.tmp += 1
        return f"t{self.tmp}"

    def name(self, n):
        return RENAME.get(n, n)

    def regex(self, node, multiline):
        if not (isinstance(node, ast.Constant) and isinstance(node.value, str)):
            bad(node, "a regular expression must be a string literal")
        term = RegexParser(node.value, multiline).parse()
        k = len(self.regexes)
        self.regexes.append((term, node.value))
        return f"re_{k}"

    # ----- expressions: returns (binds, coq, type); binds = [(var, monadic coq)] in evaluation order -----
    def truthy(self, coq, ty, node):
        if ty == T_BOOL:
            return coq
        if ty == T_STR or (isinstance(ty, tuple) and ty[0] == "list"):
            return f"truthy_list {coq}"
        if ty == T_MATCH:
            return f"py_match_truthy {coq}"
        if isinstance(ty, tuple) and ty[0] == "opt" and isinstance(ty[1], tuple) and ty[1][0] == "list":
            return f"truthy_opt_list {coq}"
        bad(node, f"truth value of a {ty}")

    def cond(self, node, env):
        """a condition: (binds, coq bool)"""
        if isinstance(node, ast.UnaryOp) and isinstance(node.op, ast.Not):
            b, c = self.cond(node.operand, env)
            return b, f"negb ({c})"
        if isinstance(node, ast.BoolOp):
            parts = [self.cond(v, env) for v in node.values]
            op = "&&" if isinstance(node.op, ast.And) else "||"
            if all(not b for b, _ in parts[1:]):
                return parts[0][0], "(" + f" {op} ".join(f"({c})" for _, c in parts) + ")"
            if len(parts) != 2:
                bad(node, "and/or with a raising operand that is not the last of two")
            (b0, c0), (b1, c1) = parts
            t = self.fresh()
            inner = "".join(f"{v} <- {e} ;; " for v, e in b1)
            if isinstance(node.op, ast.And):
                return b0 + [(t, f"(if {c0} then {inner}ret ({c1}) else ret false)")], t
            return b0 + [(t, f"(if {c0} then ret true else {inner}ret ({c1}))")], t
        if isinstance(node, ast.Compare):
            if len(node.ops) != 1:
                bad(node, "chained comparison")
            bl, cl, tl = self.expr(node.left, env)
            br, cr, tr = self.expr(node.comparators[0], env)
            if tl != tr:
                bad(node, f"comparison of {tl} with {tr}")
            eq = {T_STR: "pystr_eqb {0} {1}", T_INT: "({0} =? {1})"}.get(tl)
            if eq is None:
                bad(node, f"comparison at type {tl}")
            if isinstance(node.ops[0], ast.Eq):
                return bl + br, eq.format(cl, cr)
            if isinstance(node.ops[0], ast.NotEq):
                return bl + br, f"negb ({eq.format(cl, cr)})"
            bad(node, "comparison operator")
        if isinstance(node, ast.Call) and self.is_re_call(node, ("search", "match")):
            # only the truth value of the match object is used
            fn = node.func.attr
            if len(node.args) != 2 or node.keywords:
                bad(node, "re.search / re.match with flags in a condition")
            r = self.regex(node.args[0], False)
            b, c, ty = self.expr(node.args[1], env)
            if ty != T_STR:
                bad(node, "subject of re.search must be a str")
            t = self.fresh()
            return b + [(t, f"re_test {'true' if fn == 'match' else 'false'} {r} {c}")], t
        b, c, ty = self.expr(node, env)
        return b, self.truthy(c, ty, node)

    def is_re_call(self, node, names):
        return (isinstance(node, ast.Call) and isinstance(node.func, ast.Attribute) and isinstance(node.func.value, ast.Name)
                and node.func.value.id == "re" and node.func.attr in names)

    def expr(self, node, env):
        if isinstance(node, ast.Name):
            if node.id in env:
                return [], self.name(node.id), env[node.id]
            bad(node, "unknown name")
        if isinstance(node, ast.Constant):
            if node.value is None:
                return [], "None", T_NONE
            if isinstance(node.value, str):
                return [], coq_str(node.value), T_STR
            if isinstance(node.value, int) and not isinstance(node.value, bool):
                return [], (str(node.value) if node.value >= 0 else f"({node.value})"), T_INT
            bad(node, "constant")
        if isinstance(node, ast.List) and not node.elts:
            return [], "[]", T_LIST(None)                 # the element type is fixed by the first append
        if isinstance(node, ast.BinOp) and isinstance(node.op, (ast.Sub, ast.Add)):
            bl, cl, tl = self.expr(node.left, env)
            br, cr, tr = self.expr(node.right, env)
            if tl != T_INT or tr != T_INT:
                bad(node, "arithmetic on non-ints")
            return bl + br, f"({cl} {'-' if isinstance(node.op, ast.Sub) else '+'} {cr})", T_INT
        if isinstance(node, ast.Tuple):
            parts = [self.expr(e, env) for e in node.elts]
            if not parts or any(t != T_INT for _, _, t in parts):
                bad(node, "only tuples of ints are modelled")
            return sum((b for b, _, _ in parts), []), "[" + "; ".join(c for _, c, _ in parts) + "]", T_LIST(T_INT)
        if isinstance(node, ast.Subscript):
            if isinstance(node.value, ast.Name) and node.value.id in self.dicts:
                kt, vt = self.dicts[node.value.id]
                b, c, ty = self.expr(node.slice, env)
                if ty != kt:
                    bad(node, f"dict key of type {ty}")
                t = self.fresh()
                return b + [(t, f"py_dict_get pystr_eqb {node.value.id} {c}")], t, vt
            bad(node, "subscript")
        if isinstance(node, ast.Call):
            return self.call(node, env)
        bad(node, "expression")

    def call(self, node, env):
        f = node.func
        if isinstance(f, ast.Name) and f.id == "ord" and len(node.args) == 1 and not node.keywords:
            a = node.args[0]
            if isinstance(a, ast.Constant) and isinstance(a.value, str) and len(a.value) == 1:
                return [], f'(ch "{a.value}")' if a.value.isalnum() else str(ord(a.value)), T_INT
            b, c, ty = self.expr(a, env)
            if ty == T_CHAR:
                return b, c, T_INT                       # ord of a character of a str: its code point
            if ty == T_STR:
                t = self.fresh()
                return b + [(t, f"py_ord {c}")], t, T_INT
            bad(node, f"ord of a {ty}")
        if isinstance(f, ast.Name) and f.id == "int" and len(node.args) == 1 and not node.keywords:
            b, c, ty = self.expr(node.args[0], env)
            if ty != T_STR:
                bad(node, f"int of a {ty}")
            t = self.fresh()
            return b + [(t, f"py_int_str {c}")], t, T_INT
        if isinstance(f, ast.Name) and f.id == "sum" and len(node.args) == 1 and not node.keywords:
            b, c, ty = self.expr(node.args[0], env)
            if ty == T_OPT(T_LIST(T_INT)):
                t = self.fresh()
                return b + [(t, f"py_iter_opt {c}")], f"py_sum {t}", T_INT
            if ty == T_LIST(T_INT):
                return b, f"py_sum {c}", T_INT
            bad(node, f"sum of a {ty}")
        if isinstance(f, ast.Name) and f.id == "tuple" and len(node.args) == 1 and isinstance(node.args[0], ast.GeneratorExp):
            g = node.args[0]
            if len(g.generators) != 1 or g.generators[0].ifs or g.generators[0].is_async or not isinstance(g.generators[0].target, ast.Name):
                bad(node, "generator shape")
            bi, ci, ti = self.expr(g.generators[0].iter, env)
            if ti != T_STR:
                bad(node, "only generators over the characters of a str are modelled")
            v = g.generators[0].target.id
            env2 = dict(env)
            env2[v] = T_CHAR
            be, ce, te = self.expr(g.elt, env2)
            if be or te != T_INT:
                bad(node, "the element expression of the generator must be a non-raising int")
            return bi, f"map (fun {self.name(v)} => {ce}) {ci}", T_LIST(T_INT)
        if isinstance(f, ast.Name) and f.id == "dict" and len(node.args) == 1 and not node.keywords:
            b, c, ty = self.expr(node.args[0], env)
            if ty != T_LIST(T_PAIR(T_STR, T_STR)):
                bad(node, f"dict of a {ty}")
            return b, f"py_dict_of_pairs {c}", ("dict", T_STR, T_STR)
        if isinstance(f, ast.Name) and f.id == "parse_move" and len(node.args) == 1 and not node.keywords:
            b, c, ty = self.expr(node.args[0], env)
            if ty != T_STR:
                bad(node, "parse_move of a non-str")
            t = self.fresh()
            return b + [(t, f"parse_move {c}")], t, T_MV
        if self.is_re_call(node, ("search",)):
            if len(node.args) != 2 or node.keywords:
                bad(node, "re.search with flags")
            r = self.regex(node.args[0], False)
            b, c, ty = self.expr(node.args[1], env)
            if ty != T_STR:
                bad(node, "subject of re.search must be a str")
            t = self.fresh()
            return b + [(t, f"re_search_groups {r} {c}")], t, T_MATCH
        if self.is_re_call(node, ("sub",)):
            if len(node.args) != 3 or node.keywords:
                bad(node, "re.sub with count / flags")
            r = self.regex(node.args[0], False)
            br, cr, tr = self.expr(node.args[1], env)
            bs, cs, ts = self.expr(node.args[2], env)
            if tr != T_STR or ts != T_STR or not isinstance(node.args[1], ast.Constant):
                bad(node, "re.sub: the replacement must be a str literal, the subject a str")
            t = self.fresh()
            return br + bs + [(t, f"re_sub {r} {cr} {cs}")], t, T_STR
        if self.is_re_call(node, ("split",)):
            if len(node.args) != 2 or node.keywords:
                bad(node, "re.split with maxsplit / flags")
            r = self.regex(node.args[0], False)
            b, c, ty = self.expr(node.args[1], env)
            if ty != T_STR:
                bad(node, "subject of re.split must be a str")
            t = self.fresh()
            return b + [(t, f"re_split {r} {c}")], t, T_LIST(T_STR)
        if self.is_re_call(node, ("findall",)):
            if node.keywords or len(node.args) not in (2, 3):
                bad(node, "re.findall arguments")
            multiline = False
            if len(node.args) == 3:
                fl = node.args[2]
                if not (isinstance(fl, ast.Attribute) and isinstance(fl.value, ast.Name) and fl.value.id == "re" and fl.attr in ("M", "MULTILINE")):
                    bad(node, "re.findall: only the flag re.M is modelled")
                multiline = True
            r = self.regex(node.args[0], multiline)
            b, c, ty = self.expr(node.args[1], env)
            if ty != T_STR:
                bad(node, "subject of re.findall must be a str")
            t = self.fresh()
            return b + [(t, f"re_findall2 {r} {c}")], t, T_LIST(T_PAIR(T_STR, T_STR))
        if isinstance(f, ast.Attribute) and f.attr == "groups" and not node.args and not node.keywords:
            b, c, ty = self.expr(f.value, env)
            if ty != T_MATCH:
                bad(node, ".groups() of a non-match")
            t = self.fresh()
            return b + [(t, f"py_match_groups {c}")], t, T_LIST(T_STR)
        if isinstance(f, ast.Attribute) and f.attr == "split" and len(node.args) == 2 and not node.keywords:
            b, c, ty = self.expr(f.value, env)
            sep, mx = node.args
            if ty != T_STR or not (isinstance(sep, ast.Constant) and isinstance(sep.value, str)) or \
                    not (isinstance(mx, ast.Constant) and mx.value == 1):
                bad(node, "only s.split(<str literal>, 1) is modelled")
            t = self.fresh()
            return b + [(t, f"py_split_max1 {c} {coq_str(sep.value)}")], t, T_LIST(T_STR)
        if isinstance(f, ast.Attribute) and isinstance(f.value, ast.Name) and f.value.id == "tak" and f.attr == "Move" \
                and len(node.args) == 4 and not node.keywords:
            parts = [self.expr(a, env) for a in node.args]
            tys = [t for _, _, t in parts]
            if tys[0] != T_INT or tys[1] != T_INT or tys[2] not in (T_OPT(T_MTYPE), T_MTYPE) or tys[3] not in (T_OPT(T_LIST(T_INT)),):
                bad(node, f"tak.Move argument types {tys}")
            cs = [c for _, c, _ in parts]
            if tys[2] == T_MTYPE:
                cs[2] = f"(Some {cs[2]})"
            t = self.fresh()
            return sum((b for b, _, _ in parts), []) + [(t, "py_move " + " ".join(cs))], t, T_MV
        bad(node, "call")

    # ----- statements -----
    def pure_raise_args(self, node):
        """the arguments of raise BadMove(..) are not evaluated by the translation; make sure they cannot raise"""
        for a in node.args:
            ok = isinstance(a, (ast.Name, ast.Constant)) or (
                isinstance(a, ast.Call) and isinstance(a.func, ast.Attribute) and a.func.attr == "format"
                and isinstance(a.func.value, ast.Constant) and isinstance(a.func.value.value, str)
                and all(isinstance(x, ast.Name) for x in a.args) and not a.keywords
                and a.func.value.value.count("{") == len(a.args))
            if not ok:
                bad(a, "argument of raise BadMove")

    def is_raise_badmove(self, st):
        return (isinstance(st, ast.Raise) and isinstance(st.exc, ast.Call) and isinstance(st.exc.func, ast.Name)
                and st.exc.func.id == "BadMove" and st.cause is None)

    def assigned(self, stmts):
        out = []
        for st in stmts:
            if isinstance(st, ast.Assign):
                for tg in st.targets:
                    for n in ([tg] if isinstance(tg, ast.Name) else tg.elts if isinstance(tg, ast.Tuple) else []):
                        if isinstance(n, ast.Name) and n.id not in out:
                            out.append(n.id)
            elif isinstance(st, ast.Expr) and isinstance(st.value, ast.Call) and isinstance(st.value.func, ast.Attribute) \
                    and st.value.func.attr == "append" and isinstance(st.value.func.value, ast.Name):
                if st.value.func.value.id not in out:
                    out.append(st.value.func.value.id)
            elif isinstance(st, ast.If):
                for v in self.assigned(st.body) + self.assigned(st.orelse):
                    if v not in out:
                        out.append(v)
        return out

    def coerce(self, coq, ty, want, node):
        """value of type ty stored into a variable of type want"""
        if ty == want:
            return coq
        if isinstance(want, tuple) and want[0] == "opt":
            if ty == T_NONE:
                return "None"
            if ty == want[1]:
                return f"(Some ({coq}))"
        bad(node, f"a {ty} stored into a variable of type {want}")

    def join_type(self, old, new, node):
        if old is None or old == new:
            return new
        if old == T_NONE and new != T_NONE:
            return T_OPT(new)
        if isinstance(old, tuple) and old[0] == "opt" and (new == T_NONE or new == old[1]):
            return old
        bad(node, f"variable changes type from {old} to {new}")

    def block(self, stmts, env, ind, tail):
        """translate stmts; `tail(env, ind)` produces the text for what follows the block"""
        if not stmts:
            return tail(env, ind)
        st, rest = stmts[0], stmts[1:]
        pad = " " * ind

        def binds_text(binds):
            return "".join(f"{pad}{v} <- {e} ;;\n" for v, e in binds)

        if isinstance(st, ast.Assign) and len(st.targets) == 1 and isinstance(st.targets[0], ast.Name):
            v = st.targets[0].id
            b, c, ty = self.expr(st.value, env)
            env = dict(env)
            newty = self.join_type(env.get(v), ty, st)
            if ty == T_NONE:
                # `v = None`: the option's type comes from the first later assignment of a value to v
                later = newty[1] if isinstance(newty, tuple) and newty[0] == "opt" else self.lookahead(v, rest, env)
                c = f"(None : option ({self.coq_type(later, st)}))"
                newty = T_OPT(later)
            else:
                c = self.coerce(c, ty, newty, st)
            env[v] = newty
            return binds_text(b) + f"{pad}let {self.name(v)} := {c} in\n" + self.block(rest, env, ind, tail)
        if isinstance(st, ast.Assign) and len(st.targets) == 1 and isinstance(st.targets[0], ast.Tuple):
            names = st.targets[0].elts
            if not all(isinstance(n, ast.Name) for n in names):
                bad(st, "unpacking target")
            b, c, ty = self.expr(st.value, env)
            if ty != T_LIST(T_STR) or len(names) not in (2, 6):
                bad(st, f"unpacking of a {ty} into {len(names)} names")
            env = dict(env)
            for n in names:
                env[n.id] = T_STR
            pat = ", ".join(self.name(n.id) for n in names)
            return binds_text(b) + f"{pad}'({pat}) <- py_unpack{len(names)} {c} ;;\n" + self.block(rest, env, ind, tail)
        if isinstance(st, ast.Expr) and isinstance(st.value, ast.Call) and isinstance(st.value.func, ast.Attribute) \
                and st.value.func.attr == "append" and isinstance(st.value.func.value, ast.Name) and len(st.value.args) == 1:
            lv = st.value.func.value.id
            if lv not in env or not (isinstance(env[lv], tuple) and env[lv][0] == "list"):
                bad(st, "append to something that is not a local list")
            b, c, ty = self.expr(st.value.args[0], env)
            env = dict(env)
            if env[lv][1] is None:
                env[lv] = T_LIST(ty)
            elif env[lv][1] != ty:
                bad(st, "append changes the element type")
            return binds_text(b) + f"{pad}let {self.name(lv)} := {self.name(lv)} ++ [{c}] in\n" + self.block(rest, env, ind, tail)
        if isinstance(st, ast.If):
            b, c = self.cond(st.test, env)
            body = st.body
            if len(body) == 1 and self.is_raise_badmove(body[0]) and not st.orelse:
                self.pure_raise_args(body[0].exc)
                return binds_text(b) + f"{pad}if {c} then Illegal else\n" + self.block(rest, env, ind, tail)
            if len(body) == 1 and isinstance(body[0], ast.Continue) and not st.orelse:
                if "__continue__" not in env:
                    bad(st, "continue outside a translated loop")
                return binds_text(b) + f"{pad}if {c} then {env['__continue__'](env)} else\n" + self.block(rest, env, ind, tail)
            for s2 in ast.walk(ast.Module(body=st.body + st.orelse, type_ignores=[])):
                if isinstance(s2, (ast.Raise, ast.Continue, ast.Return, ast.Break, ast.For, ast.While)):
                    bad(st, "an if that mixes assignments with raise / continue / return / loops")
            vs = self.assigned(st.body + st.orelse)
            if not vs or any(v not in env for v in vs):
                bad(st, "an if must assign variables that exist before it")

            def dry(stmts2):
                """the types of the variables after a branch (the translation is thrown away)"""
                save = (self.tmp, list(self.regexes))
                h = {}

                def fin0(env2, ind2):
                    h["env"] = env2
                    return ""
                self.block(stmts2, env, 0, fin0)
                self.tmp, self.regexes = save
                return h["env"]
            e1, e2 = dry(st.body), dry(st.orelse)
            env_after = dict(env)
            for v in vs:
                env_after[v] = self.join2(e1[v], e2[v], st)

            def fin(env2, ind2):
                vals = [self.coerce(self.name(v), env2[v], env_after[v], st) for v in vs]
                return " " * ind2 + "ret (" + ", ".join(vals) + ")"
            t_then = self.block(st.body, env, ind + 6, fin)
            t_else = self.block(st.orelse, env, ind + 6, fin)
            pat = self.name(vs[0]) if len(vs) == 1 else "'(" + ", ".join(self.name(v) for v in vs) + ")"
            return (binds_text(b) + f"{pad}{pat} <- (\n{pad}    if {c} then\n{t_then}\n{pad}    else\n{t_else}) ;;\n"
                    + self.block(rest, env_after, ind, tail))
        if isinstance(st, ast.For):
            return self.for_loop(st, rest, env, ind, tail)
        if isinstance(st, ast.Return):
            if rest:
                bad(st, "statements after return")
            return self.ret(st, env, ind)
        bad(st, "statement")

    def coq_type(self, ty, node):
        if ty == T_MTYPE:
            return "mtype"
        if ty == T_INT:
            return "Z"
        if ty == T_STR:
            return "list Z"
        if isinstance(ty, tuple) and ty[0] == "list" and ty[1] is not None:
            return f"list ({self.coq_type(ty[1], node)})"
        bad(node, f"no Coq type for {ty}")

    def lookahead(self, v, stmts, env):
        """the type of the first value assigned to v in stmts (looking into the branches of ifs)"""
        for st in stmts:
            if isinstance(st, ast.Assign) and len(st.targets) == 1 and isinstance(st.targets[0], ast.Name) and st.targets[0].id == v \
                    and not (isinstance(st.value, ast.Constant) and st.value.value is None):
                save = (self.tmp, list(self.regexes))
                _, _, ty = self.expr(st.value, env)
                self.tmp, self.regexes = save
                return ty
            if isinstance(st, ast.If):
                for blk in (st.body, st.orelse):
                    try:
                        return self.lookahead(v, blk, env)
                    except Untranslatable:
                        pass
        raise Untranslatable(f"`{v} = None` is never followed by an assignment of a value")

    def join2(self, a, b, node):
        """the type of a variable after an if whose branches leave it at types a and b"""
        if a == b:
            return a
        for x, y in ((a, b), (b, a)):
            if x == T_NONE and y != T_NONE:
                return y if (isinstance(y, tuple) and y[0] == "opt") else T_OPT(y)
            if isinstance(x, tuple) and x[0] == "opt" and y == x[1]:
                return x
        bad(node, f"branches leave a variable at types {a} and {b}")

    def ret(self, st, env, ind):
        pad = " " * ind
        v = st.value
        if isinstance(v, ast.Call) and isinstance(v.func, ast.Name) and v.func.id == "cls" and not v.args \
                and [k.arg for k in v.keywords] == ["tags", "moves"]:
            parts = [self.expr(k.value, env) for k in v.keywords]
            if parts[0][2] != ("dict", T_STR, T_STR) or parts[1][2] != T_LIST(T_MV) or parts[0][0] or parts[1][0]:
                bad(st, f"cls(tags=, moves=) argument types {[p[2] for p in parts]}")
            return f"{pad}ret ({parts[0][1]}, {parts[1][1]})"
        b, c, ty = self.expr(v, env)
        if ty != T_MV or not b or b[-1][0] != c:
            bad(st, "return value")
        return "".join(f"{pad}{x} <- {e} ;;\n" for x, e in b[:-1]) + f"{pad}{b[-1][1]}"

    def for_loop(self, st, rest, env, ind, tail):
        pad = " " * ind
        if st.orelse or not isinstance(st.target, ast.Name) or not isinstance(st.iter, ast.Name) or st.iter.id not in env:
            bad(st, "for loop shape")
        if env[st.iter.id] != T_LIST(T_STR):
            bad(st, "only loops over a list of str are modelled")
        for s2 in ast.walk(ast.Module(body=st.body, type_ignores=[])):
            if isinstance(s2, (ast.Break, ast.Return, ast.For, ast.While)):
                bad(st, "break / return / nested loop in a loop body")
            if isinstance(s2, ast.Name) and s2.id == st.iter.id:
                bad(st, "the loop body mentions the list it iterates")
        state = [v for v in self.assigned(st.body) if v in env and v != st.target.id]
        if len(state) != 1:
            bad(st, f"loop state {state}: exactly one variable is modelled")
        sv = state[0]
        # the element type of the state list is fixed by the first append in the body
        self.nloop += 1
        fn = f"parse_for{self.nloop}"
        rec = f"{fn} rest_ {self.name(sv)}"
        env_body = dict(env)
        env_body[st.target.id] = T_STR
        env_body["__continue__"] = lambda e: rec
        holder = {}

        def end_of_body(env2, ind2):
            holder["ty"] = env2[sv]
            return " " * ind2 + rec
        body = self.block(st.body, env_body, 4, end_of_body)
        sty = holder["ty"]
        if sty != T_LIST(T_MV):
            bad(st, f"loop state type {sty}")
        self.loops.append(
            f"Fixpoint {fn} (tokens_ : list (list Z)) ({self.name(sv)} : list mv) {{struct tokens_}} : res (list mv) :=\n"
            f"  match tokens_ with\n  | [] => ret {self.name(sv)}\n  | {self.name(st.target.id)} :: rest_ =>\n{body}\n  end.\n")
        env = dict(env)
        env[sv] = sty
        return f"{pad}{self.name(sv)} <- {fn} {self.name(st.iter.id)} {self.name(sv)} ;;\n" + self.block(rest, env, ind, tail)

    # ----- top level -----
    def find(self):
        fn_pm = cls_ptn = None
        for n in self.tree.body:
            if isinstance(n, ast.FunctionDef) and n.name == "parse_move":
                fn_pm = n
            if isinstance(n, ast.ClassDef) and n.name == "PTN":
                cls_ptn = n
        if fn_pm is None or cls_ptn is None:
            raise Untranslatable("parse_move / class PTN not found")
        fn_parse = None
        for n in cls_ptn.body:
            if isinstance(n, ast.FunctionDef) and n.name == "parse":
                fn_parse = n
        if fn_parse is None:
            raise Untranslatable("PTN.parse not found")
        if [ast.dump(d) for d in fn_parse.decorator_list] != [ast.dump(ast.Name(id="classmethod", ctx=ast.Load()))]:
            raise Untranslatable("PTN.parse must be a plain classmethod")
        return fn_pm, fn_parse

    def dict_literal(self, name):
        for n in self.tree.body:
            if isinstance(n, ast.Assign) and len(n.targets) == 1 and isinstance(n.targets[0], ast.Name) and n.targets[0].id == name:
                if not isinstance(n.value, ast.Dict):
                    bad(n, f"{name} must be a dict literal")
                items = []
                for k, v in zip(n.value.keys, n.value.values):
                    ok = (isinstance(k, ast.Constant) and isinstance(k.value, str) and isinstance(v, ast.Attribute)
                          and isinstance(v.value, ast.Attribute) and v.value.attr == "MoveType"
                          and isinstance(v.value.value, ast.Name) and v.value.value.id == "tak" and v.attr in MOVETYPES)
                    if not ok:
                        bad(n, f"{name}: entries must be <str literal>: tak.MoveType.<NAME>")
                    items.append(f"({coq_str(k.value)}, {MOVETYPES[v.attr]})")
                keys = [k.value for k in n.value.keys]
                if len(set(keys)) != len(keys):
                    bad(n, f"{name}: repeated key in a dict literal")
                self.dicts[name] = (T_STR, T_MTYPE)
                return (f"(* ptn.py: {name} (a dict literal; looked up with py_dict_get, KeyError when absent) *)\n"
                        f"Definition {name} : list (list Z * mtype) :=\n  [" + ";\n   ".join(items) + "].\n")
        raise Untranslatable(f"{name} not found")

    def function(self, fn, params, result):
        if fn.args.vararg or fn.args.kwarg or fn.args.kwonlyargs or fn.args.defaults or [a.arg for a in fn.args.args] != [p for p, _ in params]:
            bad(fn, "signature")
        env = {p: t for p, t in params if t is not None}
        self.loops = []
        body = [s for s in fn.body if not (isinstance(s, ast.Expr) and isinstance(s.value, ast.Constant))]

        def no_fallthrough(env2, ind2):
            raise Untranslatable(f"{fn.name}: control reaches the end of the function without return")
        text = self.block(body, env, 2, no_fallthrough)
        return text

    def run(self):
        fn_pm, fn_parse = self.find()
        out = [self.dict_literal("slide_map"), self.dict_literal("place_map")]
        pm = self.function(fn_pm, [("move", T_STR)], T_MV)
        if self.loops:
            raise Untranslatable("a loop in parse_move")
        pm_text = f"(* ptn.py: parse_move *)\nDefinition parse_move ({self.name('move')} : list Z) : res mv :=\n{pm}.\n"
        pg = self.function(fn_parse, [("cls", None), ("text", T_STR)], None)
        pg_text = "(* ptn.py: PTN.parse; the result cls(tags=, moves=) is the pair (items of the dict in order, moves) *)\n" + \
                  "".join(self.loops) + \
                  f"Definition parse (text : list Z) : res (list (list Z * list Z) * list mv) :=\n{pg}.\n"
        res = []
        for k, (term, src) in enumerate(self.regexes):
            res.append(f"Definition re_{k} : regex :=\n  {term}.\n"
                       f"Definition re_{k}_src : list Z := [{'; '.join(str(ord(c)) for c in src)}].\n")
        return "\n".join(["(* the regular-expression literals, in the order the translation meets them *)\n" + "".join(res)] + out + [pm_text, pg_text])


HEADER = """(* GENERATED by harness/ptn2coq.py from python/tak/ptn/ptn.py of the tree under test - do not edit.
   parse_move, PTN.parse, slide_map, place_map, written against model/PySem.v and model/PtnSem.v; the regular
   expressions are terms of spec/RegexSpec.v parsed from the pattern literals (re_k with their source text re_k_src).
   sha256 of the source: %s *)
From Coq Require Import ZArith String List Bool.
From TV Require Import model.Tak model.Road model.PySem model.Ptn spec.RegexSpec model.PtnSem.
Import ListNotations.
Open Scope Z_scope.

"""


def translate(repo_python):
    """(coq text, error or None); on failure the text is a stub without the generated names"""
    src_path = Path(repo_python) / "tak" / "ptn" / "ptn.py"
    try:
        src = src_path.read_text(encoding="utf-8")
    except OSError as e:
        return HEADER % "unreadable" + "(* translation failed: source unreadable *)\nDefinition translation_failed := tt.\n", repr(e)
    sha = hashlib.sha256(src.encode()).hexdigest()[:16]
    try:
        body = Tr(src).run()
        return HEADER % sha + body, None
    except Untranslatable as e:
        msg = str(e).replace("*)", "* )").replace("(*", "( *").replace('"', "'")
        return HEADER % sha + f"(* translation failed: {msg} *)\nDefinition translation_failed := tt.\n", str(e)
    except (SyntaxError, RecursionError, KeyError, IndexError, TypeError, AttributeError, ValueError) as e:  # fail closed on anything
        return HEADER % sha + "(* translation failed: internal error *)\nDefinition translation_failed := tt.\n", "internal: " + repr(e)


def main():
    text, err = translate(sys.argv[1] if len(sys.argv) > 1 else "/repo/python")
    sys.stdout.write(text)
    if err:
        sys.stderr.write("TRANSLATION FAILED: " + err + "\n")
        return 1
    return 0


if __name__ == "__main__":
    sys.exit(main())
