"""Picklable engine factories for the C18 correspondence (imported by the
spawned self-play workers: /verif is on the child PYTHONPATH).

A `Factory` builds a real `tak.mcts.MCTS` over a cheap uniform evaluator and
injects the fault described by its `fault` dict:

  {"kind": "none"}
  {"kind": "factory_raise", "which": [j, ...]}   the j-th factory call (global order) raises
  {"kind": "eval_raise",   "k": k}                the k-th evaluation (global counter) raises
  {"kind": "eval_exit",    "k": k, "code": 3}     ... calls os._exit(code)
  {"kind": "eval_sigkill", "k": k}                ... sends SIGKILL to its own process
  {"kind": "eval_keyboardinterrupt", "k": k}      ... raises KeyboardInterrupt (a BaseException that is not an Exception)
  {"kind": "sigint",       "k": k}                ... sends SIGINT to its own process while it plays (KeyboardInterrupt
                                                   is raised asynchronously in the main thread)
  {"kind": "eval_sysexit0","k": k}                ... raises SystemExit(0)   (probe only)
  {"kind": "torn_put",     "game": g}             the worker is SIGKILLed while the feeder thread of
                                                   the `games` queue is in the middle of writing its
                                                   g-th finished game (probe only)

Every observable worker event is appended (one O_APPEND write per line, so a
SIGKILL cannot lose a line that was written) to `log_path`:
  {"w": worker index, "ev": "factory"|"ready"|"take"|"fault"|"hold", ...}
The id a game was started for is read from run_job's frame (`id = job.cmd.get()`),
and travels back to the parent in the transcript's `stats` (a `TagStats`)."""
import json
import os
import signal
import sys
import time

import multiprocessing

from attrs import define

from tak import mcts  # needs core.setup_impl(ext=True, shims=True) / child_env PYTHONPATH


def _worker_index():
    name = multiprocessing.current_process().name
    try:
        return int(name.rsplit("-", 1)[1])
    except Exception:
        return -1


def _run_job_frame():
    f = sys._getframe(1)
    while f is not None:
        if f.f_code.co_name == "run_job" and "job" in f.f_locals:
            return f
        f = f.f_back
    return None


def make_shared():
    ctx = multiprocessing.get_context("spawn")
    return {"evals": ctx.Value("i", 0), "factories": ctx.Value("i", 0),
            "gate": ctx.Event(), "gate2": ctx.Event()}


class Factory:
    def __init__(self, log_path, fault, shared, sims=2, settle=0.3, hold=None, payload=0):
        self.log_path = log_path
        self.fault = dict(fault)
        self.shared = shared
        self.sims = sims
        self.settle = settle        # pause before an abrupt self-inflicted death: lets the queue feeder flush
        self.hold = hold            # {"worker": i or None (any), "game": g}: block the worker at the start of its g-th game until gate is set
        self.payload = payload      # extra bytes carried by every transcript (torn_put probe)

    def log(self, ev, **kw):
        self.log_as(_worker_index(), ev, **kw)

    def log_as(self, w, ev, **kw):
        rec = dict(kw, ev=ev, w=w, t=time.monotonic())
        fd = os.open(self.log_path, os.O_WRONLY | os.O_APPEND | os.O_CREAT, 0o644)
        try:
            os.write(fd, (json.dumps(rec) + "\n").encode())
        finally:
            os.close(fd)

    def __call__(self):
        with self.shared["factories"].get_lock():
            j = self.shared["factories"].value
            self.shared["factories"].value = j + 1
        self.log("factory", j=j)
        if self.fault.get("kind") == "factory_raise" and j in self.fault.get("which", []):
            self.log("fault", kind="raise", where="factory")
            raise RuntimeError("injected: engine factory failed")
        engine = TagEngine(mcts.Config(time_limit=0, simulation_limit=self.sims), UniformNet(self), self)
        self.log("ready")
        return engine


class UniformNet:
    def __init__(self, factory):
        self.factory = factory
        self.probs = None

    def evaluate(self, position):
        import torch
        from tak.model import encoding
        fac = self.factory
        with fac.shared["evals"].get_lock():
            n = fac.shared["evals"].value
            fac.shared["evals"].value = n + 1
        kind = fac.fault.get("kind")
        if kind in ("eval_keyboardinterrupt", "sigint") and n == fac.fault.get("k"):
            # not an Exception: leaves entrypoint; multiprocessing prints the traceback, exit status 1
            fac.log("fault", kind="raise", where="eval", n=n, exc="KeyboardInterrupt", via=kind)
            if kind == "eval_keyboardinterrupt":
                raise KeyboardInterrupt()
            os.kill(os.getpid(), signal.SIGINT)
            time.sleep(30)          # the interrupt arrives here
            raise RuntimeError("SIGINT was not delivered")
        if kind in ("eval_raise", "eval_exit", "eval_sigkill", "eval_sysexit0") and n == fac.fault.get("k"):
            if kind == "eval_raise":
                fac.log("fault", kind="raise", where="eval", n=n)
                raise ValueError("injected: evaluation %d failed" % n)
            if kind == "eval_sysexit0":
                fac.log("fault", kind="sysexit0", where="eval", n=n)
                raise SystemExit(0)
            time.sleep(fac.settle)
            if kind == "eval_exit":
                code = int(fac.fault.get("code", 3))
                fac.log("fault", kind="kill", code=code, where="eval", n=n)
                os._exit(code)
            fac.log("fault", kind="kill", code=-9, where="eval", n=n)
            os.kill(os.getpid(), signal.SIGKILL)
            time.sleep(60)
        if self.probs is None:
            self.probs = torch.full((encoding.MAX_MOVE_ID,), 1.0 / encoding.MAX_MOVE_ID)
        return self.probs.clone(), 0.0


@define
class TagStats(mcts.Stats):
    game_id: int = -1
    worker: int = -1
    blob: bytes = b""


class TagEngine:
    """a real tak.mcts.MCTS that tags each game with the id it was started for"""

    def __init__(self, config, network, factory):
        self.inner = mcts.MCTS(config, network)
        self.factory = factory
        self.games_started = 0

    @property
    def stats(self):
        return self.inner.stats

    @stats.setter
    def stats(self, v):
        self.inner.stats = v

    def tree_probs(self, tree):
        return self.inner.tree_probs(tree)

    def analyze(self, p):
        if p.ply == 0:
            fr = _run_job_frame()
            gid = fr.f_locals.get("id") if fr is not None else None
            fac = self.factory
            g = self.games_started
            self.games_started += 1
            fac.log("take", id=gid, game=g)
            self.inner.stats = TagStats(game_id=-1 if gid is None else int(gid), worker=_worker_index(),
                                        blob=b"x" * fac.payload)
            if fac.hold and fac.hold.get("worker") in (None, _worker_index()) and fac.hold.get("game") == g:
                fac.log("hold", id=gid)
                fac.shared["gate"].wait()
            if fac.fault.get("kind") == "torn_put" and fac.fault.get("game") == g and fr is not None:
                _arm_torn_put(fr.f_locals["job"], fac)
        return self.inner.analyze(p)


def _arm_torn_put(job, fac):
    """SIGKILL this process as soon as bytes of the next message appear in the `games` pipe while
    the message (much larger than the pipe) cannot have been written completely"""
    import array
    import fcntl
    import termios
    import threading

    fd = job.games._writer.fileno()

    def watch():
        buf = array.array("i", [0])
        while True:
            fcntl.ioctl(fd, termios.FIONREAD, buf)
            if buf[0] > 0:
                fac.log("fault", kind="kill", code=-9, where="put", inpipe=int(buf[0]))
                os.kill(os.getpid(), signal.SIGKILL)
            time.sleep(0.0002)

    threading.Thread(target=watch, daemon=True).start()
