"""Run the quick checks against the seeded breaking changes in /verif/seeded/<name>/.

  python -m harness.seeded [name ...]          # default: all

For each seeded change: a scratch git worktree of /repo (outside /repo and
/verif) gets patch.diff applied; a private copy of /verif (so that the
regenerated constants and build output of the real /verif are not disturbed)
runs `./check <property>` with VERIF_REPO pointing at the worktree.  Expected:
exit 1 and a VIOLATION line.  Everything scratch is removed afterwards.
Results are written to seeded/RESULTS.json."""
import json
import os
import shutil
import subprocess
import sys
import tempfile
import time
from pathlib import Path

VERIF = Path(__file__).resolve().parents[1]
REPO = Path("/repo")


def run_one(name, keep=False):
    d = VERIF / "seeded" / name
    meta = json.load(open(d / "meta.json"))
    props = meta["checks"] if "checks" in meta else [meta["property"]]
    scratch = Path(tempfile.mkdtemp(prefix=f"seeded_{name}_", dir="/root/work"))
    wt = scratch / "repo"
    priv = scratch / "verif"
    res = {"name": name, "property": meta["property"], "results": {}}
    try:
        subprocess.run(["git", "-C", str(REPO), "worktree", "add", "--detach", str(wt), "HEAD", "-q"], check=True,
                       capture_output=True)
        r = subprocess.run(["git", "-C", str(wt), "apply", str(d / "patch.diff")], capture_output=True, text=True)
        if r.returncode != 0:
            res["error"] = "patch does not apply: " + r.stderr[-500:]
            return res
        subprocess.run(["rsync", "-a", "--exclude", ".git", "--exclude", "replays", "--exclude", "build/*/cases",
                        str(VERIF) + "/", str(priv) + "/"], check=True)
        for pid in props:
            t0 = time.time()
            env = dict(os.environ, VERIF_REPO=str(wt))
            p = subprocess.run(["./check", pid, "--tier", "quick"], cwd=priv, env=env, capture_output=True, text=True,
                               timeout=3600)
            lines = [l for l in p.stdout.splitlines() if l.startswith("VIOLATION") or l.startswith("KNOWN-FINDING")]
            rep = None
            for l in lines:
                if "replay=" in l:
                    path = priv / l.split("replay=")[1].split()[0]
                    if path.exists():
                        rep = json.load(open(path))
                        break
            res["results"][pid] = {
                "exit": p.returncode, "violation_lines": lines[:5],
                "caught": p.returncode == 1 and any(l.startswith("VIOLATION") for l in lines),
                "with_failing_input": any(l.startswith("VIOLATION") and "no-failing-input-found" not in l for l in lines),
                "replay_excerpt": json.dumps(rep, default=str)[:1200] if rep else None,
                "summary": p.stdout.strip().splitlines()[-1] if p.stdout.strip() else p.stderr[-300:],
                "wall_s": round(time.time() - t0, 1),
            }
    finally:
        subprocess.run(["git", "-C", str(REPO), "worktree", "remove", "--force", str(wt)], capture_output=True)
        if not keep:
            shutil.rmtree(scratch, ignore_errors=True)
    return res


def main():
    names = sys.argv[1:] or sorted(p.name for p in (VERIF / "seeded").iterdir() if (p / "meta.json").exists())
    Path("/root/work").mkdir(exist_ok=True)
    out = []
    for n in names:
        r = run_one(n)
        out.append(r)
        for pid, rr in r.get("results", {}).items():
            print(f"{n:32s} {pid} caught={rr['caught']} input={rr['with_failing_input']} {rr['wall_s']}s  {rr['summary'][:100]}")
        if "error" in r:
            print(f"{n:32s} ERROR {r['error']}")
    f = VERIF / "seeded" / "RESULTS.json"
    old = {}
    if f.exists():
        old = {r["name"]: r for r in json.load(open(f))}
    for r in out:
        old[r["name"]] = r
    f.write_text(json.dumps(sorted(old.values(), key=lambda r: r["name"]), indent=1))


if __name__ == "__main__":
    main()
