#!/bin/bash
# Independent re-check of the compiled development with coqchk (slow: minutes, GBs).
# usage: harness/coqchk.sh [C07 ...]   (default: every props/*.vo that exists)
cd "$(dirname "$0")/../coq"
if [ $# -eq 0 ]; then set -- $(ls props/*.vo | sed 's#props/##; s#\.vo##'); fi
mkdir -p ../build
for p in "$@"; do
  echo "== coqchk props/$p"
  timeout 3000 coqchk -silent -o -Q . TV TV.props.$p 2>&1 | tail -40 | tee ../build/coqchk_$p.log
done
