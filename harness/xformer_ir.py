"""C16 translator (T): python `ast` of the CURRENT source -> coq/gen/XformerIR.v.

A purely syntactic transliteration of
  * the `forward` methods and `__init__` member tables of Resblock, Torso,
    PositionalEncoding, LearnedPositionalEncoding, TextEmbedding, Transformer,
    TextUnembedding (xformer/model.py) and PolicyValue (tak/model/heads.py),
    and of `ar_mask`;
  * the mask producers: encoding._encode_batch (data["mask"]), the batch
    classes of tak/model/batches.py and tak/alphazero/data.py (`~self.mask`),
    Server.run_model (`mask[i, len:].fill_(1)`), ModelWrapper.evaluate (no
    mask), and the call sites `model(batch.inputs, *batch.extra_inputs)`
into the IR of coq/model/Attention.v.  Local variable names are kept (the Coq
denotation is an interpreter with an environment, so renaming a local is
harmless).  Fail-closed: any node shape not listed here raises Unrecognised;
nothing is guessed.  The meaning of the IR is given in Coq, not here."""
import ast
from pathlib import Path

from . import core


class Unrecognised(Exception):
    def __init__(self, where, node, why=""):
        self.where = where
        src = ast.unparse(node) if isinstance(node, ast.AST) else str(node)
        super().__init__(f"{where}: unrecognised source shape {why}: `{src[:160]}`"
                         + (f" (line {node.lineno})" if hasattr(node, "lineno") else ""))


def qs(s):
    return '"' + str(s).replace('"', '""') + '"'


def cl(items):
    return "[" + "; ".join(items) + "]"


def cz(n):
    return str(n) if n >= 0 else f"({n})%Z"


def is_self(n, attr=None):
    return (isinstance(n, ast.Attribute) and isinstance(n.value, ast.Name) and n.value.id == "self"
            and (attr is None or n.attr == attr))


def int_const(n):
    if isinstance(n, ast.Constant) and type(n.value) is int:
        return n.value
    if isinstance(n, ast.UnaryOp) and isinstance(n.op, ast.USub) and isinstance(n.operand, ast.Constant) \
            and type(n.operand.value) is int:
        return -n.operand.value
    return None


def full_slice(s):
    return isinstance(s, ast.Slice) and s.lower is None and s.upper is None and s.step is None


def upto(s):
    """`: n` -> n"""
    return s.upper if isinstance(s, ast.Slice) and s.lower is None and s.step is None and s.upper is not None else None


class Method:
    """one forward method (or lambda) -> Coq `method`"""

    def __init__(self, where):
        self.where, self.loopvar = where, None

    def bad(self, n, why=""):
        raise Unrecognised(self.where, n, why)

    def expr(self, n):
        E = self.expr
        if isinstance(n, ast.Name):
            return f"EVar {qs(n.id)}"
        if isinstance(n, ast.Constant) and n.value is None:
            return "ENone"
        if is_self(n):
            return f"ESelf {qs(n.attr)}"
        if isinstance(n, ast.BinOp) and isinstance(n.op, ast.Add):
            return f"EAdd ({E(n.left)}) ({E(n.right)})"
        if isinstance(n, ast.Dict) and all(isinstance(k, ast.Constant) and isinstance(k.value, str) for k in n.keys):
            return "EDict " + cl([f"({qs(k.value)}, {E(v)})" for k, v in zip(n.keys, n.values)])
        if isinstance(n, ast.Subscript):
            s = n.slice
            if upto(s) is not None:
                return f"ERows ({E(n.value)}) ({E(upto(s))})"
            if isinstance(s, ast.Tuple) and len(s.elts) == 2:
                a, b = s.elts
                if upto(a) is not None and upto(b) is not None:
                    return f"ESquare ({E(n.value)}) ({E(upto(a))}) ({E(upto(b))})"
                if full_slice(a) and int_const(b) is not None:
                    return f"ETok ({E(n.value)}) {cz(int_const(b))}"
            self.bad(n, "subscript")
        if isinstance(n, ast.Call):
            f, kws = n.func, {k.arg: k.value for k in n.keywords}
            if any(isinstance(a, ast.Starred) for a in n.args) or None in kws:
                self.bad(n, "star arguments")
            if is_self(f) and len(n.args) == 3 and set(kws) == {"attn_mask", "key_padding_mask"}:
                q, k, v = (E(a) for a in n.args)
                return f"EAttn {qs(f.attr)} ({q}) ({k}) ({v}) ({E(kws['attn_mask'])}) ({E(kws['key_padding_mask'])})"
            if kws:
                self.bad(n, "keyword arguments")
            if is_self(f):
                return f"ECall {qs(f.attr)} " + cl([E(a) for a in n.args])
            if isinstance(f, ast.Name) and f.id == self.loopvar:
                return "ECallLayer " + cl([E(a) for a in n.args])
            if isinstance(f, ast.Attribute) and isinstance(f.value, ast.Name) and f.value.id == "torch" and len(n.args) == 1:
                return f"EFun {qs(f.attr)} ({E(n.args[0])})"
            if isinstance(f, ast.Attribute) and f.attr in ("size", "squeeze") and len(n.args) == 1 \
                    and int_const(n.args[0]) is not None:
                return f"{'ESize' if f.attr == 'size' else 'ESqueeze'} ({E(f.value)}) {cz(int_const(n.args[0]))}"
            self.bad(n, "call")
        self.bad(n, "expression")

    def stmts(self, body):
        out = []
        for s in body:
            if isinstance(s, ast.Expr) and isinstance(s.value, ast.Constant) and isinstance(s.value.value, str):
                continue  # docstring
            out.append(self.stmt(s))
        return cl(out)

    def stmt(self, s):
        if isinstance(s, ast.Return) and s.value is not None:
            return f"SReturn ({self.expr(s.value)})"
        if isinstance(s, ast.Assign) and len(s.targets) == 1:
            t = s.targets[0]
            if isinstance(t, ast.Name):
                return f"SAssign {qs(t.id)} ({self.expr(s.value)})"
            if isinstance(t, ast.Tuple) and all(isinstance(e, ast.Name) for e in t.elts):
                names = [e.id for e in t.elts]
                if isinstance(s.value, ast.Attribute) and s.value.attr == "shape":
                    return f"SShape {cl([qs(x) for x in names])} ({self.expr(s.value.value)})"
                if len(names) == 2:
                    return f"SAssign2 {qs(names[0])} {qs(names[1])} ({self.expr(s.value)})"
        if isinstance(s, ast.If) and isinstance(s.test, ast.Call) and isinstance(s.test.func, ast.Name) \
                and s.test.func.id == "hasattr" and len(s.test.args) == 2 and isinstance(s.test.args[0], ast.Name) \
                and s.test.args[0].id == "self" and isinstance(s.test.args[1], ast.Constant):
            return f"SIfHasAttr {qs(s.test.args[1].value)} {self.stmts(s.body)} {self.stmts(s.orelse)}"
        if isinstance(s, ast.For) and isinstance(s.target, ast.Name) and is_self(s.iter, "layers") and not s.orelse \
                and self.loopvar is None:
            self.loopvar = s.target.id
            body = self.stmts(s.body)
            self.loopvar = None
            return f"SForLayers {body}"
        self.bad(s, "statement")

    def method(self, fn):
        a = fn.args
        if a.vararg or a.kwarg or a.kwonlyargs or a.posonlyargs:
            self.bad(fn, "parameter list")
        params = list(a.args)
        if isinstance(fn, ast.FunctionDef):
            if not params or params[0].arg != "self":
                self.bad(fn, "first parameter is not self")
            params = params[1:]
        defaults = [None] * (len(params) - len(a.defaults)) + list(a.defaults)
        ps = cl([f"({qs(p.arg)}, {'None' if d is None else 'Some (' + self.expr(d) + ')'})" for p, d in zip(params, defaults)])
        body = cl([f"SReturn ({self.expr(fn.body)})"]) if isinstance(fn, ast.Lambda) else self.stmts(fn.body)
        return f"{{| m_params := {ps}; m_body := {body} |}}"


def nn_cls(call):
    f = call.func
    if isinstance(f, ast.Attribute) and isinstance(f.value, ast.Name) and f.value.id == "nn":
        return f.attr
    return None


def member_kind(where, v, classes, lambdas):
    """right-hand side of `self.<attr> = v` in __init__ -> Coq member_kind"""
    if isinstance(v, ast.Lambda):
        lambdas.append(v)
        return "lambda"
    if not isinstance(v, ast.Call):
        raise Unrecognised(where, v, "member initialiser")
    c = nn_cls(v)
    kw = {k.arg: k.value for k in v.keywords}
    if c in ("LayerNorm", "ReLU"):
        return f"KTokenOp {qs(c)}"
    if c == "Linear" and len(v.args) == 2:
        return f"KLinearOut {qs(ast.unparse(v.args[1]))}"
    if c == "Embedding":
        return "KEmbedding"
    if c == "MultiheadAttention":
        bf = kw.get("batch_first")
        return f"KAttention {'true' if isinstance(bf, ast.Constant) and bf.value is True else 'false'}"
    if c == "Parameter":
        return "KBuffer"
    if c == "ModuleList" and len(v.args) == 1 and isinstance(v.args[0], ast.ListComp):
        lc = v.args[0]
        g = lc.generators[0]
        if (len(lc.generators) == 1 and isinstance(lc.elt, ast.Call) and isinstance(lc.elt.func, ast.Name)
                and lc.elt.func.id in classes and not g.ifs and ast.unparse(g.iter) == "range(cfg.n_layer)"):
            return f"KLayers {qs(lc.elt.func.id)}"
    if isinstance(v.func, ast.Name) and v.func.id in classes and v.args and ast.unparse(v.args[0]) == "cfg":
        return f"KModule {qs(v.func.id)}"
    if isinstance(v.func, ast.Name) and v.func.id in classes and "d_model" in kw:   # PositionalEncoding(d_model=..., ...)
        return f"KModule {qs(v.func.id)}"
    if ast.unparse(v.func) == "cfg.output_head" and v.args and ast.unparse(v.args[0]) == "cfg":
        return "KCfgHead"
    raise Unrecognised(where, v, "member initialiser")


def init_table(where, cls, classes, lambdas):
    """__init__ -> list (attr, member_kind); assignments to local names bind no member and are skipped"""
    init = next((f for f in cls.body if isinstance(f, ast.FunctionDef) and f.name == "__init__"), None)
    if init is None:
        raise Unrecognised(where, cls, "no __init__")
    rows = []

    def self_assign(s):
        return (isinstance(s, ast.Assign) and len(s.targets) == 1 and is_self(s.targets[0])) and s.targets[0].attr

    for s in init.body:
        if isinstance(s, ast.Expr) and ast.unparse(s.value) == "super().__init__()":
            continue
        if isinstance(s, ast.Expr) and isinstance(s.value, ast.Call) and is_self(s.value.func, "register_buffer") \
                and isinstance(s.value.args[0], ast.Constant):
            rows.append((s.value.args[0].value, "KBuffer"))
            continue
        if isinstance(s, ast.Assign) and all(not any(is_self(x) for x in ast.walk(t)) for t in s.targets):
            continue  # local tensor arithmetic (pe table construction)
        a = self_assign(s)
        if a and ast.unparse(s.value) == "cfg":
            continue  # self.cfg = cfg
        if a:
            rows.append((a, member_kind(where, s.value, classes, lambdas)))
            continue
        if isinstance(s, ast.If):
            t = s.test
            if ast.unparse(t).startswith("cfg.") and isinstance(t, ast.Attribute) and len(s.body) == 1 and not s.orelse \
                    and self_assign(s.body[0]) and isinstance(s.body[0].value, ast.Call) \
                    and isinstance(s.body[0].value.func, ast.Name) and ast.unparse(s.body[0].value.args[0]) == "cfg.n_ctx":
                rows.append((self_assign(s.body[0]), f"KIfCfg {qs(t.attr)} {qs(s.body[0].value.func.id)}"))
                continue
            alts, node, attr, field = [], s, None, None
            while isinstance(node, ast.If):
                t = node.test
                ok = (isinstance(t, ast.Compare) and len(t.ops) == 1 and isinstance(t.ops[0], ast.Eq)
                      and isinstance(t.left, ast.Attribute) and ast.unparse(t.left.value) == "cfg"
                      and isinstance(t.comparators[0], ast.Constant) and len(node.body) == 1 and self_assign(node.body[0]))
                if not ok or (attr and (self_assign(node.body[0]) != attr or t.left.attr != field)):
                    raise Unrecognised(where, node, "configuration switch")
                attr, field = self_assign(node.body[0]), t.left.attr
                k = member_kind(where, node.body[0].value, classes, lambdas)
                alts.append((t.comparators[0].value, k.split('"')[1] if k.startswith("KModule") else k))
                rest = node.orelse
                node = rest[0] if len(rest) == 1 and isinstance(rest[0], ast.If) else None
                if node is None and not (len(rest) == 1 and isinstance(rest[0], ast.Raise)):
                    raise Unrecognised(where, s, "configuration switch without a final raise")
            rows.append((attr, f"KByCfg {qs(field)} " + cl([f"({qs(a)}, {qs(b)})" for a, b in alts])))
            continue
        raise Unrecognised(where, s, "__init__ statement")
    return cl([f"({qs(a)}, {k})" for a, k in rows])


# ---------------------------------------------------------------- masks
class Masks:
    def __init__(self, where, lenexprs):
        self.where, self.lenexprs = where, lenexprs

    def bound(self, n, dflt):
        if n is None:
            return dflt
        if ast.unparse(n) in self.lenexprs:
            return "BLen"
        raise Unrecognised(self.where, n, "slice bound")

    def fill(self, target, value):
        """`m[i, lo:hi]` filled with constant 1 -> MZerosFill"""
        s = target.slice
        if not (isinstance(target, ast.Subscript) and isinstance(s, ast.Tuple) and len(s.elts) == 2
                and isinstance(s.elts[0], ast.Name) and isinstance(s.elts[1], ast.Slice) and s.elts[1].step is None
                and int_const(value) in (0, 1) and type(int_const(value)) is int):
            raise Unrecognised(self.where, target, "mask fill")
        sl = s.elts[1]
        return f"MZerosFill {self.bound(sl.lower, 'BStart')} {self.bound(sl.upper, 'BEnd')} {'true' if int_const(value) else 'false'}"


def prop_return(where, cls, name):
    f = next((f for f in cls.body if isinstance(f, ast.FunctionDef) and f.name == name), None)
    body = [s for s in f.body if not (isinstance(s, ast.Expr) and isinstance(s.value, ast.Constant))] if f else []
    if len(body) != 1 or not isinstance(body[0], ast.Return):
        raise Unrecognised(where, f or cls, f"property {name}")
    return body[0].value


def batch_class(where, cls):
    """(inputs trimmed?, mask expression) of a batch class"""
    def data(n, key):
        """self.data[key] or self.data[key][:, :-1] -> trimmed?"""
        if isinstance(n, ast.Subscript) and ast.unparse(n.value) == "self.data" and isinstance(n.slice, ast.Constant) \
                and n.slice.value == key:
            return False
        if isinstance(n, ast.Subscript) and isinstance(n.slice, ast.Tuple) and len(n.slice.elts) == 2 \
                and full_slice(n.slice.elts[0]) and ast.unparse(n.slice.elts[1]) == ":-1" and data(n.value, key) is False:
            return True
        raise Unrecognised(where, n, f"data[{key!r}] access")

    trim_in = data(prop_return(where, cls, "inputs"), "positions")
    trim_mask = data(prop_return(where, cls, "mask"), "mask")
    if trim_in != trim_mask:
        raise Unrecognised(where, cls, "inputs and mask are trimmed differently")
    x = prop_return(where, cls, "extra_inputs")
    if not (isinstance(x, ast.Tuple) and len(x.elts) == 1):
        raise Unrecognised(where, x, "extra_inputs is not a 1-tuple")
    e, neg = x.elts[0], 0
    while isinstance(e, ast.UnaryOp) and isinstance(e.op, ast.Invert):
        e, neg = e.operand, neg + 1
    if not is_self(e, "mask"):
        raise Unrecognised(where, x, "extra_inputs element")
    m = "MDropLast data_mask" if trim_mask else "data_mask"
    for _ in range(neg):
        m = f"MNot ({m})"
    return m


def zeros_like_dtype(where, node, like):
    """`torch.zeros_like(<like>, dtype=D)` -> source text of D (the KIND of the mask is a tie fact, not checked here)"""
    if (isinstance(node, ast.Call) and ast.unparse(node.func) == "torch.zeros_like" and len(node.args) == 1
            and ast.unparse(node.args[0]) == like and [k.arg for k in node.keywords] == ["dtype"]):
        return ast.unparse(node.keywords[0].value)
    raise Unrecognised(where, node, "mask allocation")


def find(tree, kind, name, where):
    for n in ast.walk(tree):
        if isinstance(n, kind) and n.name == name:
            return n
    raise Unrecognised(where, name, "definition not found")


def translate(repo):
    py = Path(repo) / "python"
    trees = {}

    def tree(rel):
        if rel not in trees:
            trees[rel] = ast.parse((py / rel).read_text())
        return trees[rel]

    out = ["(* GENERATED by harness/xformer_ir.py from the source under test. Do not edit. *)",
           "From Coq Require Import String List ZArith.", "From TV Require Import model.Attention.",
           "Import ListNotations.", "Open Scope string_scope.", ""]
    w = out.append
    M = "xformer/model.py"
    classes = {c.name for c in tree(M).body if isinstance(c, ast.ClassDef)}
    lambdas = []
    for cname, rel, ident in [("Resblock", M, "resblock"), ("Torso", M, "torso"), ("PositionalEncoding", M, "posenc_sin"),
                              ("LearnedPositionalEncoding", M, "posenc_learned"), ("TextEmbedding", M, "text_embedding"),
                              ("Transformer", M, "transformer"), ("TextUnembedding", M, "text_unembedding"),
                              ("PolicyValue", "tak/model/heads.py", "policy_value")]:
        where = f"{rel}:{cname}"
        cls = find(tree(rel), ast.ClassDef, cname, where)
        fwd = next((f for f in cls.body if isinstance(f, ast.FunctionDef) and f.name == "forward"), None)
        if fwd is None:
            raise Unrecognised(where, cls, "no forward")
        w(f"Definition {ident}_forward : method := {Method(where + '.forward').method(fwd)}.")
        w(f"Definition {ident}_init : list (string * member_kind) := {init_table(where + '.__init__', cls, classes, lambdas)}.")
    if len(lambdas) != 1:
        raise Unrecognised(M + ":TextEmbedding.__init__", str(len(lambdas)), "expected exactly one lambda member")
    w(f"Definition posenc_none_forward : method := {Method(M + ':TextEmbedding.__init__.lambda').method(lambdas[0])}.")
    # ar_mask
    where = M + ":ar_mask"
    f = find(tree(M), ast.FunctionDef, "ar_mask", where)
    r = f.body[-1]
    ok = (len(f.body) == 1 and isinstance(r, ast.Return) and isinstance(r.value, ast.Call)
          and ast.unparse(r.value.func) == "torch.triu" and len(r.value.args) == 1
          and [k.arg for k in r.value.keywords] == ["diagonal"] and int_const(r.value.keywords[0].value) is not None)
    if ok:
        ones = r.value.args[0]
        n0 = f.args.args[0].arg
        ok = (isinstance(ones, ast.Call) and ast.unparse(ones.func) == "torch.ones"
              and ast.unparse(ones.args[0]) == f"({n0}, {n0})"
              and "dtype" in {k.arg for k in ones.keywords})
    if not ok:
        raise Unrecognised(where, f, "ar_mask")
    kinds = [("xformer/model.py:ar_mask", ast.unparse({k.arg: k.value for k in ones.keywords}["dtype"]))]
    w(f"Definition ar_mask_diagonal : Z := ({int_const(r.value.keywords[0].value)})%Z.")
    # data["mask"] as encoding._encode_batch builds it
    rel = "tak/model/encoding.py"
    where = rel + ":_encode_batch"
    f = find(tree(rel), ast.FunctionDef, "_encode_batch", where)
    lens = [s for s in ast.walk(f) if isinstance(s, ast.Assign) and ast.unparse(s.targets[0]) == "lens[i]"]
    zeros = [s for s in ast.walk(f) if isinstance(s, ast.Assign) and ast.unparse(s.targets[0]) == "mask"]
    loops = [s for s in ast.walk(f) if isinstance(s, ast.For) and any("mask" in ast.unparse(t) for t in ast.walk(s) if isinstance(t, ast.Subscript))]
    ret = f.body[-1]
    if not (len(lens) == 1 and ast.unparse(lens[0].value) == "len(encoded)" and len(zeros) == 1
            and len(loops) == 1
            and ast.unparse(loops[0].target) == "(i, l)" and ast.unparse(loops[0].iter) == "enumerate(lens)"
            and len(loops[0].body) == 1 and isinstance(loops[0].body[0], ast.Assign)
            and isinstance(ret, ast.Return) and ast.unparse(ret.value) == "(out, mask)"):
        raise Unrecognised(where, f, "mask construction")
    kinds.append((where, zeros_like_dtype(where, zeros[0].value, "out")))
    fills = [s for s in ast.walk(f) if isinstance(s, ast.Assign) and ast.unparse(s.targets[0]).startswith("out[i,")]
    if not (len(fills) == 1 and ast.unparse(fills[0].targets[0]) == "out[i, :len(encoded)]"):
        raise Unrecognised(where, f, "token rows are not written at [: len(encoded)]")
    w(f"Definition data_mask : mexpr := {Masks(where, {'l'}).fill(loops[0].body[0].targets[0], loops[0].body[0].value)}.")
    prods = []
    # batch classes and their call sites
    sites = {"tak/model/batches.py:Position": ["xformer/train/trainer.py", "xformer/train/hooks/test_loss.py"],
             "tak/model/batches.py:PositionValuePolicy": [],
             "tak/alphazero/data.py:ReplayBufferBatch": ["tak/alphazero/trainer.py", "tak/alphazero/hooks/test_loss.py"]}
    for key, callers in sites.items():
        rel, cname = key.split(":")
        m = batch_class(key, find(tree(rel), ast.ClassDef, cname, key))
        for c in callers:
            calls = [n for n in ast.walk(tree(c)) if isinstance(n, ast.Call)
                     and any(isinstance(a, ast.Starred) and ast.unparse(a.value).endswith(".extra_inputs") for a in n.args)]
            for n in calls:
                if not (len(n.args) == 2 and not n.keywords and isinstance(n.args[1], ast.Starred)
                        and ast.unparse(n.func).endswith(".model")):
                    raise Unrecognised(c, n, "call of the model with extra_inputs")
            if not calls:
                raise Unrecognised(c, "extra_inputs", "no call of the model with *batch.extra_inputs")
        prods.append((key + ".extra_inputs", "RZeroPadded", m, "Some 1"))
    # Server.run_model
    rel = "tak/model/server.py"
    where = rel + ":Server.run_model"
    f = find(tree(rel), ast.FunctionDef, "run_model", where)
    L = "len(b.position)"
    loops = [s for s in f.body if isinstance(s, ast.For)]
    inits = {ast.unparse(s.targets[0]): ast.unparse(s.value) for s in f.body if isinstance(s, ast.Assign) and isinstance(s.targets[0], ast.Name)}
    if not (len(loops) == 1 and ast.unparse(loops[0].target) == "(i, b)" and ast.unparse(loops[0].iter) == "enumerate(batch)"
            and len(loops[0].body) == 2
            and inits.get("positions") == f"torch.zeros((len(batch), max(({L} for b in batch))), dtype=torch.long)"
            and "mask" in inits):
        raise Unrecognised(where, f, "batch construction")
    kinds.append((where, zeros_like_dtype(where, next(s.value for s in f.body if isinstance(s, ast.Assign)
                                                      and ast.unparse(s.targets[0]) == "mask"), "positions")))
    s1, s2 = loops[0].body
    if not (isinstance(s1, ast.Assign) and ast.unparse(s1.targets[0]) == f"positions[i, :{L}]" and ast.unparse(s1.value) == "b.position"):
        raise Unrecognised(where, s1, "token rows")
    if not (isinstance(s2, ast.Expr) and isinstance(s2.value, ast.Call) and isinstance(s2.value.func, ast.Attribute)
            and s2.value.func.attr == "fill_" and len(s2.value.args) == 1):
        raise Unrecognised(where, s2, "mask fill")
    m = Masks(where, {L}).fill(s2.value.func.value, s2.value.args[0])
    calls = [n for n in ast.walk(f) if isinstance(n, ast.Call) and ast.unparse(n.func) == "self.model"]
    if not (len(calls) == 1 and not calls[0].keywords
            and [ast.unparse(a) for a in calls[0].args] == ["positions.to(self.device)", "mask.to(self.device)"]):
        raise Unrecognised(where, calls[0] if calls else f, "call of the model")
    prods.append((where, "RZeroPadded", m, "Some 1"))
    # ModelWrapper.evaluate
    rel = "tak/model/wrapper.py"
    where = rel + ":ModelWrapper.evaluate"
    f = find(find(tree(rel), ast.ClassDef, "ModelWrapper", where), ast.FunctionDef, "evaluate", where)
    body = f.body[0].body if len(f.body) == 1 and isinstance(f.body[0], ast.With) \
        and ast.unparse(f.body[0].items[0].context_expr) in ("torch.no_grad()", "torch.inference_mode()") else None
    if not (body and len(body) == 3 and all(isinstance(s, ast.Assign) for s in body[:2]) and isinstance(body[2], ast.Return)):
        raise Unrecognised(where, f, "body")
    enc, call, ret = body
    if not (ast.unparse(enc.targets[0]) == "encoded" and isinstance(enc.value, ast.Call) and ast.unparse(enc.value.func) == "torch.tensor"
            and ast.unparse(enc.value.args[0]) == "[encoding.encode(pos)]"):
        raise Unrecognised(where, enc, "input row")
    if not (ast.unparse(call.targets[0]) == "out" and ast.unparse(call.value) == "self.model(encoded)"):
        raise Unrecognised(where, call, "call of the model")
    prods.append((where, "RSingleUnpadded", "MAbsent", "None"))
    r = ret.value
    ok = isinstance(r, ast.Tuple) and len(r.elts) == 2
    if ok:
        p, v = r.elts
        ok = (isinstance(p, ast.Call) and ast.unparse(p.func).endswith(".cpu") and isinstance(p.func.value, ast.Call)
              and ast.unparse(p.func.value.func) == "torch.softmax" and len(p.func.value.args) == 1
              and [k.arg for k in p.func.value.keywords] == ["dim"] and int_const(p.func.value.keywords[0].value) is not None
              and isinstance(v, ast.Call) and ast.unparse(v.func).endswith(".item") and not v.args)
    if ok:
        pm, vm = p.func.value.args[0], v.func.value

        def keyrow(n):
            if (isinstance(n, ast.Subscript) and int_const(n.slice) is not None and isinstance(n.value, ast.Subscript)
                    and ast.unparse(n.value.value) == "out" and isinstance(n.value.slice, ast.Constant)):
                return n.value.slice.value, int_const(n.slice)
            raise Unrecognised(where, n, "output selection")
        (mk, mr), (vk, vr) = keyrow(pm), keyrow(vm)
        ok = mr == vr
    if not ok:
        raise Unrecognised(where, ret, "return value")
    w("Definition mask_producers : list producer := " + cl(
        [f"{{| pr_name := {qs(n)}; pr_rows := {rk}; pr_mask := {m}; pr_argpos := {ap} |}}" for n, rk, m, ap in prods]) + ".")
    w("Definition mask_dtypes : list (string * string) := " + cl([f"({qs(a)}, {qs(b)})" for a, b in kinds]) + ".")
    w(f"Definition wrapper_evaluate : evaluate_ir := {{| ev_moves_key := {qs(mk)}; ev_value_key := {qs(vk)}; "
      f"ev_row := {cz(mr)}; ev_softmax_dim := {cz(int_const(p.func.value.keywords[0].value))} |}}.")
    return "\n".join(out) + "\n"


def regen(run=None):
    """write coq/gen/XformerIR.v; returns (ok, detail).  On failure the previous file is left in place."""
    try:
        text = translate(core.REPO)
    except Unrecognised as e:
        return False, e.where, str(e)
    except (OSError, SyntaxError, AttributeError, IndexError, TypeError, KeyError, StopIteration) as e:
        return False, "source", f"{type(e).__name__}: {e}"
    core.write_if_changed(core.COQ / "gen" / "XformerIR.v", text)
    return True, "", ""


if __name__ == "__main__":
    import sys
    print(translate(sys.argv[1] if len(sys.argv) > 1 else core.REPO))
