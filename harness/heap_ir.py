"""C05 translator (T): Python `ast` -> heap-effect IR of coq/model/HeapSem.v.

Fail-closed: any statement / expression shape that is not recognised, any
in-place operation whose target is not a plain local name (or an element of
one), any call into unknown code that is handed a heap object raises
`Unsupported` (reported by ./check as a broken obligation
`translate:<file>:<function>`).

The translator decides only *shape*: which statements allocate, which alias,
which store into what.  Everything that is not a heap effect (the value of an
index, the bounds of a slice, which branch is taken, how often a loop runs) is
left to an oracle stream; `trace_call` records that stream from a real run of
the untouched implementation (sys.settrace, no source hooks).

Types (tiny unification-based inference, only to tell heap objects from
immediates): imm | list(t) | pos | dict.  Trusted declarations: the heap-typed
parameters of the listed functions (PARAMS), the whitelist of pure callables
(PURE_FUNCS / PURE_METHODS) and that attributes other than `Position.board`
hold immutable values (ints, enums, tuples of frozen attrs instances).
"""
import ast
import os
import sys
from pathlib import Path


class Unsupported(Exception):
    def __init__(self, msg, node=None, fn=None):
        self.msg, self.lineno, self.fn = msg, getattr(node, "lineno", None), fn
        super().__init__(msg)

    def __str__(self):
        return f"{self.fn or '?'}:{self.lineno or '?'}: {self.msg}"


# --------------------------------------------------------------------------
# types
# --------------------------------------------------------------------------
class Ty:
    def __init__(self, kind, elem=None):
        self.kind, self.elem, self.link = kind, elem, None   # kind: var imm list pos dict

    def find(self):
        t = self
        while t.link is not None:
            t = t.link
        return t

    def __repr__(self):
        t = self.find()
        return f"list({t.elem!r})" if t.kind == "list" else t.kind


def IMM():
    return Ty("imm")


def LIST(e=None):
    return Ty("list", e if e is not None else Ty("var"))


def unify(a, b, node=None):
    a, b = a.find(), b.find()
    if a is b:
        return a
    if a.kind == "var":
        a.link = b
        return b
    if b.kind == "var":
        b.link = a
        return a
    if a.kind != b.kind:
        raise Unsupported(f"a name or element is used both as {a!r} and as {b!r} (cannot tell heap object from immediate)", node)
    if a.kind == "list":
        unify(a.elem, b.elem, node)
    return a


def is_heap(t, force=True):
    """heap object (list/pos/dict)?  An undetermined type is forced to imm: a later heap use then fails closed."""
    t = t.find()
    if t.kind == "var":
        if force:
            t.link = IMM()
        return False
    return t.kind != "imm"


# --------------------------------------------------------------------------
# what is translated
# --------------------------------------------------------------------------
POSITION_CLASS = ("tak/game.py", "Position")
# name in gen/HeapIR.v -> (file, qualified name, parameter kinds)
TARGETS = {
    "move": ("tak/game.py", "Position.move", {"self": "pos", "m": "imm"}),
    "from_squares": ("tak/game.py", "Position.from_squares", {"cls": "imm", "cfg": "imm", "squares": "board", "ply": "imm"}),
    "from_config": ("tak/game.py", "Position.from_config", {"cls": "imm", "config": "imm"}),
    "parse_row": ("tak/ptn/tps.py", "parse_row", {"rtext": "imm"}),
    "parse_tps": ("tak/ptn/tps.py", "parse_tps", {"tps": "imm"}),
    "transform_position": ("tak/symmetry/symmetry.py", "transform_position", {"sym": "imm", "pos": "pos"}),
}
# helpers that are inlined at their call sites (they mutate a dict of their caller)
INLINE = {
    "Position._move_place": ("tak/game.py", "Position._move_place", {"self": "pos", "m": "imm", "delta": "dict"}),
    "Position._move_slide": ("tak/game.py", "Position._move_slide", {"self": "pos", "m": "imm", "delta": "dict"}),
    "Position.from_squares": TARGETS["from_squares"],
    "parse_row": TARGETS["parse_row"],
}
# what an inlined helper returns (checked against the translation of its body)
INLINE_RET = {"Position._move_place": "imm", "Position._move_slide": "imm", "Position.from_squares": "pos",
              "parse_row": "board"}
# call spellings -> key of INLINE
INLINE_SPELLINGS = {
    "self._move_place": "Position._move_place",
    "self._move_slide": "Position._move_slide",
    "parse_row": "parse_row",
    "tak.Position.from_squares": "Position.from_squares",
    "cls.from_squares": "Position.from_squares",
}
CONSTRUCTORS = {"cls", "tak.Position", "Position", "game.Position"}

# callables that read their arguments and keep no reference to them
PURE_FUNCS = {"len", "any", "all", "sum", "min", "max", "bool", "int", "str", "abs", "range", "isinstance",
              "enumerate", "zip", "repr", "getattr", "divmod", "ord", "chr", "float", "round"}
# methods of immediates (str, int, enum, frozen attrs, numpy values built from immediates) - receiver must be imm
MUTATORS = {"append", "extend", "insert", "pop", "remove", "sort", "reverse", "clear", "update", "setdefault",
            "popitem", "add", "discard", "__setitem__", "__delitem__", "__iadd__", "__imul__", "__setattr__"}
LIST_READERS = {"index", "count"}


def load_module(repo_python, rel):
    p = Path(repo_python) / rel
    return ast.parse(p.read_text(), filename=str(p)), str(p)


def find_def(tree, qual):
    node = tree
    for part in qual.split("."):
        for c in node.body:
            if isinstance(c, (ast.FunctionDef, ast.ClassDef)) and c.name == part:
                node = c
                break
        else:
            raise Unsupported(f"definition {qual} not found")
    return node


def position_fields(repo_python):
    tree, _ = load_module(repo_python, POSITION_CLASS[0])
    cls = find_def(tree, POSITION_CLASS[1])
    frozen = False
    for d in cls.decorator_list:
        if isinstance(d, ast.Call) and any(k.arg == "frozen" and isinstance(k.value, ast.Constant) and k.value.value is True
                                           for k in d.keywords):
            frozen = True
    if not frozen:
        raise Unsupported("class Position is no longer declared frozen", cls, "tak/game.py:Position")
    fields = []
    for c in cls.body:
        if isinstance(c, ast.AnnAssign) and isinstance(c.target, ast.Name):
            fields.append((c.target.id, ann_type(c.annotation)))
    if "board" not in [f for f, _ in fields]:
        raise Unsupported("class Position has no field `board`", cls, "tak/game.py:Position")
    # __getitem__ must still be `x, y = pos; return self.board[y * self.size + x]`
    gi = find_def(tree, "Position.__getitem__")
    want = "x, y = pos\nreturn self.board[y * self.size + x]"
    got = "\n".join(ast.unparse(s) for s in gi.body)
    if got != want or [a.arg for a in gi.args.args] != ["self", "pos"]:
        raise Unsupported("Position.__getitem__ changed shape: " + got, gi, "tak/game.py:Position.__getitem__")
    return fields


def ann_type(a):
    if isinstance(a, ast.Subscript) and isinstance(a.value, ast.Name) and a.value.id in ("list", "List"):
        return ("list", ann_type(a.slice))
    if isinstance(a, ast.Subscript) and isinstance(a.value, ast.Attribute) and a.value.attr == "List":
        return ("list", ann_type(a.slice))
    if isinstance(a, ast.Subscript) and ast.unparse(a.value) in ("dict", "Dict", "T.Dict", "set", "T.Set"):
        raise Unsupported("mutable non-list field annotation " + ast.unparse(a), a)
    if ast.unparse(a) in ("dict", "list", "set", "bytearray", "Dict", "List", "Set", "T.Dict", "T.List", "T.Set",
                          "typing.Dict", "typing.List", "typing.Set", "collections.deque", "deque"):
        raise Unsupported("field annotated as a bare mutable container: " + ast.unparse(a), a)
    return "imm"


def mk_type(k):
    if k == "imm":
        return IMM()
    if k == "board":
        return LIST(LIST(IMM()))
    if k in ("pos", "dict"):
        return Ty(k)
    if isinstance(k, tuple):
        return LIST(mk_type(k[1]))
    raise ValueError(k)


# --------------------------------------------------------------------------
# the translator
# --------------------------------------------------------------------------
class World:
    """everything shared by the activations of one translation run"""

    def __init__(self, repo_python):
        self.repo_python = str(repo_python)
        self.fields = position_fields(repo_python)
        self.fnames = [f for f, _ in self.fields]
        self.trees = {}
        self.ntemp = 0
        self.tables = {}       # function key -> {stmt id -> info}
        self.pure_methods = {}
        self.stack = []

    def tree(self, rel):
        if rel not in self.trees:
            self.trees[rel] = load_module(self.repo_python, rel)
        return self.trees[rel]

    def temp(self):
        self.ntemp += 1
        return f"%t{self.ntemp}"


def S(x):
    return '"' + x + '"'


def seq(stmts):
    stmts = [s for s in stmts if s != "SSkip"]
    if not stmts:
        return "SSkip"
    out = stmts[-1]
    for s in reversed(stmts[:-1]):
        out = f"SSeq ({s})\n({out})"
    return out


class Act:
    """one activation (a listed function, or an inlined callee)"""

    def __init__(self, world, key, spec, prefix="", register=True):
        self.w, self.key, self.prefix = world, key, prefix
        self.register = register
        self.rename = {}       # heap parameter of an inlined callee -> IR variable of the caller holding the argument
        self.inline_ok = None  # the one Call node that may be an inlined call right now
        self.try_ctx = None    # id of the enclosing `try` statement while its body is being translated
        self.in_try = False    # inside any part of a try statement (nested try statements are refused)
        self.rel, self.qual, self.pkinds = spec
        tree, self.filename = world.tree(self.rel)
        self.fn = find_def(tree, self.qual)
        self.fnkey = f"{self.rel}:{self.qual}"
        self.types = {}
        self.ret = Ty("var")
        self.table = {}
        self.cur = None        # info dict of the statement being translated
        self.muts = []         # (lineno, source, target description)
        args = self.fn.args
        if args.vararg or args.kwarg or args.kwonlyargs or args.posonlyargs:
            raise Unsupported("unsupported parameter list", self.fn, self.fnkey)
        self.pnames = [a.arg for a in args.args]
        for p in self.pnames:
            if p not in self.pkinds:
                raise Unsupported(f"parameter `{p}` has no declared kind (heap object or immediate?)", self.fn, self.fnkey)
            self.types[p] = mk_type(self.pkinds[p])
        self.is_method = "." in self.qual

    # ---- helpers ----
    def err(self, msg, node):
        raise Unsupported(msg, node, self.fnkey)

    def v(self, name):
        return self.rename.get(name, self.prefix + name)

    def is_inline(self, e):
        return isinstance(e, ast.Call) and self.call_name(e) in INLINE_SPELLINGS

    def vtype(self, e):
        """type of a value expression that may be (at its top) a call of an inlined helper"""
        if self.is_inline(e):
            self.inline_ok = e
            try:
                return self.ptype(e)
            finally:
                self.inline_ok = None
        return self.ptype(e)

    def ntype(self, name):
        if name not in self.types:
            self.types[name] = Ty("var")
        return self.types[name]

    def oracle(self, *spec):
        self.cur["oracles"].append(spec)

    def src(self, node):
        return ast.unparse(node)

    # ---- pure expressions: purity check + type, no emission ----
    def ptype(self, e, scope=None):
        scope = scope or {}
        P = lambda x: self.ptype(x, scope)  # noqa: E731
        if isinstance(e, ast.Constant) or isinstance(e, ast.JoinedStr):
            return IMM()
        if isinstance(e, ast.Name):
            if e.id in scope:
                return scope[e.id]
            if e.id in self.types:
                return self.types[e.id]
            return IMM()           # global / builtin / module
        if isinstance(e, ast.Attribute):
            t = P(e.value).find()
            if t.kind == "pos":
                if e.attr in self.w.fnames:
                    return mk_type(dict(self.w.fields)[e.attr])
                self.err(f"attribute `{e.attr}` of a position is not a field", e)
            if is_heap(t):
                self.err(f"attribute `{e.attr}` read from a {t!r}", e)
            return IMM()
        if isinstance(e, ast.Subscript):
            t = P(e.value).find()
            if t.kind == "pos":
                if isinstance(e.slice, ast.Tuple) and len(e.slice.elts) == 2:
                    for x in e.slice.elts:
                        self.need_imm(P(x), x)
                    return LIST(IMM())
                self.err("unsupported subscript of a position", e)
            if t.kind == "list":
                if isinstance(e.slice, ast.Slice):
                    if e.slice.step is not None:
                        self.err("slice with a step", e)
                    for x in (e.slice.lower, e.slice.upper):
                        if x is not None:
                            self.need_imm(P(x), x)
                    return LIST(t.elem)
                self.need_imm(P(e.slice), e.slice)
                return t.elem
            if t.kind == "dict":
                self.err("read from a dict", e)
            if isinstance(e.slice, ast.Slice):
                for x in (e.slice.lower, e.slice.upper, e.slice.step):
                    if x is not None:
                        self.need_imm(P(x), x)
            else:
                self.need_imm(P(e.slice), e.slice)
            return IMM()
        if isinstance(e, (ast.Compare,)):
            P(e.left)
            for c in e.comparators:
                P(c)
            return IMM()
        if isinstance(e, ast.UnaryOp):
            t = P(e.operand)
            if not isinstance(e.op, ast.Not):
                self.need_imm(t, e)
            return IMM()
        if isinstance(e, ast.BoolOp):
            ts = [P(x) for x in e.values]
            if any(is_heap(t, force=False) for t in ts):
                r = ts[0]
                for t in ts[1:]:
                    r = unify(r, t, e)
                return r
            return IMM()
        if isinstance(e, ast.IfExp):
            P(e.test)
            a, b = P(e.body), P(e.orelse)
            if is_heap(a, force=False) or is_heap(b, force=False):
                return unify(a, b, e)
            return IMM()
        if isinstance(e, ast.BinOp):
            a, b = P(e.left), P(e.right)
            ha, hb = is_heap(a, force=False), is_heap(b, force=False)
            if isinstance(e.op, ast.Add) and (ha or hb):
                return unify(a, b, e)
            if isinstance(e.op, ast.Mult) and (ha or hb):
                if ha and hb:
                    self.err("list * list", e)
                return a if ha else b
            self.need_imm(a, e.left)
            self.need_imm(b, e.right)
            return IMM()
        if isinstance(e, (ast.List, ast.Tuple, ast.Set)):
            el = Ty("var")
            heap = isinstance(e, ast.List)
            for x in e.elts:
                if isinstance(x, ast.Starred):
                    self.need_imm(P(x.value), x)
                    continue
                t = P(x)
                if is_heap(t, force=False):
                    heap = True
                el = unify(el, t, e)
            if isinstance(e, ast.Set) and heap:
                self.err("set display", e)
            return LIST(el) if heap else IMM()
        if isinstance(e, ast.Dict):
            for k, val in zip(e.keys, e.values):
                if k is None:
                    self.need_imm(P(val), val)
                else:
                    P(k)
            return Ty("dict") if self.dict_keys(e) is not None else IMM()
        if isinstance(e, (ast.ListComp, ast.GeneratorExp, ast.SetComp)):
            sc = dict(scope)
            for g in e.generators:
                if g.is_async:
                    self.err("async comprehension", e)
                it = self.ptype(g.iter, sc).find()
                et = it.elem if it.kind == "list" else IMM()
                if it.kind in ("pos", "dict"):
                    self.err("iteration over a position / dict", g.iter)
                self.bind_scope(g.target, et, sc)
                for c in g.ifs:
                    self.ptype(c, sc)
            t = self.ptype(e.elt, sc)
            if isinstance(e, ast.ListComp):
                return LIST(t)
            self.need_imm(t, e.elt)
            return IMM()
        if isinstance(e, ast.Starred):
            return P(e.value)
        if isinstance(e, ast.Call):
            return self.ptype_call(e, scope)
        self.err(f"unsupported expression {type(e).__name__}", e)

    def bind_scope(self, target, t, sc):
        if isinstance(target, ast.Name):
            sc[target.id] = t
        elif isinstance(target, (ast.Tuple, ast.List)):
            if is_heap(t):
                self.err("unpacking a heap object", target)
            for x in target.elts:
                self.bind_scope(x, IMM(), sc)
        else:
            self.err("unsupported comprehension target", target)

    def need_imm(self, t, node):
        if is_heap(t):
            self.err(f"a {t!r} is used where only an immediate is understood: {self.src(node)}", node)

    def dict_keys(self, e):
        """field slots of a dict display whose keys are field names, else None"""
        if not e.keys or not all(isinstance(k, ast.Constant) and k.value in self.w.fnames for k in e.keys):
            return None
        return [self.w.fnames.index(k.value) for k in e.keys]

    def call_name(self, e):
        try:
            return ast.unparse(e.func)
        except Exception:  # noqa
            return None

    def ptype_call(self, e, scope):
        P = lambda x: self.ptype(x, scope)  # noqa: E731
        name = self.call_name(e)
        args = list(e.args) + [k.value for k in e.keywords]
        if name in INLINE_SPELLINGS:
            if self.inline_ok is not e:
                self.err(f"call of {name} inside an expression that is not translated as a statement", e)
            self.inline_ok = None
            for a in args:
                P(a)
            return mk_type(INLINE_RET[INLINE_SPELLINGS[name]])
        if name in ("list", "sorted", "tuple") and len(e.args) == 1 and not e.keywords:
            a = e.args[0]
            if isinstance(a, ast.Call) and self.call_name(a) == "reversed" and len(a.args) == 1:
                a = a.args[0]
            t = P(a).find()
            if t.kind == "list":
                return LIST(t.elem)
            self.need_imm(t, a)
            return LIST(IMM()) if name != "tuple" else IMM()
        if name == "reversed" and len(e.args) == 1:
            t = P(e.args[0]).find()
            if t.kind == "list":
                self.need_imm(t.elem, e)      # only iterated for immediates
                return IMM()
            self.need_imm(t, e)
            return IMM()
        if name == "attrs.evolve" and e.args:
            t = P(e.args[0]).find()
            for a in args[1:]:
                P(a)
            if t.kind == "pos":
                return Ty("pos")
            self.need_imm(t, e.args[0])
            for a in args[1:]:
                if isinstance(a, ast.Dict):
                    for val in a.values:
                        self.need_imm(P(val), val)
                else:
                    self.need_imm(P(a), a)
            return IMM()
        if name in CONSTRUCTORS and (name != "cls" or self.qual.startswith("Position.")):
            for a in args:
                P(a)
            return Ty("pos")
        if isinstance(e.func, ast.Attribute):
            rt = P(e.func.value).find()
            meth = e.func.attr
            if rt.kind == "pos":
                self.pure_method(meth, e)
                for a in args:
                    self.need_imm(P(a), a)
                return IMM()
            if rt.kind == "list":
                if meth == "copy" and not args:
                    return LIST(rt.elem)
                if meth in LIST_READERS:
                    for a in args:
                        self.need_imm(P(a), a)
                    return IMM()
                self.err(f"method `{meth}` of a list inside an expression (in-place operations are translated only as statements)", e)
            if rt.kind == "dict":
                self.err(f"method `{meth}` of a dict", e)
            # receiver is an immediate / module
        if name in PURE_FUNCS:
            for a in args:
                P(a)
            return IMM()
        for a in args:
            t = P(a)
            if is_heap(t) and not self.display_of_imm(a, scope):
                self.err(f"call into unknown code `{name}` is handed a {t!r}: {self.src(a)}", e)
        return IMM()

    def display_of_imm(self, a, scope):
        """a list display (a fresh temporary) all of whose elements are immediates: nothing of a position is reachable from it"""
        return isinstance(a, ast.List) and not any(isinstance(x, ast.Starred) or is_heap(self.ptype(x, scope)) for x in a.elts)

    def pure_method(self, meth, node):
        """a method of Position called on a position: must translate to an IR without stores and return an immediate"""
        key = "Position." + meth
        if key in self.w.pure_methods:
            if not self.w.pure_methods[key]:
                self.err(f"method {key} is not pure", node)
            return
        if key in self.w.stack:
            self.err("recursion", node)
        tree, _ = self.w.tree(POSITION_CLASS[0])
        fn = find_def(tree, key)
        kinds = {a.arg: "imm" for a in fn.args.args}
        kinds["self"] = "pos"
        self.w.stack.append(key)
        try:
            act = Act(self.w, key, (POSITION_CLASS[0], key, kinds), prefix=self.w.temp() + ".", register=False)
            act.translate_body()
            ok = not act.muts and not is_heap(act.ret)
        finally:
            self.w.stack.pop()
        self.w.pure_methods[key] = ok
        if not ok:
            self.err(f"method {key} is not pure (stores: {act.muts})", node)

    # ---- value expressions: emission ----
    def is_heap_expr(self, e):
        return is_heap(self.ptype(e), force=False)

    def var_of(self, e, out):
        """name (IR variable) holding the heap object denoted by e"""
        if isinstance(e, ast.Name) and e.id in self.types:
            return self.v(e.id)
        if self.is_inline(e):
            return self.inline_call(e, out)
        r, t = self.rhs(e, out)
        tmp = self.w.temp()
        out.append(f"SBind {S(tmp)} ({r})")
        return tmp

    def atom(self, e, out):
        t = self.vtype(e)
        if not is_heap(t):
            if self.is_inline(e):
                self.inline_call(e, out)
            return "AImm", t
        return f"AVar {S(self.var_of(e, out))}", t

    def idx(self, container, i):
        """index position of `container[i]`"""
        if isinstance(i, ast.Constant) and isinstance(i.value, int) and not isinstance(i.value, bool) and i.value >= 0:
            return f"IConst {i.value}"
        if isinstance(i, ast.UnaryOp) and isinstance(i.op, ast.USub) and isinstance(i.operand, ast.Constant) and i.operand.value == 1:
            return "ILast"
        self.need_imm(self.ptype(i), i)
        self.oracle("index", self.src(container), self.src(i))
        return "IOr"

    def rhs(self, e, out):
        """(Coq rhs term, type) for a heap-valued expression; sub-expressions are flattened into `out`"""
        t = self.vtype(e)
        if self.is_inline(e):
            tmp = self.inline_call(e, out)
            return (f"RAtom (AVar {S(tmp)})" if is_heap(t) else "RAtom AImm"), t
        if not is_heap(t):
            return "RAtom AImm", t
        if isinstance(e, ast.Name):
            return f"RAtom (AVar {S(self.v(e.id))})", t
        if isinstance(e, ast.Attribute):
            base = self.var_of(e.value, out)
            return f"RIdx {S(base)} (IConst {self.w.fnames.index(e.attr)})", t
        if isinstance(e, ast.Subscript):
            bt = self.ptype(e.value).find()
            if bt.kind == "pos":
                base = self.var_of(e.value, out)
                tmp = self.w.temp()
                out.append(f"SBind {S(tmp)} (RIdx {S(base)} (IConst {self.w.fnames.index('board')}))")
                a, b = e.slice.elts
                bsrc = self.src(e.value)
                self.oracle("index", f"{bsrc}.board", f"({self.src(b)}) * {bsrc}.size + ({self.src(a)})")
                return f"RIdx {S(tmp)} IOr", t
            base = self.var_of(e.value, out)
            if isinstance(e.slice, ast.Slice):
                if e.slice.lower is None and e.slice.upper is None:
                    return f"RCopy {S(base)}", t
                self.oracle("slice", self.src(e.value), self.src(e.slice.lower) if e.slice.lower else None,
                            self.src(e.slice.upper) if e.slice.upper else None)
                return f"RSlice {S(base)}", t
            return f"RIdx {S(base)} ({self.idx(e.value, e.slice)})", t
        if isinstance(e, ast.BinOp) and isinstance(e.op, ast.Add):
            a = self.var_of(e.left, out)
            b = self.var_of(e.right, out)
            return f"RConcat {S(a)} {S(b)}", t
        if isinstance(e, ast.BinOp) and isinstance(e.op, ast.Mult):
            l, n = (e.left, e.right) if self.is_heap_expr(e.left) else (e.right, e.left)
            a = self.var_of(l, out)
            self.oracle("int", self.src(n))
            return f"RRepeat {S(a)}", t
        if isinstance(e, (ast.List, ast.Tuple)):
            if any(isinstance(x, ast.Starred) for x in e.elts):
                self.err("starred element in a display of heap objects", e)
            atoms = [self.atom(x, out)[0] for x in e.elts]
            return f"RDisplay [{'; '.join(atoms)}]", t
        if isinstance(e, ast.Dict):
            slots = self.dict_keys(e)
            atoms = ["AAbs"] * len(self.w.fnames)
            for k, val in zip(slots, e.values):
                atoms[k] = self.atom(val, out)[0]
            return f"RDisplay [{'; '.join(atoms)}]", t
        if isinstance(e, ast.ListComp):
            if len(e.generators) != 1 or e.generators[0].ifs:
                self.err("comprehension with several generators or a filter", e)
            g = e.generators[0]
            it = self.ptype(g.iter).find()
            if it.kind in ("pos", "dict") or (it.kind == "list" and is_heap(it.elem)):
                self.err("comprehension over heap objects", e)
            if isinstance(e.elt, ast.List) and not any(self.is_heap_expr(x) for x in e.elt.elts):
                self.oracle("len", self.src(g.iter))
                return f"RComp [{'; '.join(['AImm'] * len(e.elt.elts))}]", t
            sc = {}
            self.bind_scope(g.target, IMM(), sc)
            if not is_heap(self.ptype(e.elt, sc)):
                tmp = self.w.temp()
                out.append(f"SBind {S(tmp)} (RDisplay [AImm])")
                self.oracle("len", self.src(g.iter))
                return f"RRepeat {S(tmp)}", t
            self.err("comprehension whose element is not an immediate or a display of immediates", e)
        if isinstance(e, ast.Call):
            name = self.call_name(e)
            if name in ("list", "sorted", "tuple") and len(e.args) == 1:
                a = e.args[0]
                if isinstance(a, ast.Call) and self.call_name(a) == "reversed":
                    inner = a.args[0]
                    if self.is_heap_expr(inner):
                        return f"RRevCopy {S(self.var_of(inner, out))}", t
                    a = inner
                if self.is_heap_expr(a):
                    return f"RCopy {S(self.var_of(a, out))}", t
                tmp = self.w.temp()
                out.append(f"SBind {S(tmp)} (RDisplay [AImm])")
                self.oracle("len", self.src(a))
                return f"RRepeat {S(tmp)}", t
            if isinstance(e.func, ast.Attribute) and e.func.attr == "copy" and not e.args and self.is_heap_expr(e.func.value):
                return f"RCopy {S(self.var_of(e.func.value, out))}", t
            if name == "attrs.evolve":
                base = self.var_of(e.args[0], out)
                if len(e.args) != 1:
                    self.err("attrs.evolve with positional changes", e)
                if len(e.keywords) == 1 and e.keywords[0].arg is None:
                    d = e.keywords[0].value
                    if self.ptype(d).find().kind != "dict":
                        self.err("attrs.evolve(**x) where x is not a dict of field names", e)
                    return f"REvolveKw {S(base)} {S(self.var_of(d, out))}", t
                fs = []
                for k in e.keywords:
                    if k.arg not in self.w.fnames:
                        self.err(f"attrs.evolve: unknown field {k.arg}", e)
                    fs.append(f"({self.w.fnames.index(k.arg)}, {self.atom(k.value, out)[0]})")
                return f"REvolve {S(base)} [{'; '.join(fs)}]", t
            if name in CONSTRUCTORS:
                if e.args or sorted(k.arg or "" for k in e.keywords) != sorted(self.w.fnames):
                    self.err("constructor call must pass every field by keyword", e)
                kw = {k.arg: k.value for k in e.keywords}
                atoms = [self.atom(kw[f], out)[0] for f in self.w.fnames]
                return f"RDisplay [{'; '.join(atoms)}]", t
        self.err(f"heap-valued expression of an unsupported shape: {self.src(e)}", e)

    # ---- inlined calls ----
    def inline_call(self, e, out):
        if self.cur["oracles"]:
            self.err("a statement that reads indices/slices and also calls a translated function", e)
        self.cur["calls"] = True
        name = self.call_name(e)
        key = INLINE_SPELLINGS[name]
        if key in self.w.stack:
            self.err("recursion", e)
        spec = INLINE[key]
        prefix = f"{self.prefix}{key.split('.')[-1]}."
        act = Act(self.w, key, spec, prefix=prefix)
        params = list(act.pnames)
        actual = {}
        if params and params[0] in ("self", "cls"):
            if not isinstance(e.func, ast.Attribute):
                self.err("method called without a receiver", e)
            actual[params[0]] = e.func.value
            params = params[1:]
        if len(e.args) > len(params):
            self.err("too many arguments", e)
        for p, a in zip(params, e.args):
            actual[p] = a
        for k in e.keywords:
            if k.arg is None or k.arg in actual or k.arg not in params:
                self.err("unsupported keyword argument", e)
            actual[k.arg] = k.value
        if set(actual) != set(act.pnames):
            self.err("arguments do not cover the parameters (defaults are not supported)", e)
        pre = []
        for p in act.pnames:
            a = actual[p]
            if act.pkinds[p] == "imm":
                if p != "cls":
                    self.need_imm(self.ptype(a), a)
                continue
            ty = self.ptype(a)
            if not is_heap(ty):
                self.err(f"parameter `{p}` of {key} is declared a heap object but is passed an immediate", e)
            unify(act.types[p], ty, a)
            # parameter passing is aliasing: the callee's name for the parameter IS the caller's variable
            act.rename[p] = self.var_of(a, pre)
        self.w.stack.append(key)
        try:
            body = act.translate_body()
        finally:
            self.w.stack.pop()
        unify(act.ret, mk_type(INLINE_RET[key]), e)
        self.muts += act.muts
        tmp = self.w.temp()
        out.extend(pre)
        out.append(f"SCall {S(tmp)} ({body})")
        return tmp

    # ---- statements ----
    def translate_body(self):
        body = self.block(self.fn.body)
        if not self.register:
            return body
        old = self.w.tables.get(self.fnkey)
        mine = {k: {kk: vv for kk, vv in v.items()} for k, v in self.table.items()}
        if old is not None and _table_sig(old) != _table_sig(mine):
            raise Unsupported("the same function translated to two different statement tables", self.fn, self.fnkey)
        self.w.tables[self.fnkey] = mine
        return body

    def block(self, stmts):
        out = []
        for s in stmts:
            out.append(self.stmt(s))
        return seq(out)

    def new_info(self, s, kind, header_end=None):
        info = {"id": len(self.table), "line": s.lineno, "end": header_end if header_end is not None else s.end_lineno,
                "kind": kind, "oracles": [], "calls": False, "first": None, "src": ast.unparse(s).splitlines()[0][:80],
                "mayraise": self.try_ctx is not None, "tryid": self.try_ctx, "is_raise": isinstance(s, ast.Raise),
                "body_last": None, "hfirst": None}
        for other in self.table.values():
            if not (info["end"] < other["line"] or other["end"] < info["line"]):
                raise Unsupported("two statements share a source line (cannot be traced)", s, self.fnkey)
        self.table[info["id"]] = info
        return info

    def first_id(self, stmts):
        """id the first statement of a block will get (ids are given in translation order)"""
        return len(self.table)

    MAYRAISE = "SIf (SRaise)\n(SSkip)"     # an exception that is not an explicit raise, in front of a statement of a try body

    def stmt(self, s):
        guarded = self.try_ctx is not None
        if isinstance(s, ast.Try):
            ir = self.try_stmt(s)
        elif isinstance(s, (ast.If, ast.For, ast.While)):
            ir = self.compound(s)
        else:
            info = self.new_info(s, "simple")
            self.cur = info
            out = []
            self.simple(s, out)
            if info["calls"] and info["oracles"]:
                self.err("a statement that reads indices/slices and also calls a translated function", s)
            ir = seq(out)
        return f"SSeq ({self.MAYRAISE})\n({ir})" if guarded else ir

    def try_stmt(self, s):
        """try/except/else/finally.  Over-approximation: in front of every statement of the body an oracle-chosen
        exception (`SIf SRaise SSkip`); the handler is an oracle-chosen chain of the handler bodies ending in
        `SRaise` (no handler matches, the exception propagates); else and finally bodies in sequence (HeapSem.exec)."""
        if self.in_try:
            self.err("nested try statements", s)
        hdr_end = s.body[0].lineno - 1
        if hdr_end < s.lineno:
            self.err("body on the same line as its header", s)
        info = self.new_info(s, "try", hdr_end)
        info["mayraise"] = False
        self.in_try = True
        try:
            self.try_ctx = info["id"]
            body = self.block(s.body)
            self.try_ctx = None
            hfirst, hbodies = [], []
            for h in s.handlers:
                if h.type is not None:
                    self.ptype(h.type)
                if h.name is not None:
                    unify(self.ntype(h.name), IMM(), h)      # the exception object: an immediate (any heap use fails closed)
                if h.body[0].lineno <= h.lineno:
                    self.err("handler body on the same line as `except`", h)
                hfirst.append(len(self.table))
                hbodies.append(self.block(h.body))
            info["hfirst"] = hfirst
            chain = "SRaise"
            for hb in reversed(hbodies):
                chain = f"SIf ({hb})\n({chain})"
            orelse = self.block(s.orelse) if s.orelse else "SSkip"
            fin = self.block(s.finalbody) if s.finalbody else "SSkip"
        finally:
            self.in_try = False
            self.try_ctx = None
        return f"STry ({body})\n({chain})\n({orelse})\n({fin})"

    def compound(self, s):
        hdr_end = s.body[0].lineno - 1
        if hdr_end < s.lineno:
            self.err("body on the same line as its header", s)
        info = self.new_info(s, "if" if isinstance(s, ast.If) else "loop", hdr_end)
        self.cur = info
        if isinstance(s, ast.If):
            self.ptype(s.test)
            info["first"] = len(self.table)
            a = self.block(s.body)
            b = self.block(s.orelse) if s.orelse else "SSkip"
            return f"SIf ({a})\n({b})"
        if s.orelse:
            self.err("loop with an else clause", s)
        bd = "None"
        if isinstance(s, ast.While):
            self.ptype(s.test)
        else:
            it = self.ptype(s.iter).find()
            if it.kind in ("pos", "dict"):
                self.err("iteration over a position / dict", s)
            if it.kind == "list" and is_heap(it.elem):
                if not (isinstance(s.iter, ast.Name) and isinstance(s.target, ast.Name)):
                    self.err("iteration over heap objects other than `for v in name`", s)
                unify(self.ntype(s.target.id), it.elem, s)
                if s.target.id in self.rename:
                    self.err("an inlined helper re-binds its heap parameter", s)
                bd = f"Some ({S(self.v(s.target.id))}, {S(self.v(s.iter.id))})"
            else:
                self.bind_imm_target(s.target)
        info["first"] = len(self.table)
        body = self.block(s.body)
        info["body_last"] = len(self.table) - 1
        return f"SLoop ({bd}) 0 ({body})"

    def bind_imm_target(self, t):
        if isinstance(t, ast.Name):
            unify(self.ntype(t.id), IMM(), t)
        elif isinstance(t, (ast.Tuple, ast.List)):
            for x in t.elts:
                self.bind_imm_target(x)
        else:
            self.err("unsupported assignment target", t)

    def mut_target(self, t, node):
        """(kind, name, idx-builder) for the object an in-place operation acts on: a plain local name or an element of one"""
        if isinstance(t, ast.Name) and t.id in self.types and is_heap(self.types[t.id], force=False):
            if self.types[t.id].find().kind == "pos":
                self.err("in-place operation on a position object", node)
            return ("name", t.id, None)
        if isinstance(t, ast.Subscript) and isinstance(t.value, ast.Name) and t.value.id in self.types \
                and self.types[t.value.id].find().kind == "list" and not isinstance(t.slice, ast.Slice):
            return ("elem", t.value.id, t)
        self.err(f"in-place operation whose target is not a plain local name (or an element of one): {self.src(t)}", node)

    def emit_mut(self, target, node, opf, out):
        """opf() -> Coq mop term (called after the target index oracle is recorded)"""
        kind, name, sub = self.mut_target(target, node)
        self.muts.append((node.lineno, self.src(node)[:100], self.v(name)))
        if kind == "name":
            out.append(f"SMut {S(self.v(name))} ({opf()})")
        else:
            i = self.idx(sub.value, sub.slice)
            out.append(f"SMut2 {S(self.v(name))} ({i}) ({opf()})")

    def simple(self, s, out):
        if isinstance(s, ast.Pass):
            return
        if isinstance(s, ast.Break):
            out.append("SBreak")
            return
        if isinstance(s, ast.Continue):
            out.append("SContinue")
            return
        if isinstance(s, ast.Raise):
            if s.exc is not None:
                self.ptype(s.exc)
            out.append("SRaise")
            return
        if isinstance(s, ast.Return):
            if s.value is None:
                out.append("SReturn AImm")
                return
            a, t = self.atom(s.value, out)
            unify(self.ret, t, s)
            out.append(f"SReturn ({a})")
            return
        if isinstance(s, ast.AnnAssign):
            if s.value is None:
                return
            s = ast.copy_location(ast.Assign(targets=[s.target], value=s.value), s)
        if isinstance(s, ast.Assign):
            if len(s.targets) != 1:
                self.err("chained assignment", s)
            return self.assign(s.targets[0], s.value, s, out)
        if isinstance(s, ast.AugAssign):
            return self.augassign(s, out)
        if isinstance(s, ast.Delete):
            for t in s.targets:
                if not isinstance(t, ast.Subscript):
                    self.err("del of something that is not an element or a slice", s)
                if isinstance(t.slice, ast.Slice):
                    def opf(t=t):
                        self.oracle("slice", self.src(t.value), self.src(t.slice.lower) if t.slice.lower else None,
                                    self.src(t.slice.upper) if t.slice.upper else None)
                        return "MDelSlice"
                    if t.slice.step is not None:
                        self.err("slice with a step", s)
                    self.emit_mut(t.value, s, opf, out)
                else:
                    self.emit_mut(t.value, s, lambda t=t: f"MDelIdx ({self.idx(t.value, t.slice)})", out)
            return
        if isinstance(s, ast.Expr):
            e = s.value
            if isinstance(e, ast.Constant):
                return
            if isinstance(e, ast.Call):
                name = self.call_name(e)
                if name in INLINE_SPELLINGS:
                    self.inline_call(e, out)
                    return
                if name in ("setattr", "delattr", "object.__setattr__"):
                    self.err("setattr", s)
                if isinstance(e.func, ast.Attribute) and e.func.attr in MUTATORS and self.is_heap_expr(e.func.value):
                    return self.method_mut(e, s, out)
            self.ptype(e)
            return
        self.err(f"unsupported statement {type(s).__name__}", s)

    def method_mut(self, e, s, out):
        recv, meth, args = e.func.value, e.func.attr, e.args
        if e.keywords:
            self.err("keyword arguments of an in-place method", s)
        rt = self.ptype(recv).find()
        if rt.kind != "list":
            self.err(f"in-place method `{meth}` of a {rt!r}", s)

        def elem_atom(a):
            at, ty = self.atom(a, out)
            unify(rt.elem, ty, a)
            return at

        # value temporaries (and their oracles) come before the store
        pre = None
        if meth == "append" and len(args) == 1:
            pre = elem_atom(args[0])
        elif meth == "insert" and len(args) == 2:
            pre = elem_atom(args[1])
        elif meth == "extend" and len(args) == 1:
            if not self.is_heap_expr(args[0]):
                self.err("extend by something that is not a list", s)
            pre = self.var_of(args[0], out)
            unify(rt, self.ptype(args[0]), s)

        def opf():
            if meth == "append" and len(args) == 1:
                return f"MAppend ({pre})"
            if meth == "extend" and len(args) == 1:
                return f"MExtend {S(pre)}"
            if meth == "insert" and len(args) == 2:
                return f"MInsert ({self.idx(recv, args[0])}) ({pre})"
            if meth == "pop" and len(args) <= 1:
                return f"MDelIdx ({self.idx(recv, args[0]) if args else 'ILast'})"
            if meth == "remove" and len(args) == 1:
                self.ptype(args[0])
                self.oracle("find", self.src(recv), self.src(args[0]))
                return "MDelIdx IOr"
            if meth == "sort":
                self.need_imm(rt.elem, s)
                return "MSort"
            if meth == "reverse" and not args:
                return "MReverse"
            if meth == "clear" and not args:
                return "MClear"
            self.err(f"unsupported in-place method `{meth}`", s)
        self.emit_mut(recv, s, opf, out)

    def assign(self, target, value, s, out):
        if isinstance(target, ast.Name):
            t = self.vtype(value)
            if not is_heap(t):
                unify(self.ntype(target.id), t, s)
                if self.is_inline(value):
                    self.inline_call(value, out)
                return
            r, t = self.rhs(value, out)
            unify(self.ntype(target.id), t, s)
            if target.id in self.rename:
                self.err(f"an inlined helper re-binds its heap parameter `{target.id}`", s)
            out.append(f"SBind {S(self.v(target.id))} ({r})")
            return
        if isinstance(target, (ast.Tuple, ast.List)):
            if isinstance(value, (ast.Tuple, ast.List)) and len(value.elts) == len(target.elts):
                for x in value.elts:
                    self.need_imm(self.ptype(x), x)
            else:
                self.need_imm(self.ptype(value), value)
            self.bind_imm_target(target)
            return
        if isinstance(target, ast.Attribute):
            self.err("attribute assignment (setattr)", s)
        if isinstance(target, ast.Subscript):
            bt = self.ptype(target.value).find()
            if not is_heap(bt):
                self.err("store into an element of something not known to be a local list", s)
            if bt.kind == "dict":
                k = target.slice
                if not (isinstance(k, ast.Constant) and k.value in self.w.fnames):
                    self.err("dict store with a key that is not a field name", s)
                at, _ = self.atom(value, out)
                self.emit_mut(target.value, s, lambda: f"MSet (IConst {self.w.fnames.index(k.value)}) ({at})", out)
                return
            if bt.kind != "list":
                self.err(f"store into an element of a {bt!r}", s)
            if isinstance(target.slice, ast.Slice):
                if target.slice.step is not None or not self.is_heap_expr(value):
                    self.err("unsupported slice assignment", s)
                y = self.var_of(value, out)
                unify(bt, self.ptype(value), s)

                def opf():
                    self.oracle("slice", self.src(target.value), self.src(target.slice.lower) if target.slice.lower else None,
                                self.src(target.slice.upper) if target.slice.upper else None)
                    return f"MSetSlice {S(y)}"
                self.emit_mut(target.value, s, opf, out)
                return
            at, ty = self.atom(value, out)
            unify(bt.elem, ty, s)
            self.emit_mut(target.value, s, lambda: f"MSet ({self.idx(target.value, target.slice)}) ({at})", out)
            return
        self.err("unsupported assignment target", s)

    def augassign(self, s, out):
        t = s.target
        if isinstance(t, ast.Name):
            tt = self.ntype(t.id)
            if not is_heap(tt, force=False) and not self.is_heap_expr(s.value):
                unify(tt, IMM(), s)
                self.need_imm(self.ptype(s.value), s.value)
                return
            if tt.find().kind == "list" and isinstance(s.op, ast.Add):
                if not self.is_heap_expr(s.value):
                    self.err("list += something that is not a list", s)
                y = self.var_of(s.value, out)
                unify(tt, self.ptype(s.value), s)
                self.emit_mut(t, s, lambda: f"MExtend {S(y)}", out)
                return
            self.err("augmented assignment on a non-integer that is not `list += list`", s)
        if isinstance(t, ast.Subscript):
            et = self.ptype(t)
            if is_heap(et):     # element is itself a list: x[i] += y extends it in place
                if not (isinstance(s.op, ast.Add) and self.is_heap_expr(s.value) and not isinstance(t.slice, ast.Slice)):
                    self.err("augmented assignment on a non-integer element", s)
                y = self.var_of(s.value, out)
                self.emit_mut(t, s, lambda: f"MExtend {S(y)}", out)
                return
            self.need_imm(self.ptype(s.value), s.value)
            bt = self.ptype(t.value).find()
            if not is_heap(bt):
                self.err("store into an element of something not known to be a local list", s)
            if isinstance(t.slice, ast.Slice):
                self.err("augmented slice assignment", s)
            self.emit_mut(t.value, s, lambda: f"MSet ({self.idx(t.value, t.slice)}) (AImm)", out)
            return
        self.err("augmented assignment to an attribute", s)


def _table_sig(tab):
    return [(v["line"], v["end"], v["kind"], v["first"], tuple(v["oracles"]), v["mayraise"], v["tryid"],
             tuple(v["hfirst"] or ())) for _, v in sorted(tab.items())]


# --------------------------------------------------------------------------
# driver
# --------------------------------------------------------------------------
def translate(repo_python):
    """returns (irs: name -> dict(params, body, muts) or None, errors: name -> str, world)"""
    irs, errors = {}, {}
    try:
        world = World(repo_python)
    except Unsupported as ex:
        return {n: None for n in TARGETS}, {n: str(ex) for n in TARGETS}, None
    for name, spec in TARGETS.items():
        try:
            act = Act(world, name, spec)
            world.stack = [spec[1]]
            body = act.translate_body()
            irs[name] = {"params": [act.v(p) for p in act.pnames], "body": body, "muts": act.muts,
                         "heap_params": [p for p in act.pnames if act.pkinds[p] != "imm"], "fnkey": act.fnkey}
        except Unsupported as ex:
            irs[name] = None
            ex.fn = ex.fn or f"{spec[0]}:{spec[1]}"
            errors[name] = str(ex)
        except RecursionError:
            irs[name] = None
            errors[name] = f"{spec[0]}:{spec[1]}: recursion"
    return irs, errors, world


# a program that is NOT fresh_only (stores into its parameter): stands for a function that could not be translated
UNTRANSLATED = '{| params := ["x"]; body := SMut "x" MClear |}'


def coq_text(irs, errors, fields):
    lines = [
        "(* GENERATED by harness/heap_ir.py from the Python source of the tree under test. Do not edit. *)",
        "From Coq Require Import List String.",
        "From TV Require Import model.HeapSem.",
        "Import ListNotations.",
        "Local Open Scope string_scope.",
        "Local Open Scope list_scope.",
        "",
        "(* fields of tak.game.Position, in declaration order (slot numbers of position objects and of the `delta` dict) *)",
        "Definition position_fields : list string := [" + "; ".join(S(f) for f, _ in fields) + "].",
        "",
    ]
    for name in TARGETS:
        ir = irs.get(name)
        rel, qual, _ = TARGETS[name]
        if ir is None:
            lines.append(f"(* {rel}:{qual} could NOT be translated: {errors.get(name, '?').replace('*)', '* )')} *)")
            lines.append(f"Definition {name}_ir : prog := {UNTRANSLATED}.")
            lines.append(f"Definition {name}_translated : bool := false.")
        else:
            lines.append(f"(* {rel}:{qual}; in-place operations at source lines {sorted(set(m[0] for m in ir['muts']))} *)")
            lines.append(f"Definition {name}_ir : prog := {{| params := [{'; '.join(S(p) for p in ir['params'])}];\n body :=\n{ir['body']} |}}.")
            lines.append(f"Definition {name}_translated : bool := true.")
        lines.append("")
    lines.append("Definition all_irs : list (string * prog) := [" +
                 "; ".join(f"({S(n)}, {n}_ir)" for n in TARGETS) + "].")
    lines.append("Definition all_translated : bool := " + " && ".join(f"{n}_translated" for n in TARGETS) + ".")
    return "\n".join(lines) + "\n"


# --------------------------------------------------------------------------
# diagnostic mirror of fresh_only (names the offending store; the proof obligation is the Coq one)
# --------------------------------------------------------------------------
def offending_stores(ir_text_body, muts, params):
    """flow-insensitive: names bound by something that is not an allocation, or parameters, that are stored into"""
    import re
    nonfresh = set(params)
    for m in re.finditer(r'SBind "([^"]+)" \((R\w+)', ir_text_body):
        if m.group(2) in ("RAtom", "RIdx"):
            nonfresh.add(m.group(1))
    for m in re.finditer(r'SLoop \(Some \("([^"]+)"', ir_text_body):
        nonfresh.add(m.group(1))
    for m in re.finditer(r'SCall "([^"]+)"', ir_text_body):
        nonfresh.add(m.group(1))
    return [m for m in muts if m[2] in nonfresh]


# --------------------------------------------------------------------------
# oracle recording (sys.settrace on the untouched implementation)
# --------------------------------------------------------------------------
BIG = 10 ** 6


class Tracer:
    def __init__(self, world):
        self.tables = {}
        self._real = {}
        for fnkey, tab in world.tables.items():
            rel, qual = fnkey.split(":")
            fname = os.path.realpath(str(Path(world.repo_python) / rel))
            line2stmt = {}
            for sid, info in tab.items():
                for ln in range(info["line"], info["end"] + 1):
                    line2stmt[ln] = sid
            self.tables[(fname, qual)] = (tab, line2stmt)
        self.reset()

    def real(self, f):
        r = self._real.get(f)
        if r is None:
            r = self._real[f] = os.path.realpath(f)
        return r

    def reset(self):
        self.out = []
        self.frames = {}
        self.problem = None

    def _emit_pending(self, fs, new_sid):
        p = fs.get("pending")
        if p is not None:
            self.out.append(1 if (new_sid is not None and new_sid == p["first"]) else 0)
            fs["pending"] = None

    def _eval(self, frame, src):
        return eval(src, {**frame.f_globals, **frame.f_locals})  # noqa: S307 (source text of the function itself)

    def _oracles(self, frame, info):
        for spec in info["oracles"]:
            try:
                if spec[0] == "index":
                    c, i = self._eval(frame, spec[1]), int(self._eval(frame, spec[2]))
                    if i < 0:
                        i += len(c)
                    self.out.append(i if 0 <= i else BIG)
                elif spec[0] == "slice":
                    c = self._eval(frame, spec[1])
                    lo = None if spec[2] is None else self._eval(frame, spec[2])
                    hi = None if spec[3] is None else self._eval(frame, spec[3])
                    a, b, _ = slice(lo, hi).indices(len(c))
                    self.out += [a, max(a, b)]
                elif spec[0] == "int":
                    self.out.append(max(0, int(self._eval(frame, spec[1]))))
                elif spec[0] == "len":
                    self.out.append(len(list(self._eval(frame, spec[1]))))
                elif spec[0] == "find":
                    self.out.append(list(self._eval(frame, spec[1])).index(self._eval(frame, spec[2])))
            except Exception as ex:  # noqa
                self.problem = f"oracle {spec}: {ex!r}"
                self.out.append(BIG)

    def _local(self, frame, event, arg):
        fs = self.frames.get(id(frame))
        if fs is None:
            return None
        tab, line2stmt = fs["tab"]
        if event == "line":
            sid = line2stmt.get(frame.f_lineno)
            if sid is None or sid == fs["last"]:
                return self._local
            prev = fs["last"]
            self._emit_handler(fs, sid)
            self._emit_pending(fs, sid)
            fs["last"] = sid
            fs["exc"] = False
            info = tab[sid]
            fs["ph"] = None
            reentry = info["kind"] == "loop" and prev is not None and info["id"] < prev <= (info["body_last"] or -1)
            if info["mayraise"] and not reentry:
                fs["ph"] = len(self.out)      # placeholder of the statement's `SIf SRaise SSkip`
                self.out.append(0)
            if info["kind"] in ("if", "loop"):
                fs["pending"] = info
            elif info["kind"] == "simple":
                self._oracles(frame, info)
        elif event == "return":
            self._emit_handler(fs, None)
            self._emit_pending(fs, None)
            parent = self.frames.get(id(frame.f_back)) if frame.f_back is not None else None
            if parent is not None and fs["exc"]:
                parent["child_raised"] = True
            del self.frames[id(frame)]
        elif event == "exception":
            fs["pending"] = None
            fs["exc"] = True
            info = tab.get(fs["last"]) if fs["last"] is not None else None
            if info is not None and info["tryid"] is not None and fs["await"] is None:
                if not info["is_raise"] and not fs["child_raised"]:
                    # an exception that is not an explicit raise: the statement's guard fired, the statement did nothing
                    if fs["ph"] is None or info["calls"]:
                        self.problem = f"exception inside a try body at a point the IR has no guard for (line {frame.f_lineno})"
                    else:
                        self.out[fs["ph"]] = 1
                        del self.out[fs["ph"] + 1:]
                fs["await"] = tab[info["tryid"]]
            fs["child_raised"] = False
        return self._local

    def _emit_handler(self, fs, new_sid):
        """which handler of the try statement took the exception (none: it propagates)"""
        aw = fs["await"]
        if aw is not None:
            hf = aw["hfirst"] or []
            if new_sid is not None and new_sid in hf:
                self.out += [0] * hf.index(new_sid) + [1]
            else:
                self.out += [0] * len(hf)
            fs["await"] = None

    def _global(self, frame, event, arg):
        if event != "call":
            return None
        co = frame.f_code
        key = (self.real(co.co_filename), co.co_qualname)
        t = self.tables.get(key)
        if t is None:
            return None
        self.frames[id(frame)] = {"tab": t, "last": None, "pending": None, "ph": None, "await": None, "exc": False,
                                  "child_raised": False}
        return self._local

    def run(self, fn, *args, **kw):
        """returns (result or None, exception or None, oracle list, problem)"""
        self.reset()
        old = sys.gettrace()
        sys.settrace(self._global)
        try:
            try:
                res, exc = fn(*args, **kw), None
            except Exception as ex:  # noqa
                res, exc = None, ex
        finally:
            sys.settrace(old)
        return res, exc, list(self.out), self.problem
