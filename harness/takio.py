"""implementation objects (tak.Move, tak.Position, ...) -> Coq literals of model/Tak.v (via model/Lit.v)"""
from .core import cz, czlist, clist, copt

MT = {1: "PF", 2: "PS", 3: "PC", 4: "SL", 5: "SR", 6: "SU", 7: "SD"}


def c_move(m):
    sl = None if m.slides is None else czlist(m.slides)
    return f"(M {cz(m.x)} {cz(m.y)} {MT[m.type.value]} {copt(sl)})"


def c_piece(p):
    return "WB"[p.color.value] + "FSC"[p.kind.value]


def c_stack(s):
    return clist([c_piece(p) for p in s])


def c_board(b):
    return clist([c_stack(s) for s in b])


def c_pos(p):
    s = p.stones
    return (f"(P {cz(p.size)} {cz(s[0].stones)} {cz(s[0].caps)} {cz(s[1].stones)} {cz(s[1].caps)} "
            f"{cz(p.ply)} {c_board(p.board)})")


def c_color(c):
    return "None" if c is None else ("(Some White)" if c.value == 0 else "(Some Black)")


def j_move(m):
    return {"x": m.x, "y": m.y, "type": m.type.name, "slides": None if m.slides is None else list(m.slides)}


def j_pos(p):
    from tak.ptn import tps
    try:
        t = tps.format_tps(p)
    except Exception:  # noqa
        t = None
    return {"size": p.size, "ply": p.ply, "tps": t,
            "stones": [[s.stones, s.caps] for s in p.stones],
            "board": [[c_piece(x) for x in sq] for sq in p.board]}


def mk_move(d):
    import tak
    return tak.Move(d["x"], d["y"], tak.MoveType[d["type"]], None if d["slides"] is None else tuple(d["slides"]))


def mk_pos(d):
    import tak
    board = [[tak.Piece.cached(tak.Color("WB".index(s[0])), tak.Kind("FSC".index(s[1]))) for s in sq] for sq in d["board"]]
    return tak.Position(size=d["size"], ply=d["ply"],
                        stones=tuple(tak.StoneCounts(stones=a, caps=b) for a, b in d["stones"]), board=board)
