From Coq Require Import List ZArith Bool Lia.
Import ListNotations.

Fixpoint slides_fuel (fuel : nat) (n : nat) : list (list nat) :=
  match fuel with
  | O => []
  | S f => flat_map (fun i => [i] :: map (cons i) (slides_fuel f (n - i))) (seq 1 n)
  end.
Definition all_slides n := slides_fuel n n.

Definition sum (l : list nat) := fold_right Nat.add 0 l.
Definition good n (s : list nat) := s <> [] /\ Forall (fun d => 1 <= d) s /\ sum s <= n.

Lemma slides_fuel_spec : forall f n s, n <= f -> (In s (slides_fuel f n) <-> good n s).
Proof.
  induction f as [|f IH]; intros n s Hf.
  - assert (n = 0) by lia; subst. simpl. split; [tauto|].
    intros (Hne & Hall & Hs). destruct s as [|d s]; [congruence|].
    inversion Hall; subst. simpl in Hs. lia.
  - cbn [slides_fuel]. rewrite in_flat_map. split.
    + intros (i & Hi & Hin). apply in_seq in Hi. destruct Hin as [Hin|Hin].
      * subst s. repeat split; [congruence| constructor; [lia|constructor] | simpl; lia].
      * apply in_map_iff in Hin. destruct Hin as (t & <- & Ht).
        apply IH in Ht; [|lia]. destruct Ht as (Hne & Hall & Hs).
        repeat split; [congruence | constructor; [lia|assumption] | simpl; lia].
    + intros (Hne & Hall & Hs). destruct s as [|d t]; [congruence|].
      inversion Hall as [|? ? Hd Ht]; subst. simpl in Hs.
      exists d. split; [apply in_seq; lia|].
      destruct t as [|e t'].
      * left; reflexivity.
      * right. apply in_map. apply IH; [lia|].
        repeat split; [congruence | assumption | simpl in *; lia].
Qed.

Theorem all_slides_spec n s : In s (all_slides n) <-> good n s.
Proof. apply slides_fuel_spec; lia. Qed.

Lemma NoDup_flat_map {A B} (f : A -> list B) l :
  NoDup l -> (forall a, In a l -> NoDup (f a)) ->
  (forall a b x, In a l -> In b l -> In x (f a) -> In x (f b) -> a = b) ->
  NoDup (flat_map f l).
Proof.
  induction l as [|a l IH]; intros Hnd Hf Hdisj; simpl; [constructor|].
  inversion Hnd as [|? ? Hna Hnd']; subst.
  apply NoDup_app_iff_like.
Abort.
