From Coq Require Import List ZArith QArith Bool Lia Lqa.
Import ListNotations.

(* abstract game: positions, terminal outcome for side to move, expansion *)
Section Mcts.
  Variable pos : Type.
  Variable terminal : pos -> option Q.           (* Some outcome (+1/-1/0 for side to move) if over *)
  Variable expand : pos -> list pos * Q.          (* children positions (legal & above cutoff) and v0, from evaluator *)

  Inductive node := Node (p : pos) (v0 value : Q) (sims : nat) (kids : option (list node)).
  Definition n_sims n := match n with Node _ _ _ s _ => s end.
  Definition n_value n := match n with Node _ _ v _ _ => v end.
  Definition n_v0 n := match n with Node _ v _ _ _ => v end.
  Definition n_kids n := match n with Node _ _ _ _ k => k end.
  Definition n_pos n := match n with Node p _ _ _ _ => p end.
  Definition fresh p := Node p 0 0 0 None.

  Fixpoint upd_nth {A} (l : list A) (i : nat) (f : A -> A) : list A :=
    match l, i with [], _ => [] | h :: t, O => f h :: t | h :: t, S i => h :: upd_nth t i f end.

  (* one simulation: returns new node and the value credited to THIS node *)
  Fixpoint simulate (choices : list nat) (n : node) {struct choices} : node * Q :=
    match n with Node p v0 value sims kids =>
      match kids with
      | None =>
        match terminal p with
        | Some o => (Node p o (value + o) (S sims) None, o)
        | None => let '(ps, v) := expand p in (Node p v (value + v) (S sims) (Some (map fresh ps)), v)
        end
      | Some ks =>
        match choices with
        | [] => (n, 0)   (* ill-formed choice stream *)
        | c :: rest =>
          match nth_error ks c with
          | None => (n, 0)
          | Some k => let '(k', vk) := simulate rest k in
                      let v := - vk in
                      (Node p v0 (value + v) (S sims) (Some (upd_nth ks c (fun _ => k'))), v)
          end
        end
      end
    end.

  Definition sumn (l : list nat) := fold_right Nat.add 0%nat l.
  Definition sumq (l : list Q) := fold_right Qplus 0 l.

  Inductive Good : node -> Prop :=
  | G_unvisited p : Good (Node p 0 0 0 None)
  | G_terminal p o k v : terminal p = Some o -> v == inject_Z (Z.of_nat (S k)) * o -> Good (Node p o v (S k) None)
  | G_expanded p v0 value sims ks :
      terminal p = None -> Forall Good ks ->
      sims = S (sumn (map n_sims ks)) ->
      value == v0 - sumq (map n_value ks) ->
      map n_pos ks = fst (expand p) -> v0 = snd (expand p) ->
      Good (Node p v0 value sims (Some ks)).

  Inductive valid : list nat -> node -> Prop :=
  | V_leaf p v0 value sims : valid [] (Node p v0 value sims None)
  | V_inner p v0 value sims ks c rest k : nth_error ks c = Some k -> valid rest k -> valid (c :: rest) (Node p v0 value sims (Some ks)).

  Lemma upd_nth_map {A B} (g : A -> B) l i (a : A) :
    map g (upd_nth l i (fun _ => a)) = upd_nth (map g l) i (fun _ => g a).
  Proof. revert i; induction l as [|h t IH]; intros [|i]; simpl; auto. f_equal; auto. Qed.
  Lemma sumn_upd l i x y : nth_error l i = Some x -> (sumn (upd_nth l i (fun _ => y)) + x = sumn l + y)%nat.
  Proof. revert i; induction l as [|h t IH]; intros [|i] H; simpl in *; try discriminate.
    - inversion H; subst. lia.
    - specialize (IH _ H). lia. Qed.
  Lemma sumq_upd l i x y : nth_error l i = Some x -> sumq (upd_nth l i (fun _ => y)) + x == sumq l + y.
  Proof. revert i; induction l as [|h t IH]; intros [|i] H; simpl in *; try discriminate.
    - inversion H; subst. ring.
    - specialize (IH _ H). rewrite <- Qplus_assoc, IH. ring. Qed.
  Lemma Forall_upd {A} (P : A -> Prop) l i a : Forall P l -> P a -> Forall P (upd_nth l i (fun _ => a)).
  Proof. intros H; revert i; induction H as [|h t Hh Ht IH]; intros [|i] Ha; simpl; constructor; auto. Qed.
  Lemma nth_error_map' {A B} (g : A -> B) l i a : nth_error l i = Some a -> nth_error (map g l) i = Some (g a).
  Proof. intros H. rewrite nth_error_map, H. reflexivity. Qed.
  Lemma Forall_fresh ps : Forall Good (map fresh ps).
  Proof. induction ps; simpl; constructor; auto. constructor. Qed.
  Lemma sums_fresh ps : sumn (map n_sims (map fresh ps)) = 0%nat /\ sumq (map n_value (map fresh ps)) == 0 /\ map n_pos (map fresh ps) = ps.
  Proof. induction ps as [|a ps (A & B & C)]; simpl; repeat split; auto; try reflexivity.
    - rewrite B; ring. - f_equal; assumption. Qed.

  (* the simulation keeps the invariant, adds exactly one visit, keeps the position, and
     credits to the node exactly the increment of its value *)
  Theorem simulate_good : forall cs n, Good n -> valid cs n ->
    let '(n', v) := simulate cs n in
    Good n' /\ n_sims n' = S (n_sims n) /\ n_pos n' = n_pos n /\ n_value n' == n_value n + v.
  Proof.
    induction cs as [|c rest IH]; intros n Hg Hv; inversion Hv; subst; simpl.
    - (* leaf *)
      inversion Hg; subst.
      + destruct (terminal p) as [o|] eqn:Ht.
        * repeat split; try reflexivity. eapply (G_terminal p o 0); [assumption|]. simpl. ring.
        * destruct (expand p) as (ps, v) eqn:He. repeat split; try reflexivity.
          destruct (sums_fresh ps) as (A & B & C).
          apply G_expanded; auto using Forall_fresh; try (rewrite He; simpl; auto).
          all: try (rewrite A; reflexivity).
          all: try (rewrite B; ring).
      + match goal with H : terminal p = Some _ |- _ => rewrite H end.
        repeat split; try reflexivity. eapply G_terminal; [eassumption|].
        match goal with H : _ == _ |- _ => rewrite H end.
        rewrite !Nat2Z.inj_succ. unfold Z.succ. rewrite !inject_Z_plus. ring.
    - (* inner *)
      match goal with H : nth_error ks c = Some k |- _ => rewrite H; rename H into Hn end.
      inversion Hg as [| |? ? ? ? ? Ht Hall Hs Hval Hp Hv0]; subst.
      assert (Hk : Good k) by (eapply Forall_forall; [eassumption|]; eapply nth_error_In; eassumption).
      match goal with H : valid rest k |- _ => specialize (IH k Hk H) end. destruct (simulate rest k) as (k', vk).
      destruct IH as (Hk' & Hs' & Hp' & Hv').
      repeat split; try reflexivity.
      apply G_expanded; auto using Forall_upd.
      + rewrite upd_nth_map. pose proof (sumn_upd _ c _ (n_sims k') (nth_error_map' n_sims _ _ _ Hn)). lia.
      + rewrite upd_nth_map. pose proof (sumq_upd _ c _ (n_value k') (nth_error_map' n_value _ _ _ Hn)) as E.
        simpl n_value in *. lra.
      + rewrite upd_nth_map. rewrite <- Hp. clear -Hn Hp'.
        revert c Hn; induction ks as [|h t IHt]; intros [|c] Hn; simpl in *; try discriminate.
        * inversion Hn; subst. f_equal. assumption.
        * f_equal. eauto.
  Qed.
End Mcts.
Check simulate_good. Print Assumptions simulate_good.
