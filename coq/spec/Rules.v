(* The rules of Tak for one move, stated declaratively and POINTWISE IN
   COORDINATES: squares are addressed by (x, y) through `sq p x y`; nothing in
   this file walks the board list, runs a loop or mentions a list index of the
   board.  `legal_step p m p'` reads "the rules allow move m in position p and
   p' is the position they prescribe".  It is written like the rulebook:

   * the origin square is on the board;
   * PLACEMENT: the two opening plies place only a flat, of the OPPONENT's
     colour; later plies place a piece of the mover's colour; the square is
     empty; the reserve of the right kind (stones for flats and walls,
     capstones for capstones) of that colour is positive and exactly that
     counter goes down by one;
   * SLIDE: not in the opening; the mover owns the stack (its top piece);
     k = sum of the drops pieces are picked up, every drop >= 1,
     1 <= k <= size (carry limit), k <= height of the stack; every square
     origin + i*dir (i = 1 .. number of drops) is on the board; no such square
     has a capstone on top; a wall on top is allowed only on the LAST square,
     with drop 1, when what is still carried is a single capstone - the wall
     then becomes a flat of the same colour; the i-th square receives on top,
     in order, the slice of the carry between k - D_i and k - D_(i-1)
     (D_i = d_1 + ... + d_i; stacks and the carry are written top first), so
     the order of the stack is preserved along the slide; the origin keeps the
     pieces below the carry;
   * every other square, the reserves not touched and the size are
     unchanged; the ply counter advances by one.

   The model's `move` (model/Tak.v) is proved equal to this relation in
   proofs/MoveRules.v. *)
From Coq Require Import ZArith List Bool Lia.
From TV Require Import model.Tak.
Import ListNotations.
Open Scope Z_scope.

(* ---- well-formed positions (the domain of C01) ---- *)

(* every piece that is not the top of its stack is a flat *)
Definition buried_flat (s : stack) : Prop := Forall (fun q => pkind q = Flat) (tl s).

Definition wf_pos (p : position) : Prop :=
  3 <= size p <= 8 /\
  zlen (board p) = size p * size p /\
  Forall buried_flat (board p).

(* ---- vocabulary ---- *)

Definition on_board (p : position) (x y : Z) : Prop := 0 <= x < size p /\ 0 <= y < size p.

(* White moves on even plies *)
Definition mover (p : position) : color := if Z.even (ply p) then White else Black.

(* the four reserve counters: colour x (capstones? / stones) *)
Definition reserve (p : position) (c : color) (cap : bool) : Z :=
  match c, cap with
  | White, false => wstones p | White, true => wcaps p
  | Black, false => bstones p | Black, true => bcaps p
  end.

Definition is_capstone (k : kind) : bool := match k with Capstone => true | _ => false end.

Definition place_kind (t : mtype) : option kind :=
  match t with
  | PlaceFlat => Some Flat | PlaceStanding => Some Standing | PlaceCapstone => Some Capstone
  | _ => None
  end.

(* left/right change x, up/down change y; up is towards larger y *)
Definition slide_dir (t : mtype) : option (Z * Z) :=
  match t with
  | SlideLeft => Some (-1, 0) | SlideRight => Some (1, 0)
  | SlideUp => Some (0, 1) | SlideDown => Some (0, -1)
  | _ => None
  end.

(* the i-th square of the slide, i = 1 .. number of drops (i = 0 is the origin) *)
Definition target (m : mv) (dx dy : Z) (i : nat) : Z * Z :=
  (mx m + Z.of_nat i * dx, my m + Z.of_nat i * dy).

(* D_i: pieces dropped on the first i squares *)
Definition dropped_by (drops : list Z) (i : nat) : Z := zsum (firstn i drops).

(* what is still in hand after the first i drops: the top k - D_i pieces of the carry *)
Definition still_carried (carry : stack) (drops : list Z) (i : nat) : stack :=
  firstn (Z.to_nat (zsum drops - dropped_by drops i)) carry.

(* what the i-th square receives: the bottom d_i pieces of what was still carried,
   i.e. skipn (k - D_i) (firstn (k - D_(i-1)) carry) *)
Definition segment (carry : stack) (drops : list Z) (i : nat) : stack :=
  skipn (Z.to_nat (zsum drops - dropped_by drops i)) (still_carried carry drops (i - 1)).

(* a wall that is moved onto becomes a flat of the same colour; anything else stays *)
Definition flattened (s : stack) : stack :=
  match s with
  | top :: rest => match pkind top with
                   | Standing => mkPiece (pcolor top) Flat :: rest
                   | _ => s
                   end
  | [] => []
  end.

(* ---- the relation ---- *)

Inductive legal_step (p : position) (m : mv) (p' : position) : Prop :=
| Step_place (k : kind) (c : color)
    (Horigin : on_board p (mx m) (my m))
    (Hkind : place_kind (mt m) = Some k)
    (Hopening : ply p < 2 -> k = Flat /\ c = flip (mover p))
    (Hnormal : 2 <= ply p -> c = mover p)
    (Hempty : sq p (mx m) (my m) = [])
    (Hreserve : 0 < reserve p c (is_capstone k))
    (Hplaced : sq p' (mx m) (my m) = [mkPiece c k])
    (Hframe : forall x y, on_board p x y -> (x, y) <> (mx m, my m) -> sq p' x y = sq p x y)
    (Hcounters : forall c' cap', reserve p' c' cap' =
        reserve p c' cap' - (if color_eqb c' c && Bool.eqb cap' (is_capstone k) then 1 else 0))
    (Hsize : size p' = size p)
    (Hshape : zlen (board p') = size p * size p)
    (Hply : ply p' = ply p + 1)
| Step_slide (drops : list Z) (dx dy : Z)
    (Horigin : on_board p (mx m) (my m))
    (Hdir : slide_dir (mt m) = Some (dx, dy))
    (Hdrops : mslides m = Some drops)
    (Hnotopening : 2 <= ply p)
    (Hpositive : Forall (fun d => 1 <= d) drops)
    (Hlimit : 1 <= zsum drops <= size p)
    (Hheight : zsum drops <= zlen (sq p (mx m) (my m)))
    (Hown : exists top rest, sq p (mx m) (my m) = top :: rest /\ pcolor top = mover p)
    (Hpath : forall i, (1 <= i <= length drops)%nat ->
        on_board p (fst (target m dx dy i)) (snd (target m dx dy i)))
    (Hblock : forall i top rest, (1 <= i <= length drops)%nat ->
        sq p (fst (target m dx dy i)) (snd (target m dx dy i)) = top :: rest ->
        pkind top <> Capstone /\
        (pkind top = Standing ->
           i = length drops /\ nth (i - 1) drops 0 = 1 /\
           exists c, still_carried (firstn (Z.to_nat (zsum drops)) (sq p (mx m) (my m))) drops (i - 1) = [c] /\
                     pkind c = Capstone))
    (Hdropped : forall i, (1 <= i <= length drops)%nat ->
        sq p' (fst (target m dx dy i)) (snd (target m dx dy i)) =
        segment (firstn (Z.to_nat (zsum drops)) (sq p (mx m) (my m))) drops i
          ++ flattened (sq p (fst (target m dx dy i)) (snd (target m dx dy i))))
    (Hremains : sq p' (mx m) (my m) = skipn (Z.to_nat (zsum drops)) (sq p (mx m) (my m)))
    (Hframe : forall x y, on_board p x y -> (x, y) <> (mx m, my m) ->
        (forall i, (1 <= i <= length drops)%nat -> (x, y) <> target m dx dy i) ->
        sq p' x y = sq p x y)
    (Hcounters : forall c cap, reserve p' c cap = reserve p c cap)
    (Hsize : size p' = size p)
    (Hshape : zlen (board p') = size p * size p)
    (Hply : ply p' = ply p + 1).
