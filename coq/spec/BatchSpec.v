(* C12: vocabulary of the statements about encode_games / dedup (definitions only). *)
From Coq Require Import ZArith QArith List Bool.
From TV Require Import model.Tak model.SelfPlay model.Batch spec.SelfPlaySpec.
Import ListNotations.
Open Scope Z_scope.

(* the four per-ply lists of a transcript have one entry per recorded position (C11_lists_aligned) *)
Definition wf_transcript (tr : transcript) : Prop :=
  length (t_moves tr) = length (t_positions tr) /\
  length (t_probs tr) = length (t_positions tr) /\
  length (t_values tr) = length (t_positions tr).

(* number of rows contributed by the games before game g *)
Definition offset (logs : list transcript) (g : nat) : nat :=
  length (flat_map t_positions (firstn g logs)).

(* the rows of b whose key is k, in batch order *)
Definition occurrences (k : list Z) (b : batch) : batch := filter (fun r => key_eqb (key_of r) k) b.

(* row i is the first row of b with key k *)
Definition first_at (b : batch) (k : list Z) (i : nat) (r : row) : Prop :=
  nth_error b i = Some r /\ key_of r = k /\
  forall j r', (j < i)%nat -> nth_error b j = Some r' -> key_of r' <> k.

(* distinct keys in order of first occurrence: keep the head, drop its later copies *)
Fixpoint first_occ (ks : list (list Z)) : list (list Z) :=
  match ks with
  | [] => []
  | k :: t => k :: filter (fun k' => negb (key_eqb k' k)) (first_occ t)
  end.

(* index of the first occurrence of k *)
Fixpoint first_idx (ks : list (list Z)) (k : list Z) : option nat :=
  match ks with
  | [] => None
  | h :: t => if key_eqb h k then Some 0%nat else option_map S (first_idx t k)
  end.

Definition qmean (l : list Q) : Q := (qsum l / inject_Z (Z.of_nat (length l)))%Q.

(* equal rows, the rational targets up to Qeq *)
Definition row_equiv (a b : row) : Prop :=
  r_tokens a = r_tokens b /\ r_mask a = r_mask b /\ Forall2 Qeq (r_policy a) (r_policy b) /\
  (r_value a == r_value b)%Q /\ (r_label a == r_label b)%Q.
