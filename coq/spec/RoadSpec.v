(* Declarative statement of C02 (game-over adjudication), written over squares
   addressed by coordinates and independently of the flood fill.  Nothing here
   is executable: a road is the EXISTENCE of a path, the flat count is the
   size of the set of squares whose top is a flat.  Only the top piece of a
   stack (the head of the list, as in the Python code) is ever mentioned, so a
   buried piece cannot influence any statement below.  No proofs in this file
   (model/Road.v is imported only for the types `sqr` and `reason`). *)
From Coq Require Import ZArith List Bool.
From TV Require Import model.Tak model.Road.
Import ListNotations.
Open Scope Z_scope.

(* well-formed position for the purposes of adjudication *)
Definition wf_pos (p : position) : Prop :=
  1 <= size p /\ zlen (board p) = size p * size p.

Definition on_board (p : position) (v : sqr) : Prop :=
  0 <= fst v < size p /\ 0 <= snd v < size p.

(* v is on the board and the TOP piece of its stack is a flat or a capstone of
   colour c (a standing stone never is; what lies below is irrelevant) *)
Definition road_top (p : position) (c : color) (v : sqr) : Prop :=
  on_board p v /\
  exists top below, sq p (fst v) (snd v) = top :: below /\
    pcolor top = c /\ (pkind top = Flat \/ pkind top = Capstone).

Definition orth_adjacent (a b : sqr) : Prop :=
  (snd a = snd b /\ (fst a = fst b + 1 \/ fst a = fst b - 1)) \/
  (fst a = fst b /\ (snd a = snd b + 1 \/ snd a = snd b - 1)).

(* consecutive squares of the list are orthogonally adjacent *)
Fixpoint linked (l : list sqr) : Prop :=
  match l with
  | a :: ((b :: _) as t) => orth_adjacent a b /\ linked t
  | _ => True
  end.

(* the coordinate that has to run from 0 to size-1: x for a left-right road
   (horiz = true), y for a bottom-top road *)
Definition coord (horiz : bool) (v : sqr) : Z := if horiz then fst v else snd v.

(* a non-empty path first :: rest of road squares of colour c from the
   left (bottom) edge to the right (top) edge *)
Definition spans (p : position) (c : color) (horiz : bool) : Prop :=
  exists (first : sqr) (rest : list sqr),
    Forall (road_top p c) (first :: rest) /\
    linked (first :: rest) /\
    coord horiz first = 0 /\
    coord horiz (last (first :: rest) first) = size p - 1.

Definition road (p : position) (c : color) : Prop := spans p c true \/ spans p c false.

(* the road question: both -> the player who just moved; one -> that colour *)
Inductive road_verdict (p : position) : option color -> Prop :=
| rv_both : road p White -> road p Black -> road_verdict p (Some (flip (to_move p)))
| rv_one c : road p c -> ~ road p (flip c) -> road_verdict p (Some c)
| rv_none : ~ road p White -> ~ road p Black -> road_verdict p None.

Definition all_occupied (p : position) : Prop :=
  forall v, on_board p v -> sq p (fst v) (snd v) <> [].
Definition reserve_empty (p : position) : Prop :=
  wstones p + wcaps p = 0 \/ bstones p + bcaps p = 0.

Definition top_flat (p : position) (c : color) (v : sqr) : Prop :=
  on_board p v /\ exists below, sq p (fst v) (snd v) = mkPiece c Flat :: below.
(* k = the number of squares whose top piece is a flat of colour c *)
Definition top_flats (p : position) (c : color) (k : Z) : Prop :=
  exists L : list sqr, NoDup L /\ (forall v, In v L <-> top_flat p c v) /\ k = zlen L.

Definition flat_verdict (w b : Z) : option color :=
  match w ?= b with Gt => Some White | Lt => Some Black | Eq => None end.

(* the outcome the property describes, as a relation (road is a Prop) *)
Inductive outcome (p : position) : option color * option reason -> Prop :=
| out_road c : road_verdict p (Some c) -> outcome p (Some c, Some Road)
| out_flats w b :
    road_verdict p None -> all_occupied p \/ reserve_empty p ->
    top_flats p White w -> top_flats p Black b ->
    outcome p (flat_verdict w b, Some Flats)
| out_open :
    road_verdict p None -> ~ (all_occupied p \/ reserve_empty p) ->
    outcome p (None, None).
