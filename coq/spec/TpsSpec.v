(* Declarative side of C13: what a TPS text means according to the standard
   (ranks from the top rank down, files left to right, stacks bottom to top, the
   wall/capstone mark on the top piece, x<n> for runs of empty squares), which
   texts must be refused, and which texts are canonical.  Written against the
   text only; nothing here mentions the parser of model/Tps.v except the string
   primitives split / join (characterised in proofs/TpsProofs.v: split_join,
   join_split, split_no_sep). *)
From Coq Require Import ZArith List Bool.
From TV Require Import model.Tak model.Tps.
Import ListNotations.
Open Scope Z_scope.

(* ---------- the three fields and the board groups ---------- *)
Definition fields (s : str) : list str := split ch_space s.
Definition board_field (s : str) : str := nth 0 (fields s) [].
Definition who_field (s : str) : str := nth 1 (fields s) [].
Definition move_field (s : str) : str := nth 2 (fields s) [].
Definition groups (s : str) : list str := split ch_slash (board_field s).
Definition text_size (s : str) : Z := zlen (groups s).

(* positional value of a decimal numeral *)
Fixpoint dec_value (s : str) : Z :=
  match s with
  | [] => 0
  | c :: t => (c - ch_0) * 10 ^ zlen t + dec_value t
  end.

(* ---------- cells ---------- *)
(* x<n>, n in 1..8, stands for n empty squares *)
Definition expand_cell (c : str) : list str :=
  match c with
  | [x; d] => if (x =? ch_x) && (ch_1 <=? d) && (d <=? ch_8)
              then repeat [ch_x] (Z.to_nat (d - ch_0)) else [c]
  | _ => [c]
  end.
Definition cells_of_group (g : str) : list str := flat_map expand_cell (split ch_comma g).

(* the x-th cell (file x, 0-based) of rank y (0-based from the bottom): the
   (size-1-y)-th '/'-group, because the top rank is written first *)
Definition cell_text (s : str) (x y : Z) : str :=
  nth (Z.to_nat x) (cells_of_group (nth (Z.to_nat (text_size s - 1 - y)) (groups s) [])) [].

Definition color_of_char (c : Z) : option color :=
  if c =? ch_1 then Some White else if c =? ch_2 then Some Black else None.
Definition mark_of_char (c : Z) : option kind :=
  if c =? ch_S then Some Standing else if c =? ch_C then Some Capstone else None.

(* the colours are read bottom to top, every piece is flat, a trailing S / C
   applies to the last one read (the top); the result has the top piece first.
   "x" (an empty square) has no colour characters and gives []. *)
Definition stack_of_text (t : str) : stack :=
  let '(body, k) :=
      match rev t with
      | m :: rb => match mark_of_char m with Some k => (rev rb, k) | None => (t, Flat) end
      | [] => (t, Flat)
      end in
  match rev (flat_map (fun c => match color_of_char c with Some col => [col] | None => [] end) body) with
  | [] => []
  | top :: below => mkPiece top k :: map (fun c => mkPiece c Flat) below
  end.

(* ---------- reserves of the standard piece set ---------- *)
Definition standard_reserves (p : position) : Prop :=
  let c := mkCfg (size p) None None in
  wstones p = flat_count c - count_pieces (is_stone_of White) (board p) /\
  wcaps p = capstone_count c - count_pieces (is_cap_of White) (board p) /\
  bstones p = flat_count c - count_pieces (is_stone_of Black) (board p) /\
  bcaps p = capstone_count c - count_pieces (is_cap_of Black) (board p).

(* positions the notation can carry: size 3..8, a full board, walls and
   capstones only on top, a ply whose move number CPython can print *)
Definition wf_stack (st : stack) : Prop := forall q, In q (tl st) -> pkind q = Flat.
Definition wf (p : position) : Prop :=
  3 <= size p <= 8 /\
  zlen (board p) = size p * size p /\
  Forall wf_stack (board p) /\
  0 <= ply p /\
  ply p / 2 + 1 < 10 ^ max_str_digits.

(* ---------- texts that must be refused ---------- *)
(* a raw cell (before expanding x<n>) of some rank of the board field *)
Definition has_cell (s : str) (c : str) : Prop :=
  exists g, In g (groups s) /\ In c (split ch_comma g).
Definition is_digit_char (c : Z) : Prop := ch_0 <= c <= ch_9.
Definition is_mark_char (c : Z) : Prop := c = ch_S \/ c = ch_C.
Definition is_piece_char (c : Z) : Prop := c = ch_1 \/ c = ch_2.
Definition group_width (g : str) : Z := zlen (cells_of_group g).

Inductive must_refuse (s : str) : Prop :=
| mr_field_count : length (fields s) <> 3%nat -> must_refuse s
| mr_player : who_field s <> [ch_1] -> who_field s <> [ch_2] -> must_refuse s
| mr_move_empty : move_field s = [] -> must_refuse s
| mr_move_not_digits c : In c (move_field s) -> ~ is_digit_char c -> must_refuse s
| mr_move_below_one : dec_value (move_field s) < 1 -> must_refuse s
| mr_move_too_long : max_str_digits < zlen (move_field s) -> must_refuse s   (* more digits than int() converts *)
| mr_empty_row : In [] (groups s) -> must_refuse s
| mr_empty_cell : has_cell s [] -> must_refuse s
| mr_bad_empty_run rest :                               (* x followed by anything but nothing or one digit 1-8 *)
    has_cell s (ch_x :: rest) -> rest <> [] ->
    (forall d, rest = [d] -> ~ (ch_1 <= d <= ch_8)) -> must_refuse s
| mr_mark_on_nothing m post : has_cell s (m :: post) -> is_mark_char m -> must_refuse s
| mr_mark_not_last pre m c post : has_cell s (pre ++ m :: c :: post) -> is_mark_char m -> must_refuse s
| mr_foreign_char cell c :                              (* in a cell that is not an empty run *)
    has_cell s cell -> (forall rest, cell <> ch_x :: rest) -> In c cell ->
    ~ is_piece_char c -> ~ is_mark_char c -> must_refuse s
| mr_ragged g : In g (groups s) -> group_width g <> text_size s -> must_refuse s
| mr_size : text_size s < 3 \/ 8 < text_size s -> must_refuse s.

(* the move number passes isascii()/isdigit() but int() refuses it (more than
   4300 digits); the code turns that into IllegalTPS before the board is looked
   at (it is an instance of mr_move_too_long) *)
Definition over_int_limit (s : str) : Prop :=
  length (fields s) = 3%nat /\
  (who_field s = [ch_1] \/ who_field s = [ch_2]) /\
  move_field s <> [] /\ (forall c, In c (move_field s) -> is_digit_char c) /\
  max_str_digits < zlen (move_field s).

(* ---------- lenient spellings and canonical texts ---------- *)
(* accepted by the code, harmless, and the property takes no position on them *)
Definition lenient_leading_zero (s : str) : Prop := exists t, move_field s = ch_0 :: t.
Definition lenient_x1 (s : str) : Prop := has_cell s [ch_x; ch_1].
Definition lenient (s : str) : Prop := lenient_leading_zero s \/ lenient_x1 s.

Definition is_x_cell (c : str) : bool := match c with c0 :: _ => c0 =? ch_x | [] => false end.
(* the raw cells of one rank as an independent writer produces them: a run of
   empty squares is written once (no two empty-run cells in a row) and a run
   of one is "x", never "x1" *)
Fixpoint canonical_cells (cells : list str) : bool :=
  match cells with
  | [] => true
  | c :: t =>
    negb (str_eqb c [ch_x; ch_1]) &&
    negb (is_x_cell c && match t with c' :: _ => is_x_cell c' | [] => false end) &&
    canonical_cells t
  end.
Definition canonical (s : str) : Prop :=
  (forall g, In g (groups s) -> canonical_cells (split ch_comma g) = true) /\
  (forall t, move_field s <> ch_0 :: t).
