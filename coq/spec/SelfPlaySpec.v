(* C11: vocabulary of the statements about play_one_game (definitions only). *)
From Coq Require Import ZArith QArith Qabs List Bool.
From TV Require Import model.Tak model.Road model.SelfPlay.
Import ListNotations.
Open Scope Z_scope.

(* log.values entry for an engine answer: tree.value / tree.simulations *)
Definition row_value (a : answer) : Q := (a_value a / inject_Z (a_sims a))%Q.
(* abs(v_zero) >= threshold *)
Definition resign_now (cfg : sp_config) (a : answer) : Prop :=
  (sp_threshold cfg <= Qabs (a_vzero a))%Q.
(* the answer picks candidate m: children[multinomial(...)] *)
Definition picks (a : answer) (m : mv) : Prop := nthz (a_moves a) (a_pick a) = Some m.
Definition terminal (p : position) : Prop := snd (winner p) <> None.
Definition over_limit (cfg : sp_config) (p : position) : Prop := sp_ply_limit cfg < ply p.


(* how the final position (the loop variable at the break) is reached *)
Definition final_after (cfg : sp_config) (pos : position) (s : list answer) (tr : transcript) (f : position) : Prop :=
  (t_positions tr = [] /\ f = pos) \/
  (exists n p a m, length (t_positions tr) = S n /\ nth_error (t_positions tr) n = Some p /\
     nth_error s n = Some a /\ ~ resign_now cfg a /\ picks a m /\ move p m = Some f).


Fixpoint qsum (l : list Q) : Q := match l with [] => 0 | x :: t => x + qsum t end.

(* probs is a distribution over the candidates, |value| <= simulations *)
Definition good_answer (a : answer) : Prop :=
  length (a_probs a) = length (a_moves a) /\ Forall (fun p => 0 <= p)%Q (a_probs a) /\
  (qsum (a_probs a) == 1)%Q /\ 0 < a_sims a /\ (Qabs (a_value a) <= inject_Z (a_sims a))%Q.

