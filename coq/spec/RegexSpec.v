(* A small regular-expression language, sufficient for the seven patterns of
   python/tak/ptn/ptn.py: abstract syntax, a printer producing Python `re`
   syntax, and the standard declarative (set-of-matches) semantics.

   matches E r pre s post caps : r matches the substring s of the subject
   pre ++ s ++ post (pre / post = what precedes / follows; the anchors look at
   them), recording the captured groups caps (group number, text; a group
   that took part with the empty text is recorded with []).  E gives the
   meaning of the class escapes \s \d \w (the interpreter's Unicode tables).

   The relation contains EVERY way the expression can match; it does not model
   the backtracking order of `re` (leftmost start, greedy quantifiers, first
   alternative).  Where a theorem of proofs/TiePtnRegex.v needs a choice among
   several matches it says so: the patterns anchored by \A ... \Z are proved to
   have at most one match (so no choice exists); re.sub needs the leftmost
   start, and at that start the match is again proved unique.

   Anchors: Bos \A, Eos \Z (very end only), Bol ^ and Eol $ without re.M
   ($ also matches before a final newline), BolM / EolM the same two glyphs
   under re.M (after / before every newline).  The flag is not part of the
   pattern text; Bol/BolM and Eol/EolM print alike. *)
From Coq Require Import ZArith List Bool.
Import ListNotations.
Open Scope Z_scope.

Inductive citem := Single (c : Z) | Range (lo hi : Z).
Inductive esc := EscS | EscD | EscW.

Inductive regex :=
| Eps
| Chr (c : Z)                     (* one literal character *)
| Cls (l : list citem)            (* [...] *)
| NotCls (l : list citem)         (* [^...] *)
| Esc (k : esc)                   (* \s \d \w *)
| Seq (a b : regex)
| Alt (a b : regex)               (* a|b *)
| Opt (r : regex)                 (* r? *)
| Star (r : regex)                (* r* *)
| Plus (r : regex)                (* r+ *)
| Group (n : nat) (r : regex)     (* (r), the n-th capturing group *)
| Bos | Eos | Bol | Eol | BolM | EolM.

Definition in_item (c : Z) (it : citem) : bool :=
  match it with Single d => c =? d | Range lo hi => (lo <=? c) && (c <=? hi) end.
Definition in_items (c : Z) (l : list citem) : bool := existsb (in_item c) l.

Definition caps := list (nat * list Z).

Inductive matches (E : esc -> Z -> bool) : regex -> list Z -> list Z -> list Z -> caps -> Prop :=
| MEps pre post : matches E Eps pre [] post []
| MChr c pre post : matches E (Chr c) pre [c] post []
| MCls l c pre post : in_items c l = true -> matches E (Cls l) pre [c] post []
| MNotCls l c pre post : in_items c l = false -> matches E (NotCls l) pre [c] post []
| MEsc k c pre post : E k c = true -> matches E (Esc k) pre [c] post []
| MSeq a b pre s1 s2 post c1 c2 :
    matches E a pre s1 (s2 ++ post) c1 -> matches E b (pre ++ s1) s2 post c2 ->
    matches E (Seq a b) pre (s1 ++ s2) post (c1 ++ c2)
| MAltL a b pre s post c : matches E a pre s post c -> matches E (Alt a b) pre s post c
| MAltR a b pre s post c : matches E b pre s post c -> matches E (Alt a b) pre s post c
| MOptNone r pre post : matches E (Opt r) pre [] post []
| MOptSome r pre s post c : matches E r pre s post c -> matches E (Opt r) pre s post c
| MStarNil r pre post : matches E (Star r) pre [] post []
| MStarCons r pre s1 s2 post c1 c2 :
    s1 <> [] -> matches E r pre s1 (s2 ++ post) c1 -> matches E (Star r) (pre ++ s1) s2 post c2 ->
    matches E (Star r) pre (s1 ++ s2) post (c1 ++ c2)
| MPlus r pre s1 s2 post c1 c2 :
    matches E r pre s1 (s2 ++ post) c1 -> matches E (Star r) (pre ++ s1) s2 post c2 ->
    matches E (Plus r) pre (s1 ++ s2) post (c1 ++ c2)
| MGroup n r pre s post c : matches E r pre s post c -> matches E (Group n r) pre s post (c ++ [(n, s)])
| MBos post : matches E Bos [] [] post []
| MEos pre : matches E Eos pre [] [] []
| MBol post : matches E Bol [] [] post []
| MEol pre post : post = [] \/ post = [10] -> matches E Eol pre [] post []
| MBolM pre post : pre = [] \/ (exists p, pre = p ++ [10]) -> matches E BolM pre [] post []
| MEolM pre post : post = [] \/ (exists q, post = 10 :: q) -> matches E EolM pre [] post [].

(* re.search: some substring of the subject matches *)
Definition search (E : esc -> Z -> bool) (r : regex) (text : list Z) (c : caps) : Prop :=
  exists pre s post, text = pre ++ s ++ post /\ matches E r pre s post c.

(* ------------------------------------------------------------------ *)
(* printer: Python syntax                                               *)
(* ------------------------------------------------------------------ *)
(* . [ ] \ ( ) * + ? | ^ $ are written with a backslash outside a class *)
Definition special (c : Z) : bool := existsb (Z.eqb c) [46; 91; 93; 92; 40; 41; 42; 43; 63; 124; 94; 36].
Definition show_chr (c : Z) : list Z := if special c then [92; c] else [c].
Definition show_item (it : citem) : list Z :=
  match it with Single c => [c] | Range lo hi => [lo; 45; hi] end.

Fixpoint show (r : regex) : list Z :=
  match r with
  | Eps => []
  | Chr c => show_chr c
  | Cls l => 91 :: flat_map show_item l ++ [93]
  | NotCls l => 91 :: 94 :: flat_map show_item l ++ [93]
  | Esc EscS => [92; 115]
  | Esc EscD => [92; 100]
  | Esc EscW => [92; 119]
  | Seq a b => show a ++ show b
  | Alt a b => show a ++ 124 :: show b
  | Opt r => show r ++ [63]
  | Star r => show r ++ [42]
  | Plus r => show r ++ [43]
  | Group _ r => 40 :: show r ++ [41]
  | Bos => [92; 65]
  | Eos => [92; 90]
  | Bol | BolM => [94]
  | Eol | EolM => [36]
  end.

(* The printed text reads back as the same expression only when
   - the operand of ? * + is a single atom (character, class, escape, group),
   - an alternation stands directly inside a group or at the top,
   - inside a class: no backslash or closing bracket, a minus sign only as
     the last item, a circumflex not as the first item of a positive class,
   - the capturing groups are numbered 1, 2, ... in order of their opening
     parenthesis.
   syntax_ok checks exactly that (evaluated by computation for each pattern). *)
Definition atomic (r : regex) : bool :=
  match r with Chr _ | Cls _ | NotCls _ | Esc _ | Group _ _ => true | _ => false end.

Fixpoint items_ok (first : bool) (l : list citem) : bool :=
  match l with
  | [] => true
  | it :: rest =>
    (match it with
     | Single c => negb (c =? 92) && negb (c =? 93) && negb (first && (c =? 94))
                   && (negb (c =? 45) || match rest with [] => true | _ => false end)
     | Range lo hi => (lo <=? hi) && negb (lo =? 92) && negb (lo =? 93) && negb (hi =? 92) && negb (hi =? 93)
                      && negb (lo =? 45) && negb (hi =? 45) && negb (first && (lo =? 94))
     end) && items_ok false rest
  end.

Fixpoint shape_ok (top : bool) (r : regex) : bool :=
  match r with
  | Cls l => items_ok true l && match l with [] => false | _ => true end
  | NotCls l => items_ok false l && match l with [] => false | _ => true end
  | Seq a b => shape_ok false a && shape_ok false b
  | Alt a b => top && shape_ok true a && shape_ok true b
  | Opt r | Star r | Plus r => atomic r && shape_ok false r
  | Group _ r => shape_ok true r
  | _ => true
  end.

Fixpoint group_ids (r : regex) : list nat :=
  match r with
  | Seq a b | Alt a b => group_ids a ++ group_ids b
  | Opt r | Star r | Plus r => group_ids r
  | Group n r => n :: group_ids r
  | _ => []
  end.

Fixpoint list_eq_nat (a b : list nat) : bool :=
  match a, b with
  | [], [] => true
  | x :: a', y :: b' => Nat.eqb x y && list_eq_nat a' b'
  | _, _ => false
  end.

Definition syntax_ok (r : regex) : bool :=
  shape_ok true r && list_eq_nat (group_ids r) (seq 1 (length (group_ids r))).

(* ------------------------------------------------------------------ *)
(* re.sub(r, rep, s) for an expression that matches non-empty text only *)
(* ------------------------------------------------------------------ *)
(* resub E r rep ctx s out: scanning s (with ctx already behind it) from the
   left, every leftmost, non-overlapping match is replaced by rep.  Of the
   backtracking order of `re` only the LEFTMOST START is modelled; at that
   start the rule demands that the match is the only one (premise 4), which
   the theorems using resub prove for their pattern, so that no greedy /
   priority choice has to be modelled. *)
Inductive resub (E : esc -> Z -> bool) (r : regex) (rep : list Z) : list Z -> list Z -> list Z -> Prop :=
| resub_none ctx s :
    (forall a mt b c, s = a ++ mt ++ b -> ~ matches E r (ctx ++ a) mt b c) ->
    resub E r rep ctx s s
| resub_hit ctx a mt b c out :
    mt <> [] ->
    matches E r (ctx ++ a) mt b c ->
    (forall a' mt' b' c', a ++ mt ++ b = a' ++ mt' ++ b' -> matches E r (ctx ++ a') mt' b' c' ->
                          (length a <= length a')%nat) ->
    (forall mt' b' c', mt ++ b = mt' ++ b' -> matches E r (ctx ++ a) mt' b' c' -> mt' = mt) ->
    resub E r rep (ctx ++ a ++ mt) b out ->
    resub E r rep ctx (a ++ mt ++ b) (a ++ rep ++ out).

(* re.match: a match that starts at the beginning of the subject *)
Definition rematch (E : esc -> Z -> bool) (r : regex) (text : list Z) (c : caps) : Prop :=
  exists s post, text = s ++ post /\ matches E r [] s post c.

(* ------------------------------------------------------------------ *)
(* re.split(r, s) for an expression without groups that matches         *)
(* non-empty text only                                                  *)
(* ------------------------------------------------------------------ *)
(* The subject is cut at every leftmost, non-overlapping match; the pieces between the matches are returned
   (k matches give k+1 pieces, the first / last piece is empty when a match touches the beginning / end).
   Modelled of the backtracking order of `re`: the LEFTMOST START and, at that start, the LONGEST match (premise 4).
   For X+ over a one-character X - the only pattern this is used for - greedy means longest; the theorem that uses
   resplit proves that the chosen match is the longest at its start. *)
Inductive resplit (E : esc -> Z -> bool) (r : regex) : list Z -> list Z -> list (list Z) -> Prop :=
| resplit_none ctx s :
    (forall a mt b c, s = a ++ mt ++ b -> ~ matches E r (ctx ++ a) mt b c) ->
    resplit E r ctx s [s]
| resplit_hit ctx a mt b c out :
    mt <> [] ->
    matches E r (ctx ++ a) mt b c ->
    (forall a' mt' b' c', a ++ mt ++ b = a' ++ mt' ++ b' -> matches E r (ctx ++ a') mt' b' c' ->
                          (length a <= length a')%nat) ->
    (forall mt' b' c', mt ++ b = mt' ++ b' -> matches E r (ctx ++ a) mt' b' c' -> (length mt' <= length mt)%nat) ->
    resplit E r (ctx ++ a ++ mt) b out ->
    resplit E r ctx (a ++ mt ++ b) (a :: out).

(* ------------------------------------------------------------------ *)
(* re.findall(r, s) for an expression with exactly two groups that       *)
(* matches non-empty text only: the list of (group 1, group 2)            *)
(* ------------------------------------------------------------------ *)
(* leftmost, non-overlapping matches; at its start each match taken is proved to be the only one (premise 4), so
   no greedy / priority choice is modelled *)
Inductive refindall2 (E : esc -> Z -> bool) (r : regex) : list Z -> list Z -> list (list Z * list Z) -> Prop :=
| refindall2_none ctx s :
    (forall a mt b c, s = a ++ mt ++ b -> ~ matches E r (ctx ++ a) mt b c) ->
    refindall2 E r ctx s []
| refindall2_hit ctx a mt b g1 g2 out :
    mt <> [] ->
    matches E r (ctx ++ a) mt b [(1%nat, g1); (2%nat, g2)] ->
    (forall a' mt' b' c', a ++ mt ++ b = a' ++ mt' ++ b' -> matches E r (ctx ++ a') mt' b' c' ->
                          (length a <= length a')%nat) ->
    (forall mt' b' c', mt ++ b = mt' ++ b' -> matches E r (ctx ++ a) mt' b' c' -> mt' = mt) ->
    refindall2 E r (ctx ++ a ++ mt) b out ->
    refindall2 E r ctx (a ++ mt ++ b) ((g1, g2) :: out).
