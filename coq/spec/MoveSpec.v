(* The move universe of a board size, as the property describes it: the three
   placements on each square, and each slide from each square in each
   direction with each sequence of positive drops that stays on the board and
   totals at most the carry limit (= the board size). *)
From Coq Require Import ZArith List Bool Lia.
From TV Require Import model.Tak.
Import ListNotations.
Open Scope Z_scope.

Definition good_drops (n : Z) (s : list Z) : Prop :=
  s <> [] /\ Forall (fun d => 1 <= d) s /\ zsum s <= n.

Definition wf_move (n : Z) (m : mv) : Prop :=
  0 <= mx m < n /\ 0 <= my m < n /\
  if is_slide (mt m) then
    exists s, mslides m = Some s /\ good_drops n s /\
      0 <= mx m + zlen s * fst (direction (mt m)) < n /\
      0 <= my m + zlen s * snd (direction (mt m)) < n
  else mslides m = None.
