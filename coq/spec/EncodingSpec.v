(* Declarative side of C06: the domain on which the token encoding is claimed
   to be lossless, "differs only in the side-to-move token", "padded row" and
   "the tokens a mask marks".  Definitions only. *)
From Coq Require Import ZArith List Bool.
From TV Require gen.Consts.
From TV Require Import model.Tak model.Encoding.
Import ListNotations.
Open Scope Z_scope.

(* only the top piece of a stack may be Standing / Capstone (stack shape of C04);
   encode() does not look at the kind of a buried piece *)
Definition stack_ok (s : stack) : Prop := Forall (fun pc => pkind pc = Flat) (tl s).

(* sizes 3..6, a size^2 board, reserves / capstones the vocabulary can index
   (Token.RESERVES has 50 entries, Token.CAPSTONES 2: TieEncoding.tie_vocab_sizes)
   and non-negative (a negative count would be wrapped by Python's indexing) *)
Definition encodable (p : position) : Prop :=
  3 <= size p <= 6 /\ zlen (board p) = size p * size p /\
  0 <= wstones p <= 49 /\ 0 <= wcaps p <= 1 /\
  0 <= bstones p <= 49 /\ 0 <= bcaps p <= 1 /\
  Forall stack_ok (board p).

Definition stack_okb (s : stack) : bool := forallb (fun pc => kind_eqb (pkind pc) Flat) (tl s).
Definition encodableb (p : position) : bool :=
  (3 <=? size p) && (size p <=? 6) && (zlen (board p) =? size p * size p) &&
  (0 <=? wstones p) && (wstones p <=? 49) && (0 <=? wcaps p) && (wcaps p <=? 1) &&
  (0 <=? bstones p) && (bstones p <=? 49) && (0 <=? bcaps p) && (bcaps p <=? 1) &&
  forallb stack_okb (board p).

(* WHITE_TO_PLAY <-> BLACK_TO_PLAY on one token; the identity on every other value *)
Definition flip_tok (t : Z) : Z :=
  if t =? Consts.tok_WHITE_TO_PLAY then Consts.tok_BLACK_TO_PLAY
  else if t =? Consts.tok_BLACK_TO_PLAY then Consts.tok_WHITE_TO_PLAY
  else t.
Definition flip_head (l : list Z) : list Z :=
  match l with t :: r => flip_tok t :: r | [] => [] end.
(* the side-to-move token is token 1 after the sentinel, token 0 without it;
   nothing else of the sequence is touched *)
Definition to_play_index (include_sentinel : bool) : nat := if include_sentinel then 1%nat else 0%nat.
Definition flip_to_play (include_sentinel : bool) (l : list Z) : list Z :=
  if include_sentinel then match l with x :: r => x :: flip_head r | [] => [] end
  else flip_head l.

(* a row of a batch of width w / its mask *)
Definition padded (w : nat) (e : list Z) : list Z := e ++ repeat 0 (w - length e).
Definition mask_of (w : nat) (e : list Z) : list bool :=
  repeat true (length e) ++ repeat false (w - length e).
Definition max_len (encs : list (list Z)) : nat := list_max (map (@length Z) encs).
(* the entries of a row that its mask marks *)
Fixpoint select (m : list bool) (r : list Z) : list Z :=
  match m, r with
  | b :: m', x :: r' => if b then x :: select m' r' else select m' r'
  | _, _ => []
  end.
