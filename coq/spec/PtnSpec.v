(* Declarative reading of Portable Tak Notation for one move, written
   independently of the parser: which text denotes which move.

     move  ::= [stone] file rank                      placement
             | [count] file rank dir [drops]          slide
     stone ::= F | S | C        (none or F: flat, S: standing, C: capstone)
     file  ::= a..h  (a -> x = 0)      rank ::= 1..8  (1 -> y = 0)
     dir   ::= <  left | >  right | +  up | -  down
     count ::= 1..8             (omitted: 1)
     drops ::= (1..8)+          (omitted: everything picked up is dropped on
                                 the first square; given: they add up to the count)

   Code points: C 67, F 70, S 83, 0 48, 1..8 49..56, a..h 97..104,
   less-than 60, greater-than 62, plus 43, minus 45. *)
From Coq Require Import ZArith List Bool.
From TV Require Import model.Tak.
Import ListNotations.
Open Scope Z_scope.

Definition file_letter (c x : Z) : Prop := 97 <= c <= 104 /\ x = c - 97.
Definition rank_digit (c y : Z) : Prop := 49 <= c <= 56 /\ y = c - 49.

Inductive stone_text : list Z -> mtype -> Prop :=
| stone_none : stone_text [] PlaceFlat
| stone_F : stone_text [70] PlaceFlat
| stone_S : stone_text [83] PlaceStanding
| stone_C : stone_text [67] PlaceCapstone.

(* glyph, move type, and the board step the move type stands for in Tak.v *)
Inductive dir_glyph : Z -> mtype -> Prop :=
| dir_left : dir_glyph 60 SlideLeft
| dir_right : dir_glyph 62 SlideRight
| dir_up : dir_glyph 43 SlideUp
| dir_down : dir_glyph 45 SlideDown.
Definition dir_step (t : mtype) (dx dy : Z) : Prop := direction t = (dx, dy).

Inductive count_text : list Z -> Z -> Prop :=
| count_omitted : count_text [] 1
| count_digit c : 49 <= c <= 56 -> count_text [c] (c - 48).

Definition drop_digits (t : list Z) (ds : list Z) : Prop :=
  Forall (fun c => 49 <= c <= 56) t /\ ds = map (fun c => c - 48) t.

Inductive drops_text (k : Z) : list Z -> list Z -> Prop :=
| drops_omitted : drops_text k [] [k]
| drops_given t ds : t <> [] -> drop_digits t ds -> zsum ds = k -> drops_text k t ds.

Inductive ptn_denotes : list Z -> mv -> Prop :=
| den_place st t f r x y :
    stone_text st t -> file_letter f x -> rank_digit r y ->
    ptn_denotes (st ++ [f; r]) (mkMove x y t None)
| den_slide ct k f r x y d t dt ds :
    count_text ct k -> file_letter f x -> rank_digit r y -> dir_glyph d t -> drops_text k dt ds ->
    ptn_denotes (ct ++ [f; r; d] ++ dt) (mkMove x y t (Some ds)).

(* ---- inputs on which the property takes no position (Unspecified) ----
   a core that is a standard move, or a slide whose drops are written with an
   implied count they do not add up to (a1>11), optionally preceded by a stone
   letter when it is a slide (Sa1>) and optionally followed by a stone letter
   (a1C, a1>C); at least one of the three liberties is taken. *)
Definition stone_letter (c : Z) : Prop := c = 67 \/ c = 70 \/ c = 83.
Definition opt_stone (l : list Z) : Prop := l = [] \/ exists c, stone_letter c /\ l = [c].

Inductive implied_count : list Z -> mv -> Prop :=
| implied f r x y d t dt ds :
    file_letter f x -> rank_digit r y -> dir_glyph d t -> dt <> [] -> drop_digits dt ds -> zsum ds <> 1 ->
    implied_count ([f; r; d] ++ dt) (mkMove x y t (Some ds)).

Definition ptn_lenient (s : list Z) : Prop :=
  exists pre core post m,
    s = pre ++ core ++ post /\ opt_stone pre /\ opt_stone post /\
    (pre <> [] -> is_slide (mt m) = true) /\
    ((ptn_denotes core m /\ (pre <> [] \/ post <> [])) \/ implied_count core m).

(* the PTN alphabet *)
Definition ptn_char (c : Z) : Prop :=
  stone_letter c \/ 49 <= c <= 56 \/ 97 <= c <= 104 \/ c = 60 \/ c = 62 \/ c = 43 \/ c = 45.
