(* C15: concrete, non-trivial values satisfying the hypotheses of the
   implication theorems (wf p, In g syms), with the conclusions computed. *)
From Coq Require Import ZArith List Bool Lia.
From TV Require Import model.Tak model.Road model.Lit model.Symmetry.
From TV Require Import proofs.TieSymmetry proofs.SymmetryProofs proofs.SymmetryRoad.
Import ListNotations.
Open Scope Z_scope.

(* 4x4, custom reserves (9,1)/(8,0), White to move at ply 8; a white stack of
   three on b2 under a capstone, a black wall on c2, a white row a1-d1 missing c1 *)
Definition ex_pos : position :=
  P 4 9 1 8 0 8
    [ [WF]; [WF]; []; [WF];
      []; [WC; BF; WF]; [BS]; [];
      [BF]; []; []; [BF];
      []; []; [BF]; [] ].
(* written out (not picked by position) so that a mere reordering of
   SYMMETRIES does not break the examples *)
Definition rot : mat := [[0; 1; 0]; [-1; 0; 1]; [0; 0; 1]].   (* (x,y) -> (y, size-1-x) *)
Definition flp : mat := [[-1; 0; 1]; [0; 1; 0]; [0; 0; 1]].   (* (x,y) -> (size-1-x, y) *)
Example ex_wf : wf ex_pos.
Proof. split; [simpl; lia|reflexivity]. Qed.
Example ex_rot_in : In rot syms /\ In flp syms /\ rot <> mat_id /\ flp <> mat_id.
Proof. unfold rot, flp, syms, Consts.symmetries. simpl. repeat split; try tauto; discriminate. Qed.

(* a legal slide that crushes the wall: b2 -> right, dropping the capstone alone
   would need a carry of exactly the capstone; here [1] picks up the capstone *)
Definition ex_crush : mv := M 1 1 SR (Some [1]).
Example ex_crush_legal : exists q, move ex_pos ex_crush = Some q.
Proof. vm_compute. eexists. reflexivity. Qed.
(* under the rotation (x,y) -> (y, size-1-x) the move becomes a slide DOWN from b3 *)
Example ex_crush_rot : transform_move rot ex_crush 4 = M 1 2 SD (Some [1]).
Proof. reflexivity. Qed.
Example ex_commutes_legal :
  option_map (transform_position rot) (move ex_pos ex_crush) =
  move (transform_position rot ex_pos) (transform_move rot ex_crush 4) /\
  move (transform_position rot ex_pos) (transform_move rot ex_crush 4) <> None /\
  transform_position rot ex_pos <> ex_pos.
Proof. repeat split; vm_compute; congruence. Qed.
(* illegal on both sides: a two-piece carry onto the wall; an off-board square
   (whose image is off-board as well) *)
Example ex_commutes_illegal :
  move ex_pos (M 1 1 SR (Some [2])) = None /\
  move (transform_position flp ex_pos) (transform_move flp (M 1 1 SR (Some [2])) 4) = None /\
  transform_move flp (M 4 0 PF None) 4 = M (-1) 0 PF None /\
  move ex_pos (M 4 0 PF None) = None /\
  move (transform_position flp ex_pos) (M (-1) 0 PF None) = None.
Proof. repeat split. Qed.
(* reserves, ply and side to move survive (custom reserves) *)
Example ex_reserves :
  let q := transform_position rot ex_pos in
  (wstones q, wcaps q, bstones q, bcaps q, ply q, to_move q) = (9, 1, 8, 0, 8, White).
Proof. reflexivity. Qed.

(* a finished game: White's row a1-d1 is a left-right road; rotated it is a
   bottom-top road, and the outcome is the same *)
Definition ex_road : position :=
  P 4 9 1 8 0 8
    [ [WF]; [WF]; [WC]; [WF];
      []; [BF]; [BS]; [];
      [BF]; []; []; [BF];
      []; []; [BF]; [] ].
Example ex_road_winner :
  wf ex_road /\ winner ex_road = (Some White, Some Road) /\
  walk ex_road White true = true /\ walk ex_road White false = false /\
  walk (transform_position rot ex_road) White true = false /\
  walk (transform_position rot ex_road) White false = true /\
  winner (transform_position rot ex_road) = (Some White, Some Road).
Proof. repeat split; vm_compute; try reflexivity; discriminate. Qed.

(* symmetries(p): 1 variant for the empty board, 4 for a corner stone or a
   centre row, 8 for a position without symmetry; the head is (identity, p) *)
Definition empty3 : position := from_config (mkCfg 3 None None).
Definition corner3 : position := P 3 9 0 10 0 1 [[WF]; []; []; []; []; []; []; []; []].
Definition row3 : position := P 3 9 0 9 0 2 [[]; []; []; [WF]; [BF]; [BF]; []; []; []].
Example ex_symmetries_counts :
  length (symmetries empty3) = 1%nat /\ length (symmetries corner3) = 4%nat /\
  length (symmetries row3) = 4%nat /\ length (symmetries ex_pos) = 8%nat /\
  hd_error (symmetries ex_pos) = Some (mat_id, ex_pos).
Proof. repeat split. Qed.

Lemma group_action g h p : wf p -> In g syms -> In h syms ->
  transform_position mat_id p = p /\
  transform_position (mat_mul g h) p = transform_position g (transform_position h p) /\
  wf (transform_position g p).
Proof. intros Hwf Hg Hh. exact (conj (tp_id p Hwf) (conj (tp_compose g h p Hwf Hg Hh) (tp_wf g p Hwf))). Qed.

Example ex_hypotheses :
  wf ex_pos /\ In rot syms /\ rot <> mat_id /\
  move (transform_position rot ex_pos) (transform_move rot ex_crush 4) <> None /\
  transform_position rot ex_pos <> ex_pos.
Proof.
  exact (conj ex_wf (conj (proj1 ex_rot_in) (conj (proj1 (proj2 (proj2 ex_rot_in)))
        (proj2 ex_commutes_legal)))).
Qed.
