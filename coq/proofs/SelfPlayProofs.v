(* C11: play_one_game - transcript chain, stop rule, result, labels. *)
From Coq Require Import ZArith QArith Qabs List Bool Lia Lqa.
From TV Require gen.Consts.
From TV Require Import model.Tak model.Road model.SelfPlay spec.SelfPlaySpec.
Import ListNotations.
Open Scope Z_scope.

Lemma resigns_iff cfg a : resigns cfg a = true <-> resign_now cfg a.
Proof. unfold resigns, resign_now. apply Qle_bool_iff. Qed.

Lemma resigns_false cfg a : resigns cfg a = false <-> ~ resign_now cfg a.
Proof.
  rewrite <- resigns_iff. destruct (resigns cfg a); split; intro H; congruence.
Qed.

(* ---------- move increments the ply ---------- *)
Lemma move_place_ply p m q : move_place p m = Some q -> ply q = ply p + 1.
Proof.
  unfold move_place. destruct ((ply p <? 2) && negb (mtype_eqb (mt m) PlaceFlat)); [discriminate|].
  destruct (sq p (mx m) (my m)); [|discriminate].
  set (c := if ply p <? 2 then flip (to_move p) else to_move p).
  destruct c, (mtype_eqb (mt m) PlaceCapstone);
    match goal with |- context [if ?b then None else _] => destruct b end;
    intros H; try discriminate; injection H as <-; reflexivity.
Qed.

Lemma move_slide_ply p m d q : move_slide p m d = Some q -> ply q = ply p + 1.
Proof.
  unfold move_slide. destruct (ply p <? 2); [discriminate|].
  destruct (existsb (fun d0 => d0 <? 1) d); [discriminate|].
  destruct ((size p <? zsum d) || (zlen (sq p (mx m) (my m)) <? zsum d)); [discriminate|].
  destruct (zsum d <? 1); [discriminate|].
  destruct (sq p (mx m) (my m)) as [|top rest]; [discriminate|].
  destruct (negb (color_eqb (pcolor top) (to_move p))); [discriminate|].
  destruct (direction (mt m)) as (dx, dy).
  match goal with |- context [slide_go ?a ?b ?c ?d ?e ?f ?g ?h] => destruct (slide_go a b c d e f g h) end;
    intros H; [|discriminate]. injection H as <-. reflexivity.
Qed.

Lemma move_ply p m q : move p m = Some q -> ply q = ply p + 1.
Proof.
  unfold move. destruct (negb (in_bounds (size p) (mx m) (my m))); [discriminate|].
  destruct (is_slide (mt m)).
  - destruct (mslides m); [apply move_slide_ply|discriminate].
  - apply move_place_ply.
Qed.

(* ---------- the loop as a relation (one constructor per way through the body) ---------- *)
Definition empty_tr (r : option color) : transcript := mkTr [] [] [] [] r.
Definition push (p : position) (a : answer) (tr : transcript) : transcript :=
  mkTr (p :: t_positions tr) (a_moves a :: t_moves tr) (a_probs a :: t_probs tr)
       (row_value a :: t_values tr) (t_result tr).

Inductive run (cfg : sp_config) : position -> list answer -> transcript -> exit -> position -> Prop :=
| run_limit pos s : over_limit cfg pos -> run cfg pos s (empty_tr None) ExitLimit pos
| run_rules pos s c r : ~ over_limit cfg pos -> winner pos = (c, Some r) ->
    run cfg pos s (empty_tr c) (ExitRules r) pos
| run_resign pos a rest : ~ over_limit cfg pos -> snd (winner pos) = None -> a_sims a <> 0 ->
    resign_now cfg a ->
    run cfg pos (a :: rest) (push pos a (empty_tr (Some (resign_winner cfg pos a)))) ExitResign pos
| run_step pos a rest m q tr e f : ~ over_limit cfg pos -> snd (winner pos) = None -> a_sims a <> 0 ->
    ~ resign_now cfg a -> picks a m -> move pos m = Some q -> run cfg q rest tr e f ->
    run cfg pos (a :: rest) (push pos a tr) e f.

Lemma play_loop_run cfg : forall s pos tr e f, play_loop cfg pos s = Done tr e f -> run cfg pos s tr e f.
Proof.
  induction s as [|a rest IH]; intros pos tr e f H; simpl in H.
  - destruct (sp_ply_limit cfg <? ply pos) eqn:El.
    + injection H as <- <- <-. apply run_limit. unfold over_limit. lia.
    + destruct (winner pos) as (c, [r|]) eqn:Ew; [|discriminate].
      injection H as <- <- <-. apply run_rules; [unfold over_limit; lia|assumption].
  - destruct (sp_ply_limit cfg <? ply pos) eqn:El.
    + injection H as <- <- <-. apply run_limit. unfold over_limit. lia.
    + assert (Hl : ~ over_limit cfg pos) by (unfold over_limit; lia).
      destruct (winner pos) as (c, [r|]) eqn:Ew.
      * injection H as <- <- <-. apply run_rules; assumption.
      * assert (Hw : snd (winner pos) = None) by (rewrite Ew; reflexivity).
        destruct (a_sims a =? 0) eqn:Es; [discriminate|].
        assert (Hs : a_sims a <> 0) by lia.
        destruct (resigns cfg a) eqn:Er.
        -- injection H as <- <- <-. apply resigns_iff in Er.
           exact (run_resign cfg pos a rest Hl Hw Hs Er).
        -- apply resigns_false in Er.
           destruct (nthz (a_moves a) (a_pick a)) as [m|] eqn:Em; [|discriminate].
           destruct (move pos m) as [q|] eqn:Eq; [|discriminate].
           destruct (play_loop cfg q rest) as [tr' e' f'|] eqn:Ep; [|discriminate].
           simpl in H. injection H as <- <- <-.
           exact (run_step cfg pos a rest m q tr' e' f' Hl Hw Hs Er Em Eq (IH _ _ _ _ Ep)).
Qed.

Lemma run_play_loop cfg pos s tr e f : run cfg pos s tr e f -> play_loop cfg pos s = Done tr e f.
Proof.
  induction 1 as [pos s Hl|pos s c r Hl Hw|pos a rest Hl Hw Hs Hr|pos a rest m q tr e f Hl Hw Hs Hr Hm Hq Hrun IH].
  - unfold over_limit in Hl. destruct s; simpl; (destruct (sp_ply_limit cfg <? ply pos) eqn:E; [reflexivity|lia]).
  - unfold over_limit in Hl. destruct s; simpl;
      (destruct (sp_ply_limit cfg <? ply pos) eqn:E; [lia|]); rewrite Hw; reflexivity.
  - unfold over_limit in Hl. simpl. destruct (sp_ply_limit cfg <? ply pos) eqn:E; [lia|].
    destruct (winner pos) as (c, o). simpl in Hw. subst o.
    destruct (a_sims a =? 0) eqn:Es; [lia|].
    apply resigns_iff in Hr. rewrite Hr. reflexivity.
  - unfold over_limit in Hl. simpl. destruct (sp_ply_limit cfg <? ply pos) eqn:E; [lia|].
    destruct (winner pos) as (c, o). simpl in Hw. subst o.
    destruct (a_sims a =? 0) eqn:Es; [lia|].
    apply resigns_false in Hr. rewrite Hr. unfold picks in Hm. rewrite Hm, Hq, IH. reflexivity.
Qed.

Lemma loop_iff_run cfg pos s tr e f : play_loop cfg pos s = Done tr e f <-> run cfg pos s tr e f.
Proof. split; [apply play_loop_run|apply run_play_loop]. Qed.

(* ---------- facts by induction over run ---------- *)
Section Facts.
Variable cfg : sp_config.

Lemma run_lengths pos s tr e f : run cfg pos s tr e f ->
  length (t_moves tr) = length (t_positions tr) /\
  length (t_probs tr) = length (t_positions tr) /\
  length (t_values tr) = length (t_positions tr) /\
  (length (t_positions tr) <= length s)%nat.
Proof.
  induction 1; simpl; repeat split; lia.
Qed.

Lemma run_first pos s tr e f p0 : run cfg pos s tr e f -> nth_error (t_positions tr) 0 = Some p0 -> p0 = pos.
Proof. destruct 1; simpl; intros Hp0; congruence. Qed.

(* row i of the transcript is engine answer i *)
Lemma run_rows pos s tr e f : run cfg pos s tr e f -> forall i p,
  nth_error (t_positions tr) i = Some p ->
  exists a, nth_error s i = Some a /\
    nth_error (t_moves tr) i = Some (a_moves a) /\
    nth_error (t_probs tr) i = Some (a_probs a) /\
    nth_error (t_values tr) i = Some (row_value a).
Proof.
  induction 1 as [| |pos a rest|pos a rest m q tr e f Hl Hw Hs Hr Hm Hq Hrun IH]; intros i p Hi; simpl in *.
  - destruct i; discriminate.
  - destruct i; discriminate.
  - destruct i as [|i]; [|destruct i; discriminate]. exists a. simpl. repeat split; reflexivity.
  - destruct i as [|i]; [exists a; simpl; repeat split; reflexivity|]. simpl in Hi. exact (IH i p Hi).
Qed.

Lemma run_ply pos s tr e f : run cfg pos s tr e f -> forall i p,
  nth_error (t_positions tr) i = Some p -> ply p = ply pos + Z.of_nat i.
Proof.
  induction 1 as [| |pos a rest|pos a rest m q tr e f Hl Hw Hs Hr Hm Hq Hrun IH]; intros i p Hi; simpl in *.
  - destruct i; discriminate.
  - destruct i; discriminate.
  - destruct i as [|i]; [|destruct i; discriminate]. injection Hi as <-. lia.
  - destruct i as [|i]; [injection Hi as <-; lia|]. simpl in Hi.
    rewrite (IH i p Hi), (move_ply _ _ _ Hq). lia.
Qed.

Lemma nthz_In {A} (l : list A) i x : nthz l i = Some x -> In x l.
Proof. unfold nthz. destruct (i <? 0); [discriminate|]. apply nth_error_In. Qed.

(* consecutive recorded positions are joined by the picked candidate *)
Lemma run_chain pos s tr e f : run cfg pos s tr e f -> forall i p q,
  nth_error (t_positions tr) i = Some p -> nth_error (t_positions tr) (S i) = Some q ->
  exists a m, nth_error s i = Some a /\ nth_error (t_moves tr) i = Some (a_moves a) /\
              picks a m /\ In m (a_moves a) /\ move p m = Some q.
Proof.
  induction 1 as [| |pos a rest|pos a rest m q0 tr e f Hl Hw Hs Hr Hm Hq Hrun IH]; intros i p q Hi Hi'; simpl in *.
  - destruct i; discriminate.
  - destruct i; discriminate.
  - destruct i; discriminate.
  - destruct i as [|i].
    + injection Hi as <-. simpl in Hi'.
      rewrite (run_first _ _ _ _ _ _ Hrun Hi') in *.
      exists a, m. simpl. repeat split; try assumption; try reflexivity. eapply nthz_In; exact Hm.
    + simpl in Hi, Hi'. exact (IH i p q Hi Hi').
Qed.

(* nothing recorded is over the limit or terminal; only the last answer may resign *)
Lemma run_not_earlier pos s tr e f : run cfg pos s tr e f ->
  (forall i p, nth_error (t_positions tr) i = Some p -> ~ over_limit cfg p /\ ~ terminal p) /\
  (forall i a, (S i < length (t_positions tr))%nat -> nth_error s i = Some a -> ~ resign_now cfg a).
Proof.
  induction 1 as [| |pos a rest Hl Hw|pos a rest m q0 tr e f Hl Hw Hs Hr Hm Hq Hrun IH]; simpl.
  - split; [intros [|i] p Hi; discriminate|intros i a Hi; lia].
  - split; [intros [|i] p Hi; discriminate|intros i a Hi; lia].
  - split; [|intros i a' Hi; lia].
    intros [|i] p Hi; [|destruct i; discriminate]. injection Hi as <-. unfold terminal. split; [assumption|congruence].
  - destruct IH as (IH1 & IH2). split.
    + intros [|i] p Hi; [|exact (IH1 i p Hi)]. injection Hi as <-. unfold terminal. split; [assumption|congruence].
    + intros [|i] a' Hlt Hi; simpl in Hi.
      * injection Hi as <-. assumption.
      * apply (IH2 i a'); [lia|assumption].
Qed.

Lemma run_final_after pos s tr e f : run cfg pos s tr e f -> e <> ExitResign -> final_after cfg pos s tr f.
Proof.
  induction 1 as [| |pos a rest Hl Hw|pos a rest m q0 tr e f Hl Hw Hs Hr Hm Hq Hrun IH]; intros He.
  - left. split; reflexivity.
  - left. split; reflexivity.
  - congruence.
  - right. destruct (IH He) as [(Hnil & ->)|(n & p & a' & m' & Hn & Hp & Ha & Hnr & Hpk & Hmv)].
    + exists 0%nat, pos, a, m. simpl. rewrite Hnil. repeat split; assumption.
    + exists (S n), p, a', m'. simpl. rewrite Hn. repeat split; assumption.
Qed.

Lemma run_exit pos s tr e f : run cfg pos s tr e f ->
  match e with
  | ExitLimit => over_limit cfg f /\ t_result tr = None
  | ExitRules r => ~ over_limit cfg f /\ snd (winner f) = Some r /\ t_result tr = fst (winner f)
  | ExitResign =>
      exists n a, length (t_positions tr) = S n /\ nth_error (t_positions tr) n = Some f /\
        nth_error s n = Some a /\ resign_now cfg a /\
        t_result tr = Some (resign_winner cfg f a)
  end.
Proof.
  induction 1 as [pos s Hl|pos s c r Hl Hw|pos a rest Hl Hw Hs Hr|pos a rest m q0 tr e f Hl Hw Hs Hr Hm Hq Hrun IH].
  - split; [assumption|reflexivity].
  - rewrite Hw. simpl. repeat split; assumption.
  - exists 0%nat, a. simpl. repeat split; try reflexivity; assumption.
  - destruct e as [|r|]; simpl; try exact IH.
    destruct IH as (n & a' & Hn & Hp & Ha & Hra & Hres). exists (S n), a'. simpl. rewrite Hn.
    repeat split; assumption.
Qed.
End Facts.

(* ---------- the property clauses, for play_one_game ---------- *)
Lemma lists_aligned cfg s tr e f : play_one_game cfg s = Done tr e f ->
  length (t_moves tr) = length (t_positions tr) /\
  length (t_probs tr) = length (t_positions tr) /\
  length (t_values tr) = length (t_positions tr) /\
  (length (t_positions tr) <= length s)%nat.
Proof. intros H. apply play_loop_run in H. eapply run_lengths; eassumption. Qed.

Lemma rows_are_engine_answers cfg s tr e f : play_one_game cfg s = Done tr e f -> forall i p,
  nth_error (t_positions tr) i = Some p ->
  exists a, nth_error s i = Some a /\
    nth_error (t_moves tr) i = Some (a_moves a) /\
    nth_error (t_probs tr) i = Some (a_probs a) /\
    nth_error (t_values tr) i = Some (row_value a).
Proof. intros H. apply play_loop_run in H. eapply run_rows; eassumption. Qed.

Lemma transcript_chain cfg s tr e f : play_one_game cfg s = Done tr e f ->
  (forall p0, nth_error (t_positions tr) 0 = Some p0 -> p0 = start cfg) /\
  (forall i p q, nth_error (t_positions tr) i = Some p -> nth_error (t_positions tr) (S i) = Some q ->
     exists a m, nth_error s i = Some a /\ nth_error (t_moves tr) i = Some (a_moves a) /\
                 picks a m /\ In m (a_moves a) /\ move p m = Some q) /\
  (forall i p, nth_error (t_positions tr) i = Some p -> ply p = Z.of_nat i).
Proof.
  intros H. apply play_loop_run in H. split; [|split].
  - intros p0. eapply run_first; eassumption.
  - eapply run_chain; eassumption.
  - intros i p Hi. rewrite (run_ply _ _ _ _ _ _ H i p Hi). reflexivity.
Qed.

Lemma stops_exactly cfg s tr e f : play_one_game cfg s = Done tr e f ->
  (* not earlier *)
  (forall i p, nth_error (t_positions tr) i = Some p -> ~ over_limit cfg p /\ ~ terminal p) /\
  (forall i a, (S i < length (t_positions tr))%nat -> nth_error s i = Some a -> ~ resign_now cfg a) /\
  (* and the exit taken *)
  match e with
  | ExitLimit => over_limit cfg f /\ final_after cfg (start cfg) s tr f
  | ExitRules r => ~ over_limit cfg f /\ snd (winner f) = Some r /\ final_after cfg (start cfg) s tr f
  | ExitResign => exists n a, length (t_positions tr) = S n /\ nth_error (t_positions tr) n = Some f /\
                    nth_error s n = Some a /\ resign_now cfg a
  end.
Proof.
  intros H. apply play_loop_run in H.
  destruct (run_not_earlier _ _ _ _ _ _ H) as (H1 & H2). split; [exact H1|split; [exact H2|]].
  pose proof (run_exit _ _ _ _ _ _ H) as Hx. pose proof (run_final_after _ _ _ _ _ _ H) as Hf.
  destruct e as [|r|].
  - split; [tauto|apply Hf; discriminate].
  - split; [tauto|split; [tauto|apply Hf; discriminate]].
  - destruct Hx as (n & a & ? & ? & ? & ? & ?). exists n, a. tauto.
Qed.

Lemma resign_winner_sign cfg p a : resign_now cfg a -> (0 < sp_threshold cfg)%Q ->
  ((0 < a_vzero a)%Q -> resign_winner cfg p a = to_move p) /\
  ((a_vzero a < 0)%Q -> resign_winner cfg p a = flip (to_move p)) /\
  ~ (a_vzero a == 0)%Q.
Proof.
  unfold resign_now, resign_winner. intros Hr Ht.
  destruct (Qle_bool (sp_threshold cfg) (a_vzero a)) eqn:E.
  - apply Qle_bool_iff in E. repeat split; try reflexivity; intros Hv; lra.
  - assert (Hn : ~ (sp_threshold cfg <= a_vzero a)%Q) by (rewrite <- Qle_bool_iff; congruence).
    assert (Hneg : (a_vzero a < 0)%Q).
    { destruct (Qlt_le_dec (a_vzero a) 0) as [Hlt|Hge]; [assumption|].
      rewrite (Qabs_pos _ Hge) in Hr. contradiction. }
    repeat split; try reflexivity; intros Hv; lra.
Qed.

Lemma result_correct cfg s tr e f : play_one_game cfg s = Done tr e f ->
  match e with
  | ExitRules r => snd (winner f) = Some r /\ t_result tr = fst (winner f)
  | ExitLimit => t_result tr = None
  | ExitResign =>
      exists n a, length (t_positions tr) = S n /\ nth_error (t_positions tr) n = Some f /\
        nth_error s n = Some a /\ resign_now cfg a /\
        ((sp_threshold cfg <= a_vzero a)%Q -> t_result tr = Some (to_move f)) /\
        (~ (sp_threshold cfg <= a_vzero a)%Q -> t_result tr = Some (flip (to_move f))) /\
        ((0 < sp_threshold cfg)%Q ->
           ((0 < a_vzero a)%Q -> t_result tr = Some (to_move f)) /\
           ((a_vzero a < 0)%Q -> t_result tr = Some (flip (to_move f))) /\
           ~ (a_vzero a == 0)%Q)
  end.
Proof.
  intros H. apply play_loop_run in H. pose proof (run_exit _ _ _ _ _ _ H) as Hx.
  destruct e as [|r|]; [tauto|tauto|].
  destruct Hx as (n & a & Hn & Hp & Ha & Hr & Hres). exists n, a.
  split; [assumption|]. split; [assumption|]. split; [assumption|]. split; [assumption|].
  split; [|split].
  - intros Hge. rewrite Hres. unfold resign_winner. apply Qle_bool_iff in Hge. rewrite Hge. reflexivity.
  - intros Hlt. rewrite Hres. unfold resign_winner.
    destruct (Qle_bool (sp_threshold cfg) (a_vzero a)) eqn:E; [|reflexivity].
    apply Qle_bool_iff in E. contradiction.
  - intros Ht. destruct (resign_winner_sign cfg f a Hr Ht) as (Hpos & Hneg & Hnz).
    split; [|split; [|exact Hnz]]; intros Hv; rewrite Hres; f_equal; auto.
Qed.

Lemma color_eqb_eq a b : color_eqb a b = true <-> a = b.
Proof. destruct a, b; simpl; split; congruence. Qed.

Lemma color_eqb_flip w : color_eqb (flip w) w = false.
Proof. destruct w; reflexivity. Qed.

Lemma labels_correct tr :
  length (results tr) = length (t_positions tr) /\
  (t_result tr = None -> forall i p, nth_error (t_positions tr) i = Some p -> nth_error (results tr) i = Some 0) /\
  (forall w, t_result tr = Some w -> forall i p, nth_error (t_positions tr) i = Some p ->
     (to_move p = w -> nth_error (results tr) i = Some 1) /\
     (to_move p = flip w -> nth_error (results tr) i = Some (-1))).
Proof.
  unfold results. split; [apply map_length|]. split.
  - intros Hr i p Hi. rewrite (map_nth_error _ _ _ Hi), Hr. reflexivity.
  - intros w Hr i p Hi. rewrite (map_nth_error _ _ _ Hi), Hr. simpl. split; intros Hp; rewrite Hp.
    + assert (E : color_eqb w w = true) by (apply color_eqb_eq; reflexivity). rewrite E. reflexivity.
    + rewrite color_eqb_flip. reflexivity.
Qed.

(* in a played game the side to move alternates from White, so the labels are decided by parity *)
Lemma labels_by_parity cfg s tr e f w : play_one_game cfg s = Done tr e f -> t_result tr = Some w ->
  forall i, (i < length (t_positions tr))%nat ->
  nth_error (results tr) i =
    Some (if color_eqb (if Z.even (Z.of_nat i) then White else Black) w then 1 else -1).
Proof.
  intros H Hw i Hi. destruct (nth_error (t_positions tr) i) as [p|] eqn:Ep;
    [|apply nth_error_None in Ep; lia].
  destruct (transcript_chain _ _ _ _ _ H) as (_ & _ & Hply).
  unfold results. rewrite (map_nth_error _ _ _ Ep), Hw. simpl. unfold to_move. rewrite (Hply i p Ep).
  reflexivity.
Qed.

(* ---------- what the engine guarantees carries over to the record ---------- *)
(* C08/C09 supply this for the real engine: every candidate of the analysed position is legal *)
Lemma candidates_legal cfg s tr e f : play_one_game cfg s = Done tr e f ->
  (forall i p a, nth_error (t_positions tr) i = Some p -> nth_error s i = Some a ->
     forall m, In m (a_moves a) -> move p m <> None) ->
  forall i p ms m, nth_error (t_positions tr) i = Some p -> nth_error (t_moves tr) i = Some ms ->
    In m ms -> exists q, move p m = Some q.
Proof.
  intros H Hleg i p ms m Hp Hms Hin.
  destruct (rows_are_engine_answers _ _ _ _ _ H i p Hp) as (a & Ha & Hma & _).
  assert (ms = a_moves a) by congruence. subst ms.
  specialize (Hleg i p a Hp Ha m Hin). destruct (move p m) as [q|]; [exists q; reflexivity|congruence].
Qed.

Lemma value_in_range x n : 0 < n -> (Qabs x <= inject_Z n)%Q -> (-(1) <= x / inject_Z n <= 1)%Q.
Proof.
  intros Hn Hx. assert (Hq : (0 < inject_Z n)%Q) by (unfold Qlt; simpl; lia).
  apply Qabs_Qle_condition in Hx. destruct Hx as (Hlo & Hhi). split.
  - apply Qle_shift_div_l; [assumption|]. lra.
  - apply Qle_shift_div_r; [assumption|]. lra.
Qed.

Lemma recorded_rows_good cfg s tr e f : play_one_game cfg s = Done tr e f ->
  (forall a, In a s -> good_answer a) ->
  forall i ms ps v, nth_error (t_moves tr) i = Some ms -> nth_error (t_probs tr) i = Some ps ->
    nth_error (t_values tr) i = Some v ->
    length ps = length ms /\ Forall (fun p => 0 <= p)%Q ps /\ (qsum ps == 1)%Q /\ (-(1) <= v <= 1)%Q.
Proof.
  intros H Hgood i ms ps v Hms Hps Hv.
  destruct (lists_aligned _ _ _ _ _ H) as (Hlm & _ & _ & _).
  destruct (nth_error (t_positions tr) i) as [p|] eqn:Ep.
  - destruct (rows_are_engine_answers _ _ _ _ _ H i p Ep) as (a & Ha & Hma & Hpa & Hva).
    assert (ms = a_moves a) by congruence. assert (ps = a_probs a) by congruence.
    assert (v = row_value a) by congruence. subst ms ps v.
    destruct (Hgood a (nth_error_In _ _ Ha)) as (Hl & Hnn & Hsum & Hs & Hval).
    repeat split; try assumption; apply (value_in_range _ _ Hs Hval).
  - apply nth_error_None in Ep. assert (Hsome : nth_error (t_moves tr) i <> None) by congruence.
    apply nth_error_Some in Hsome. lia.
Qed.

(* ---------- the error outcomes, and why the hypotheses exclude them ---------- *)
Lemma loop_errors cfg : forall s pos err, play_loop cfg pos s = Err err ->
  match err with
  | Exhausted => ply pos + Z.of_nat (length s) <= sp_ply_limit cfg
  | ZeroSims => exists a, In a s /\ a_sims a = 0
  | BadIndex => exists a, In a s /\ nthz (a_moves a) (a_pick a) = None
  | IllegalCandidate => exists a m p, In a s /\ picks a m /\ move p m = None
  end.
Proof.
  induction s as [|a rest IH]; intros pos err H; simpl in H.
  - destruct (sp_ply_limit cfg <? ply pos) eqn:El; [discriminate|].
    destruct (winner pos) as (c, [r|]); [discriminate|]. injection H as <-. simpl. lia.
  - destruct (sp_ply_limit cfg <? ply pos) eqn:El; [discriminate|].
    destruct (winner pos) as (c, [r|]); [discriminate|].
    destruct (a_sims a =? 0) eqn:Es.
    { injection H as <-. exists a. split; [left; reflexivity|lia]. }
    destruct (resigns cfg a); [discriminate|].
    destruct (nthz (a_moves a) (a_pick a)) as [m|] eqn:Em.
    2:{ injection H as <-. exists a. split; [left; reflexivity|assumption]. }
    destruct (move pos m) as [q|] eqn:Eq.
    2:{ injection H as <-. exists a, m, pos. split; [left; reflexivity|]. split; assumption. }
    destruct (play_loop cfg q rest) as [tr' e' f'|err'] eqn:Ep; [discriminate|].
    simpl in H. injection H as <-. specialize (IH q err' Ep). pose proof (move_ply _ _ _ Eq) as Hq.
    destruct err'.
    + simpl length. lia.
    + destruct IH as (a' & Hin & Hz). exists a'. split; [right; assumption|assumption].
    + destruct IH as (a' & Hin & Hz). exists a'. split; [right; assumption|assumption].
    + destruct IH as (a' & m' & p' & Hin & Hz). exists a', m', p'. split; [right; assumption|assumption].
Qed.

(* a stream of ply_limit + 1 answers is never exhausted; with simulations > 0 and the sampled index
   inside the candidate list the only remaining failure is an illegal candidate *)
Lemma errors_excluded cfg s err : play_one_game cfg s = Err err ->
  match err with
  | Exhausted => Z.of_nat (length s) <= sp_ply_limit cfg
  | ZeroSims => exists a, In a s /\ a_sims a = 0
  | BadIndex => exists a, In a s /\ nthz (a_moves a) (a_pick a) = None
  | IllegalCandidate => exists a m p, In a s /\ picks a m /\ move p m = None
  end.
Proof.
  intros H. apply loop_errors in H. destruct err; exact H.
Qed.

(* ---------- a concrete game satisfying the hypotheses (3x3, Black resigns at ply 1) ---------- *)
Definition ex_cfg : sp_config := mkSp 3 (1 # 2) 100.
Definition ex_stream : list answer :=
  [ mkAns [mkMove 0 0 PlaceFlat None; mkMove 1 1 PlaceFlat None] [1 # 4; 3 # 4]%Q (1 # 2) 4 (1 # 4) 1;
    mkAns [mkMove 1 0 PlaceFlat None; mkMove 2 2 PlaceFlat None; mkMove 0 2 PlaceFlat None]
          [1 # 2; 1 # 4; 1 # 4]%Q (-(3)) 4 (-(3) # 4) 0 ].

Example ex_game :
  exists tr f, play_one_game ex_cfg ex_stream = Done tr ExitResign f /\
    length (t_positions tr) = 2%nat /\ t_result tr = Some White /\ results tr = [1; -1] /\
    (forall a, In a ex_stream -> good_answer a) /\
    (forall i p a, nth_error (t_positions tr) i = Some p -> nth_error ex_stream i = Some a ->
       forall m, In m (a_moves a) -> move p m <> None).
Proof.
  eexists. eexists. split; [vm_compute; reflexivity|].
  split; [reflexivity|]. split; [reflexivity|]. split; [reflexivity|]. split.
  - intros a [<-|[<-|[]]]; unfold good_answer; simpl;
      (split; [reflexivity|]); (split; [repeat (constructor; [unfold Qle; simpl; lia|]); constructor|]);
      (split; [reflexivity|]); (split; [lia|]); unfold Qle; simpl; lia.
  - intros [|[|i]] p a Hp Ha m Hm; simpl in Hp, Ha.
    + injection Hp as <-. injection Ha as <-. destruct Hm as [<-|[<-|[]]]; vm_compute; discriminate.
    + injection Hp as <-. injection Ha as <-. destruct Hm as [<-|[<-|[<-|[]]]]; vm_compute; discriminate.
    + destruct i; discriminate.
Qed.

(* the error outcome of errors_excluded is reachable: an engine that stops answering *)
Example ex_exhausted : play_one_game ex_cfg (firstn 1 ex_stream) = Err Exhausted /\
  Z.of_nat (length (firstn 1 ex_stream)) <= sp_ply_limit ex_cfg.
Proof. split; [vm_compute; reflexivity|simpl; lia]. Qed.
