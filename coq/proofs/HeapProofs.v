(* C05 - soundness of the freshness discipline of model/HeapSem.v:
   a program whose every in-place operation targets an object allocated by the
   current activation leaves every pre-existing heap object unchanged, whatever
   the oracle stream (branches, loop counts, indices), the fuel and the way the
   run ends (return, raise part-way, error).  Corollary: snapshots of retained
   values are stable over any sequence of such calls. *)
From Coq Require Import List Bool Arith Lia.
From Coq Require String.
From TV Require Import model.HeapSem.
Import ListNotations.

Ltac inv H := inversion H; subst; clear H.
Ltac dm H := match type of H with context [match ?x with _ => _ end] => let E := fresh "E" in destruct x eqn:E end.

(* ---- lists ------------------------------------------------------------ *)
Lemma update_length : forall A (l : list A) n a, length (update l n a) = length l.
Proof. induction l as [|x t IH]; intros [|n] a; simpl; auto. Qed.

Lemma nth_error_update_eq : forall A (l : list A) n a, n < length l -> nth_error (update l n a) n = Some a.
Proof. induction l as [|x t IH]; intros [|n] a Hn; simpl in *; try lia; auto. apply IH. lia. Qed.

Lemma nth_error_update_neq : forall A (l : list A) n m a, n <> m -> nth_error (update l n a) m = nth_error l m.
Proof.
  induction l as [|x t IH]; intros [|n] [|m] a Hn; simpl; auto; try congruence.
Qed.

Lemma nth_error_update_inv : forall A (l : list A) n m a b,
  nth_error (update l n a) m = Some b -> (n = m /\ b = a) \/ nth_error l m = Some b.
Proof.
  intros A l n m a b H. destruct (Nat.eq_dec n m) as [->|Hne].
  - destruct (lt_dec m (length l)) as [Hl|Hl].
    + rewrite nth_error_update_eq in H by auto. inv H. auto.
    + assert (nth_error (update l m a) m = None) as Hn by (apply nth_error_None; rewrite update_length; lia).
      congruence.
  - rewrite nth_error_update_neq in H by auto. auto.
Qed.

Lemma Forall_firstn' : forall A (P : A -> Prop) n l, Forall P l -> Forall P (firstn n l).
Proof. induction n; intros [|x t] H; simpl; auto. inv H. constructor; auto. Qed.
Lemma Forall_skipn' : forall A (P : A -> Prop) n l, Forall P l -> Forall P (skipn n l).
Proof. induction n; intros [|x t] H; simpl; auto. inv H. auto. Qed.
Lemma Forall_update : forall A (P : A -> Prop) l n a, Forall P l -> P a -> Forall P (update l n a).
Proof. induction l as [|x t IH]; intros [|n] a H Ha; simpl; auto; inv H; constructor; auto. Qed.
Lemma Forall_rev' : forall A (P : A -> Prop) l, Forall P l -> Forall P (rev l).
Proof. intros A P l H. apply Forall_forall. intros x Hx. apply in_rev in Hx. eapply Forall_forall; eauto. Qed.
Lemma Forall_nth_error : forall A (P : A -> Prop) l n a, Forall P l -> nth_error l n = Some a -> P a.
Proof. intros A P l n a H Hn. apply nth_error_In in Hn. eapply Forall_forall; eauto. Qed.
Lemma Forall_app' : forall A (P : A -> Prop) a b, Forall P a -> Forall P b -> Forall P (a ++ b).
Proof. intros. apply Forall_app. auto. Qed.
Lemma Forall_mono : forall A (P Q : A -> Prop) l, (forall a, P a -> Q a) -> Forall P l -> Forall Q l.
Proof. intros A P Q l H F. eapply Forall_impl; eauto. Qed.

Lemma lookup_cons : forall e x y v, lookup ((y, v) :: e) x = if String.eqb x y then Some v else lookup e x.
Proof. reflexivity. Qed.
Lemma lookup_cons_neq : forall e x y v, x <> y -> lookup ((y, v) :: e) x = lookup e x.
Proof. intros. rewrite lookup_cons. apply String.eqb_neq in H. rewrite H. auto. Qed.
Lemma lookup_cons_eq : forall e x v, lookup ((x, v) :: e) x = Some v.
Proof. intros. rewrite lookup_cons, String.eqb_refl. auto. Qed.

(* ---- well-formedness (no dangling locations) --------------------------- *)
Definition wfv (n : nat) (v : val) : Prop := match v with VLoc l => l < n | _ => True end.
Definition wfo (n : nat) (o : obj) : Prop := Forall (wfv n) o.
Definition closed (h : heap) : Prop := forall l o, nth_error h l = Some o -> wfo (length h) o.
Definition wfe (n : nat) (e : env) : Prop := forall x v, lookup e x = Some v -> wfv n v.
Definition wf_out (n : nat) (out : outcome) : Prop := match out with ORet v => wfv n v | _ => True end.

Lemma wfv_mono : forall n m v, n <= m -> wfv n v -> wfv m v.
Proof. intros n m [| |l] H; simpl; auto. lia. Qed.
Lemma wfo_mono : forall n m o, n <= m -> wfo n o -> wfo m o.
Proof. intros. eapply Forall_mono; [|eauto]. intros. eapply wfv_mono; eauto. Qed.
Lemma wfe_mono : forall n m e, n <= m -> wfe n e -> wfe m e.
Proof. intros n m e H W x v L. eapply wfv_mono; eauto. Qed.
Lemma wfe_cons : forall n e x v, wfe n e -> wfv n v -> wfe n ((x, v) :: e).
Proof. intros n e x v W V y w L. rewrite lookup_cons in L. destruct (String.eqb y x); [inv L; auto | eauto]. Qed.

Lemma closed_app1 : forall h o, closed h -> wfo (S (length h)) o -> closed (h ++ [o]).
Proof.
  intros h o C W l ob N. rewrite app_length. simpl. replace (length h + 1) with (S (length h)) by lia.
  destruct (lt_dec l (length h)) as [Hl|Hl].
  - rewrite nth_error_app1 in N by auto. eapply wfo_mono; [|eapply C; eauto]. lia.
  - rewrite nth_error_app2 in N by lia. destruct (l - length h) as [|k]; simpl in N.
    + inv N. auto.
    + destruct k; discriminate.
Qed.

Lemma closed_update : forall h l o, closed h -> wfo (length h) o -> closed (update h l o).
Proof.
  intros h l o C W l' ob N. rewrite update_length.
  apply nth_error_update_inv in N. destruct N as [[_ ->]|N]; eauto.
Qed.

Lemma get_obj_spec : forall e h x l ob, get_obj e h x = Some (l, ob) -> lookup e x = Some (VLoc l) /\ nth_error h l = Some ob.
Proof.
  unfold get_obj. intros e h x l ob H. destruct (lookup e x) as [[| |l0]|]; try discriminate.
  destruct (nth_error h l0) eqn:N; inv H. auto.
Qed.

Lemma get_obj_wf : forall e h x l ob, closed h -> get_obj e h x = Some (l, ob) -> wfo (length h) ob.
Proof. intros e h x l ob C H. apply get_obj_spec in H. destruct H. eauto. Qed.

Lemma eval_atom_wf : forall n e a v, wfe n e -> eval_atom e a = Some v -> wfv n v.
Proof. intros n e [| |x] v W H; simpl in H; [inv H; simpl; auto | inv H; simpl; auto | eauto]. Qed.

Lemma eval_atoms_wf : forall n e es vs, wfe n e -> eval_atoms e es = Some vs -> wfo n vs.
Proof.
  induction es as [|a t IH]; intros vs W H; simpl in H.
  - inv H. constructor.
  - destruct (eval_atom e a) eqn:A; [|discriminate]. destruct (eval_atoms e t) eqn:T; [|discriminate]. inv H.
    constructor; [eapply eval_atom_wf; eauto | apply IH; auto].
Qed.

Lemma repeat_obj_wf : forall n o k, wfo n o -> wfo n (repeat_obj o k).
Proof. unfold wfo. induction k; intros; simpl; [constructor | apply Forall_app'; auto]. Qed.

Lemma map2_pick_wf : forall n a b, wfo n a -> wfo n b -> wfo n (map2 pick a b).
Proof.
  induction a as [|x a IH]; intros [|y b] Ha Hb; simpl; try constructor.
  - inv Ha. inv Hb. destruct y; simpl; auto.
  - inv Ha. inv Hb. apply IH; auto.
Qed.

Lemma set_fields_wf : forall n e fs o o', wfe n e -> wfo n o -> set_fields e o fs = Some o' -> wfo n o'.
Proof.
  induction fs as [|[k a] t IH]; intros o o' W Ho H; simpl in H.
  - inv H. auto.
  - destruct (eval_atom e a) eqn:A; [|discriminate]. destruct (k <? length o); [|discriminate].
    eapply IH; [auto| |eauto]. apply Forall_update; auto. eapply eval_atom_wf; eauto.
Qed.

Lemma alloc_many_spec : forall n h vs ls h2, alloc_many h vs n = (ls, h2) ->
  exists ext, h2 = h ++ ext /\ length ext = n /\ Forall (fun o => o = vs) ext /\
              Forall (fun v => exists l, v = VLoc l /\ length h <= l < length h + n) ls.
Proof.
  induction n as [|n IH]; intros h vs ls h2 H; simpl in H.
  - inv H. exists []. rewrite app_nil_r. repeat split; auto.
  - unfold alloc in H. destruct (alloc_many (h ++ [vs]) vs n) as [ls' h'] eqn:A. inv H.
    apply IH in A. destruct A as [ext [-> [L [F1 F2]]]].
    exists (vs :: ext). rewrite <- app_assoc. simpl. repeat split; auto.
    constructor.
    + exists (length h). split; auto. lia.
    + eapply Forall_mono; [|exact F2]. intros v [l [-> Hl]]. exists l. split; auto.
      rewrite app_length in Hl. simpl in Hl. lia.
Qed.

Lemma closed_app : forall ext h, closed h -> Forall (wfo (length h)) ext -> closed (h ++ ext).
Proof.
  induction ext as [|o ext IH]; intros h C F.
  - rewrite app_nil_r. auto.
  - inv F. replace (h ++ o :: ext) with ((h ++ [o]) ++ ext) by (rewrite <- app_assoc; auto).
    apply IH.
    + apply closed_app1; auto. eapply wfo_mono; [|eauto]. lia.
    + rewrite app_length. simpl. eapply Forall_mono; [|eauto]. intros a Ha. eapply wfo_mono; [|eauto]. lia.
Qed.

(* shape of an evaluation of a right-hand side: the heap only grows; an
   allocation yields a location that did not exist before *)
Lemma eval_rhs_shape : forall e h o r v h' o', eval_rhs e h o r = Some (v, h', o') ->
  exists ext, h' = h ++ ext /\
    (is_alloc r = true -> exists l, v = VLoc l /\ length h <= l < length h') /\
    (is_alloc r = false -> ext = []) /\
    (forall es, r = RDisplay es -> exists vs, eval_atoms e es = Some vs /\ ext = [vs] /\ v = VLoc (length h)).
Proof.
  intros e h o r v h' o' H.
  assert (AL : forall ob, exists l, VLoc (length h) = VLoc l /\ length h <= l < length (h ++ [ob])).
  { intros ob. exists (length h). rewrite app_length. simpl. split; auto. lia. }
  destruct r; simpl in H; unfold alloc in H;
    try (repeat (dm H; try discriminate); inv H; eexists [_]; repeat split; auto; discriminate).
  - dm H; inv H. exists []. rewrite app_nil_r. repeat split; auto; try discriminate.
  - repeat (dm H; try discriminate). inv H. exists []. rewrite app_nil_r. repeat split; auto; discriminate.
  - repeat (dm H; try discriminate). inv H. eexists [_]. repeat split; auto; try discriminate.
    intros es0 Hes. inv Hes. eauto.
  - repeat (dm H; try discriminate). inv H.
    match goal with X : alloc_many _ _ _ = _ |- _ => apply alloc_many_spec in X; destruct X as [ext [-> [L _]]] end.
    eexists (ext ++ [_]). rewrite app_assoc. repeat split; auto; try discriminate.
    intros _. exists (length (h ++ ext)). split; auto. repeat rewrite app_length. simpl. lia.
Qed.

Lemma eval_rhs_wf : forall e h o r v h' o', closed h -> wfe (length h) e ->
  eval_rhs e h o r = Some (v, h', o') -> closed h' /\ wfv (length h') v /\ length h <= length h'.
Proof.
  intros e h o r v h' o' C W H.
  assert (AL : forall ob, wfo (length h) ob ->
            closed (h ++ [ob]) /\ wfv (length (h ++ [ob])) (VLoc (length h)) /\ length h <= length (h ++ [ob])).
  { intros ob Wo. rewrite app_length. simpl. repeat split; try lia. apply closed_app1; auto. eapply wfo_mono; [|eauto]. lia. }
  destruct r; simpl in H; unfold alloc in H.
  - dm H; inv H. repeat split; auto. eapply eval_atom_wf; eauto.
  - repeat (dm H; try discriminate). inv H. repeat split; auto.
    eapply Forall_nth_error; [eapply get_obj_wf; eauto | eauto].
  - repeat (dm H; try discriminate). inv H. apply AL. eapply get_obj_wf; eauto.
  - repeat (dm H; try discriminate). inv H. apply AL. apply Forall_rev'. eapply get_obj_wf; eauto.
  - repeat (dm H; try discriminate). inv H. apply AL. unfold slice. apply Forall_firstn', Forall_skipn'. eapply get_obj_wf; eauto.
  - repeat (dm H; try discriminate). inv H. apply AL. apply Forall_app'; eapply get_obj_wf; eauto.
  - repeat (dm H; try discriminate). inv H. apply AL. eapply eval_atoms_wf; eauto.
  - repeat (dm H; try discriminate). inv H. apply AL. apply repeat_obj_wf. eapply get_obj_wf; eauto.
  - repeat (dm H; try discriminate). inv H.
    apply alloc_many_spec in E1. destruct E1 as [ext [-> [L [F1 F2]]]].
    assert (C1 : closed (h ++ ext)).
    { apply closed_app; auto. eapply Forall_mono; [|exact F1]. intros a ->. eapply eval_atoms_wf; eauto. }
    repeat rewrite app_length. simpl. repeat split; try lia.
    apply closed_app1; auto. rewrite app_length.
    eapply Forall_mono; [|exact F2]. intros a [l1 [-> Hl]]. simpl. lia.
  - repeat (dm H; try discriminate). inv H. apply AL. apply map2_pick_wf; eapply get_obj_wf; eauto.
  - repeat (dm H; try discriminate). inv H. apply AL. eapply set_fields_wf; eauto. eapply get_obj_wf; eauto.
Qed.

Lemma eval_idx_oracle : forall i n o k o', eval_idx i n o = Some (k, o') -> True.
Proof. auto. Qed.

Lemma apply_mop_wf : forall e h o ob op ob' o', closed h -> wfe (length h) e -> wfo (length h) ob ->
  apply_mop e h o ob op = Some (ob', o') -> wfo (length h) ob'.
Proof.
  intros e h o ob op ob' o' C W Wo H. unfold wfo in *.
  destruct op; simpl in H; repeat (dm H; try discriminate); inv H.
  - apply Forall_update; auto. eapply eval_atom_wf; eauto.
  - apply Forall_app'; auto. constructor; auto. eapply eval_atom_wf; eauto.
  - apply Forall_app'; auto. eapply get_obj_wf; eauto.
  - unfold insert_at. apply Forall_app'; [apply Forall_firstn'; auto|]. constructor; [eapply eval_atom_wf; eauto | apply Forall_skipn'; auto].
  - unfold delete_at. apply Forall_app'; [apply Forall_firstn'|apply Forall_skipn']; auto.
  - apply Forall_app'; [apply Forall_firstn'|apply Forall_skipn']; auto.
  - apply Forall_app'; [apply Forall_firstn'; auto|]. apply Forall_app'; [eapply get_obj_wf; eauto | apply Forall_skipn'; auto].
  - constructor.
  - apply Forall_rev'; auto.
  - auto.
Qed.

Lemma do_mut_wf : forall e h o l op e' h' o' out, closed h -> wfe (length h) e ->
  do_mut e h o l op = ((e', h', o'), out) -> closed h' /\ wfe (length h') e' /\ length h' = length h /\ out <> OBreak /\ (forall v, out <> ORet v).
Proof.
  intros e h o l op e' h' o' out C W H. unfold do_mut in H.
  repeat (dm H; try discriminate); inv H; try (repeat split; auto; congruence).
  rewrite update_length. repeat split; auto; try congruence.
  apply closed_update; auto. eapply apply_mop_wf; eauto.
Qed.

(* exec never creates a dangling location *)
Lemma exec_wf : forall fuel s e h o e' h' o' out, closed h -> wfe (length h) e ->
  exec fuel s e h o = ((e', h', o'), out) ->
  closed h' /\ wfe (length h') e' /\ length h <= length h' /\ wf_out (length h') out.
Proof.
  induction fuel as [|f IH]; intros s e h o e' h' o' out C W H; simpl in H.
  { inv H. simpl. auto. }
  destruct s.
  - inv H. simpl. auto.
  - dm H.
    + destruct p as [[v h1] o1]. inv H. apply eval_rhs_wf in E; auto. destruct E as [C1 [V1 L1]].
      simpl. repeat split; auto. apply wfe_cons; auto. eapply wfe_mono; eauto.
    + inv H. simpl. auto.
  - repeat (dm H; try (inv H; simpl; auto; fail)).
    apply do_mut_wf in H; auto. destruct H as [C1 [W1 [L1 [_ Hr]]]]. repeat split; auto; try lia.
    destruct out; simpl; auto. exfalso. eapply Hr; eauto.
  - repeat (dm H; try (inv H; simpl; auto; fail)).
    apply do_mut_wf in H; auto. destruct H as [C1 [W1 [L1 [_ Hr]]]]. repeat split; auto; try lia.
    destruct out; simpl; auto. exfalso. eapply Hr; eauto.
  - destruct (exec f s1 e h o) as [[[e1 h1] o1] out1] eqn:E1.
    apply IH in E1; auto. destruct E1 as [C1 [W1 [L1 O1]]].
    destruct out1; try (inv H; auto; fail).
    apply IH in H; auto. destruct H as [C2 [W2 [L2 O2]]]. repeat split; auto. lia.
  - repeat (dm H; try (inv H; simpl; auto; fail)); apply IH in H; auto.
  - dm H; [|inv H; simpl; auto]. destruct p as [n o1]. destruct n as [|n].
    { inv H. simpl. auto. }
    match type of H with context [match ?b with Some e0 => _ | None => _ end] => destruct b as [e0|] eqn:B end;
      [|inv H; simpl; auto].
    assert (W0 : wfe (length h) e0).
    { destruct bd as [[v c]|]; [|inv B; auto].
      repeat (dm B; try discriminate). inv B. apply wfe_cons; auto.
      eapply Forall_nth_error; [eapply get_obj_wf; eauto | eauto]. }
    destruct (exec f s e0 h o1) as [[[e1 h1] o2] out1] eqn:E1.
    apply IH in E1; auto. destruct E1 as [C1 [W1 [L1 O1]]].
    destruct out1; try (inv H; auto; fail).
    + apply IH in H; auto. destruct H as [C2 [W2 [L2 O2]]]. repeat split; auto. lia.
    + apply IH in H; auto. destruct H as [C2 [W2 [L2 O2]]]. repeat split; auto. lia.
  - destruct (exec f s e h o) as [[[e1 h1] o1] out1] eqn:E1.
    apply IH in E1; auto. destruct E1 as [C1 [W1 [L1 O1]]].
    destruct out1; inv H; simpl; repeat split; auto; apply wfe_cons; simpl; auto.
  - (* STry *)
    destruct (exec f s1 e h o) as [[[e1 h1] o1] out1] eqn:E1.
    apply IH in E1; auto. destruct E1 as [C1 [W1 [L1 O1]]].
    match type of H with (match ?r with _ => _ end) = _ => destruct r as [[[e2 h2] o2] out2] eqn:E2 end.
    assert (X2 : closed h2 /\ wfe (length h2) e2 /\ length h1 <= length h2 /\ wf_out (length h2) out2).
    { destruct out1; try (inv E2; repeat split; auto; fail); apply IH in E2; auto. }
    destruct X2 as [C2 [W2 [L2 O2]]].
    assert (G : forall e3 h3 o3 out3, exec f s4 e2 h2 o2 = ((e3, h3, o3), out3) ->
                closed h3 /\ wfe (length h3) e3 /\ length h <= length h3 /\ wf_out (length h3) out3 /\
                wf_out (length h3) out2).
    { intros e3 h3 o3 out3 E3. apply IH in E3; auto. destruct E3 as [C3 [W3 [L3 O3]]].
      repeat split; auto; try lia. destruct out2; simpl in *; auto. eapply wfv_mono; eauto. }
    destruct (exec f s4 e2 h2 o2) as [[[e3 h3] o3] out3] eqn:E3.
    destruct (G _ _ _ _ eq_refl) as [C3 [W3 [L3 [O3 O2']]]].
    destruct out2; try (inv H; simpl; repeat split; auto; lia);
      destruct out3; inv H; simpl; repeat split; auto.
  - inv H. simpl. auto.
  - dm H; inv H; simpl; auto. repeat split; auto. eapply eval_atom_wf; eauto.
  - inv H. simpl. auto.
  - inv H. simpl. auto.
Qed.

(* ---- the discipline ---------------------------------------------------- *)
Definition frv (n0 : nat) (v : val) : Prop := match v with VLoc l => n0 <= l | _ => True end.

Record Inv (P : prog) (n0 : nat) (h0 : heap) (e : env) (h : heap) : Prop := {
  i_len : n0 <= length h;
  i_frame : forall l, l < n0 -> nth_error h l = nth_error h0 l;
  i_fresh : forall x v, fresh_name P x = true -> lookup e x = Some v -> exists l, v = VLoc l /\ n0 <= l < length h;
  i_deep : forall x l, deep_name P x = true -> lookup e x = Some (VLoc l) ->
           exists o, nth_error h l = Some o /\ Forall (frv n0) o;
  i_sep : forall x y l, deep_name P x = true -> fresh_name P y = true -> x <> y ->
          lookup e x = Some (VLoc l) -> lookup e y <> Some (VLoc l)
}.

Definition sub (s : stmt) (P : prog) : Prop :=
  incl (binds s) (binds (body P)) /\ incl (muts s) (muts (body P)).

Lemma deep_fresh : forall P x, deep_name P x = true -> fresh_name P x = true.
Proof. unfold deep_name. intros P x H. apply andb_true_iff in H. destruct H as [H _]. apply andb_true_iff in H. tauto. Qed.

Lemma bind_fresh_alloc : forall P x r, In (x, Some r) (binds (body P)) -> fresh_name P x = true -> is_alloc r = true.
Proof.
  unfold fresh_name. intros P x r I H. apply andb_true_iff in H. destruct H as [_ H].
  rewrite forallb_forall in H. apply H in I. simpl in I. rewrite String.eqb_refl in I. auto.
Qed.

Lemma bind_none_not_fresh : forall P x, In (x, None) (binds (body P)) -> fresh_name P x = false.
Proof.
  intros P x I. destruct (fresh_name P x) eqn:F; auto. unfold fresh_name in F.
  apply andb_true_iff in F. destruct F as [_ H]. rewrite forallb_forall in H. apply H in I. simpl in I.
  rewrite String.eqb_refl in I. discriminate.
Qed.

Lemma bind_deep_display : forall P x r, In (x, Some r) (binds (body P)) -> deep_name P x = true ->
  exists es, r = RDisplay es /\ forallb (atom_fresh P) es = true.
Proof.
  unfold deep_name. intros P x r I H. apply andb_true_iff in H. destruct H as [H _].
  apply andb_true_iff in H. destruct H as [_ H]. rewrite forallb_forall in H. apply H in I. simpl in I.
  rewrite String.eqb_refl in I. destruct r; try discriminate. eauto.
Qed.

Lemma deep_not_mut1 : forall P x y op, In (Mut1 y op) (muts (body P)) -> deep_name P x = true -> x <> y.
Proof.
  unfold deep_name. intros P x y op I H. apply andb_true_iff in H. destruct H as [_ H].
  rewrite forallb_forall in H. apply H in I. intros ->. rewrite String.eqb_refl in I. discriminate.
Qed.

Lemma param_not_fresh : forall P x, mem x (params P) = true -> fresh_name P x = false.
Proof. unfold fresh_name. intros P x ->. auto. Qed.

(* heap extension *)
Lemma inv_extend : forall P n0 h0 e h ext, Inv P n0 h0 e h -> Inv P n0 h0 e (h ++ ext).
Proof.
  intros P n0 h0 e h ext I. destruct I as [L F Fr D S]. constructor.
  - rewrite app_length. lia.
  - intros l Hl. rewrite nth_error_app1 by lia. auto.
  - intros x v Hx Lk. destruct (Fr x v Hx Lk) as [l [-> Hl]]. exists l. split; auto. rewrite app_length. lia.
  - intros x l Hx Lk. destruct (D x l Hx Lk) as [o [N Fo]]. exists o. split; auto.
    rewrite nth_error_app1; auto. apply nth_error_Some. congruence.
  - auto.
Qed.

(* binding a name that is not fresh-only *)
Lemma inv_bind_other : forall P n0 h0 e h x v, Inv P n0 h0 e h -> fresh_name P x = false -> Inv P n0 h0 ((x, v) :: e) h.
Proof.
  intros P n0 h0 e h x v I NF. destruct I as [L F Fr D S]. constructor; auto.
  - intros y w Hy Lk. rewrite lookup_cons_neq in Lk by congruence. eauto.
  - intros y l Hy Lk. rewrite lookup_cons_neq in Lk by (apply deep_fresh in Hy; congruence). eauto.
  - intros y z l Hy Hz Ne Lk. apply deep_fresh in Hy as Hy'.
    rewrite lookup_cons_neq in Lk by congruence. rewrite lookup_cons_neq by congruence. eauto.
Qed.

(* binding any name to a location allocated just now *)
Lemma inv_bind_new : forall P n0 h0 e h ext x l, Inv P n0 h0 e h ->
  length h <= l < length (h ++ ext) ->
  (deep_name P x = true -> exists o, nth_error (h ++ ext) l = Some o /\ Forall (frv n0) o) ->
  Inv P n0 h0 ((x, VLoc l) :: e) (h ++ ext).
Proof.
  intros P n0 h0 e h ext x l I Hl Hd.
  pose proof (inv_extend P n0 h0 e h ext I) as I'. destruct I as [L F Fr D S]. destruct I' as [L' F' Fr' D' S'].
  constructor; auto.
  - intros y w Hy Lk. rewrite lookup_cons in Lk. destruct (String.eqb y x) eqn:Ey.
    + inv Lk. exists l. split; auto. lia.
    + eauto.
  - intros y l1 Hy Lk. rewrite lookup_cons in Lk. destruct (String.eqb y x) eqn:Ey.
    + apply String.eqb_eq in Ey. subst y. inv Lk. auto.
    + eauto.
  - intros y z l1 Hy Hz Ne Lk Lk2. apply deep_fresh in Hy as Hy'.
    rewrite lookup_cons in Lk, Lk2.
    destruct (String.eqb y x) eqn:Ey; destruct (String.eqb z x) eqn:Ez.
    + apply String.eqb_eq in Ey, Ez. congruence.
    + inv Lk. destruct (Fr z _ Hz Lk2) as [l2 [E2 H2]]. inv E2. lia.
    + inv Lk2. destruct (Fr y _ Hy' Lk) as [l2 [E2 H2]]. inv E2. lia.
    + exact (S y z l1 Hy Hz Ne Lk Lk2).
Qed.

(* an in-place operation on an object allocated by this activation *)
Lemma inv_update : forall P n0 h0 e h l ob', Inv P n0 h0 e h -> n0 <= l -> l < length h ->
  (forall z, deep_name P z = true -> lookup e z = Some (VLoc l) -> Forall (frv n0) ob') ->
  Inv P n0 h0 e (update h l ob').
Proof.
  intros P n0 h0 e h l ob' I Hl Hlt Hd. destruct I as [L F Fr D S]. constructor; auto.
  - rewrite update_length. auto.
  - intros l1 H1. rewrite nth_error_update_neq by lia. auto.
  - intros x v Hx Lk. rewrite update_length. eauto.
  - intros x l1 Hx Lk. destruct (Nat.eq_dec l l1) as [<-|Ne].
    + exists ob'. split; [apply nth_error_update_eq; auto | eauto].
    + rewrite nth_error_update_neq by auto. eauto.
Qed.

Lemma eval_atoms_frv : forall P n0 h0 e h es vs, Inv P n0 h0 e h -> forallb (atom_fresh P) es = true ->
  eval_atoms e es = Some vs -> Forall (frv n0) vs.
Proof.
  intros P n0 h0 e h es vs I. revert vs. induction es as [|a t IH]; intros vs Hf H; simpl in *.
  - inv H. constructor.
  - apply andb_true_iff in Hf. destruct Hf as [Ha Ht].
    destruct (eval_atom e a) eqn:A; [|discriminate]. destruct (eval_atoms e t) eqn:T; [|discriminate]. inv H.
    constructor; auto. destruct a as [| |y]; simpl in A; try (inv A; simpl; auto; fail).
    simpl in Ha. destruct (i_fresh _ _ _ _ _ I y v Ha A) as [lq [-> Hl]]. simpl. lia.
Qed.

Lemma apply_mop_imm : forall n0 e h o ob op ob' o', op_imm op = true -> Forall (frv n0) ob ->
  apply_mop e h o ob op = Some (ob', o') -> Forall (frv n0) ob'.
Proof.
  intros n0 e h o ob op ob' o' Hi Fo H.
  destruct op; simpl in Hi; try discriminate; simpl in H.
  - destruct a; try discriminate. repeat (dm H; try discriminate). inv H. inv E. apply Forall_update; simpl; auto.
  - destruct a; try discriminate. simpl in H. inv H. apply Forall_app'; auto. constructor; simpl; auto.
  - destruct a; try discriminate. repeat (dm H; try discriminate). inv H. inv E. unfold insert_at.
    apply Forall_app'; [apply Forall_firstn'; auto|]. constructor; simpl; auto. apply Forall_skipn'; auto.
  - repeat (dm H; try discriminate). inv H. unfold delete_at. apply Forall_app'; [apply Forall_firstn'|apply Forall_skipn']; auto.
  - repeat (dm H; try discriminate). inv H. apply Forall_app'; [apply Forall_firstn'|apply Forall_skipn']; auto.
  - inv H. constructor.
  - inv H. apply Forall_rev'; auto.
  - inv H. auto.
Qed.

Section Discipline.
  Variable P : prog.
  Hypothesis DISC : fresh_only P = true.

  Lemma mut_ok_in : forall m, In m (muts (body P)) -> mut_ok P m = true.
  Proof. intros m I. unfold fresh_only in DISC. rewrite forallb_forall in DISC. auto. Qed.

  Lemma exec_inv : forall n0 h0 fuel s e h o e' h' o' out, sub s P -> Inv P n0 h0 e h ->
    exec fuel s e h o = ((e', h', o'), out) -> Inv P n0 h0 e' h'.
  Proof.
    intros n0 h0. induction fuel as [|f IH]; intros s e h o e' h' o' out [SB SM] I H; simpl in H.
    { inv H. auto. }
    destruct s.
    - (* SSkip *) inv H. auto.
    - (* SBind *)
      dm H; [|inv H; auto]. destruct p as [[v h1] o1]. inv H.
      assert (IB : In (x, Some r) (binds (body P))) by (apply SB; simpl; auto).
      apply eval_rhs_shape in E. destruct E as [ext [-> [HA [HN HD]]]].
      destruct (fresh_name P x) eqn:FX.
      + pose proof (bind_fresh_alloc _ _ _ IB FX) as AL. destruct (HA AL) as [l [-> Hl]].
        apply inv_bind_new; auto. intros DX.
        destruct (bind_deep_display _ _ _ IB DX) as [es [-> Hes]].
        destruct (HD es eq_refl) as [vs [EV [-> EL]]]. inv EL.
        exists vs. split; [rewrite nth_error_app2 by lia; rewrite Nat.sub_diag; auto|].
        eapply eval_atoms_frv; eauto.
      + apply inv_bind_other; auto. apply inv_extend; auto.
    - (* SMut *)
      assert (IM : In (Mut1 x op) (muts (body P))) by (apply SM; simpl; auto).
      pose proof (mut_ok_in _ IM) as OK. simpl in OK.
      dm H; [|inv H; auto]. destruct v; try (inv H; auto; fail).
      destruct (i_fresh _ _ _ _ _ I x _ OK E) as [l0 [E0 Hl]]. inv E0.
      unfold do_mut in H. repeat (dm H; try (inv H; auto; fail)). inv H.
      apply inv_update; auto; try lia.
      intros z DZ LZ. exfalso.
      eapply (i_sep _ _ _ _ _ I z x l0); eauto. eapply deep_not_mut1; eauto.
    - (* SMut2 *)
      assert (IM : In (Mut2 x op) (muts (body P))) by (apply SM; simpl; auto).
      pose proof (mut_ok_in _ IM) as OK. simpl in OK. apply andb_true_iff in OK. destruct OK as [DX OI].
      destruct (get_obj e h x) as [[lx ox]|] eqn:GX; [|inv H; auto].
      apply get_obj_spec in GX. destruct GX as [LX NX].
      destruct (eval_idx i (length ox) o) as [[k o1]|] eqn:EI; [|inv H; auto].
      destruct (nth_error ox k) as [[| |l2]|] eqn:NK; try (inv H; auto; fail).
      destruct (i_deep _ _ _ _ _ I x lx DX LX) as [ox' [NX' FX]]. rewrite NX in NX'. inv NX'.
      pose proof (Forall_nth_error _ _ _ _ _ FX NK) as HL2. simpl in HL2.
      unfold do_mut in H.
      destruct (nth_error h l2) as [ob|] eqn:N2; [|inv H; auto].
      destruct (apply_mop e h o1 ob op) as [[ob' o2]|] eqn:AM; inv H; auto.
      apply inv_update; auto.
      + apply nth_error_Some. congruence.
      + intros z DZ LZ. destruct (i_deep _ _ _ _ _ I z l2 DZ LZ) as [oz [NZ FZ]]. rewrite N2 in NZ. inv NZ.
        eapply apply_mop_imm; eauto.
    - (* SSeq *)
      simpl in SB, SM. apply incl_app_inv in SB, SM. destruct SB as [SB1 SB2]. destruct SM as [SM1 SM2].
      destruct (exec f s1 e h o) as [[[e1 h1] o1] out1] eqn:E1.
      pose proof (IH s1 _ _ _ _ _ _ _ (conj SB1 SM1) I E1) as I1.
      destruct out1; try (inv H; auto; fail).
      exact (IH s2 _ _ _ _ _ _ _ (conj SB2 SM2) I1 H).
    - (* SIf *)
      simpl in SB, SM. apply incl_app_inv in SB, SM. destruct SB as [SB1 SB2]. destruct SM as [SM1 SM2].
      destruct (next o) as [[n o1]|] eqn:NX; [|inv H; auto]. destruct n.
      + exact (IH s2 _ _ _ _ _ _ _ (conj SB2 SM2) I H).
      + exact (IH s1 _ _ _ _ _ _ _ (conj SB1 SM1) I H).
    - (* SLoop *)
      destruct (next o) as [[n o1]|] eqn:NX; [|inv H; auto]. destruct n as [|n]; [inv H; auto|].
      match type of H with context [match ?b with Some e0 => _ | None => _ end] => destruct b as [e0|] eqn:B end;
        [|inv H; auto].
      assert (SBb : incl (binds s) (binds (body P))).
      { simpl in SB. destruct bd as [[v c]|]; auto. intros a Ha. apply SB. simpl. auto. }
      assert (I0 : Inv P n0 h0 e0 h).
      { destruct bd as [[v c]|]; [|inv B; auto].
        repeat (dm B; try discriminate). inv B. apply inv_bind_other; auto.
        apply bind_none_not_fresh. apply SB. simpl. auto. }
      destruct (exec f s e0 h o1) as [[[e1 h1] o2] out1] eqn:E1.
      pose proof (IH s _ _ _ _ _ _ _ (conj SBb SM) I0 E1) as I1.
      destruct out1; try (inv H; auto; fail);
        exact (IH (SLoop bd (S k) s) _ _ _ _ _ _ _ (conj SB SM) I1 H).
    - (* SCall *)
      assert (SBb : incl (binds s) (binds (body P))) by (intros a Ha; apply SB; simpl; auto).
      assert (NF : fresh_name P x = false) by (apply bind_none_not_fresh; apply SB; simpl; auto).
      destruct (exec f s e h o) as [[[e1 h1] o1] out1] eqn:E1.
      pose proof (IH s _ _ _ _ _ _ _ (conj SBb SM) I E1) as I1.
      destruct out1; inv H; auto; apply inv_bind_other; auto.
    - (* STry *)
      simpl in SB, SM.
      apply incl_app_inv in SB. destruct SB as [SB1 SB]. apply incl_app_inv in SB. destruct SB as [SB2 SB].
      apply incl_app_inv in SB. destruct SB as [SB3 SB4].
      apply incl_app_inv in SM. destruct SM as [SM1 SM]. apply incl_app_inv in SM. destruct SM as [SM2 SM].
      apply incl_app_inv in SM. destruct SM as [SM3 SM4].
      destruct (exec f s1 e h o) as [[[e1 h1] o1] out1] eqn:E1.
      pose proof (IH s1 _ _ _ _ _ _ _ (conj SB1 SM1) I E1) as I1.
      match type of H with (match ?r with _ => _ end) = _ => destruct r as [[[e2 h2] o2] out2] eqn:E2 end.
      assert (I2 : Inv P n0 h0 e2 h2).
      { destruct out1; try (inv E2; auto; fail).
        - exact (IH s3 _ _ _ _ _ _ _ (conj SB3 SM3) I1 E2).
        - exact (IH s2 _ _ _ _ _ _ _ (conj SB2 SM2) I1 E2). }
      destruct (exec f s4 e2 h2 o2) as [[[e3 h3] o3] out3] eqn:E3.
      pose proof (IH s4 _ _ _ _ _ _ _ (conj SB4 SM4) I2 E3) as I3.
      destruct out2; try (inv H; auto; fail); destruct out3; inv H; auto.
    - inv H. auto.
    - dm H; inv H; auto.
    - inv H. auto.
    - inv H. auto.
  Qed.
End Discipline.

Lemma lookup_combine_mem : forall ps args x v, lookup (combine ps args) x = Some v -> mem x ps = true.
Proof.
  induction ps as [|p ps IH]; intros [|a args] x v H; simpl in *; try discriminate.
  unfold mem. simpl. destruct (String.eqb x p); simpl; auto. eapply IH; eauto.
Qed.

Lemma inv_init : forall P h args, Inv P (length h) h (combine (params P) args) h.
Proof.
  intros P h args. constructor; auto.
  - intros x v F L. apply lookup_combine_mem in L. apply param_not_fresh in L. congruence.
  - intros x l D L. apply deep_fresh in D. apply lookup_combine_mem in L. apply param_not_fresh in L. congruence.
  - intros x y l D _ _ L. apply deep_fresh in D. apply lookup_combine_mem in L. apply param_not_fresh in L. congruence.
Qed.

Lemma run_exec : forall fuel P h args o h' out, run fuel P h args o = (h', out) ->
  exists e' o' out', exec fuel (body P) (combine (params P) args) h o = ((e', h', o'), out').
Proof.
  unfold run. intros fuel P h args o h' out H.
  destruct (exec fuel (body P) (combine (params P) args) h o) as [[[e1 h1] o1] out1].
  destruct out1; inv H; eauto.
Qed.

(* MAIN: every store of a disciplined program targets an object allocated by
   the activation itself, so every object that existed before the call - the
   receiver's board list, each of its stacks, every ancestor's and sibling's -
   is unchanged, however the run ends *)
Theorem discipline_sound : forall P, fresh_only P = true ->
  forall fuel h args orc h' out, run fuel P h args orc = (h', out) ->
  forall l, l < length h -> nth_error h' l = nth_error h l.
Proof.
  intros P D fuel h args orc h' out R l Hl.
  apply run_exec in R. destruct R as [e' [o' [out' E]]].
  eapply exec_inv in E; eauto.
  - eapply i_frame; eauto.
  - split; apply incl_refl.
  - apply inv_init.
Qed.

Theorem run_wf : forall fuel P h args orc h' out, closed h -> Forall (wfv (length h)) args ->
  run fuel P h args orc = (h', out) -> closed h' /\ length h <= length h' /\ wf_out (length h') out.
Proof.
  intros fuel P h args orc h' out C A R. unfold run in R.
  destruct (exec fuel (body P) (combine (params P) args) h orc) as [[[e1 h1] o1] out1] eqn:E.
  apply exec_wf in E; auto.
  - destruct E as [C1 [W1 [L1 O1]]]. destruct out1; inv R; simpl; auto.
  - intros x v L. revert A L. generalize (params P). clear. intros ps. revert args.
    induction ps as [|p ps IH]; intros [|a args] A L; simpl in *; try discriminate.
    inv A. destruct (String.eqb x p); [inv L; auto | eauto].
Qed.

(* ---- snapshots over call sequences ------------------------------------- *)
Record call := { c_prog : prog; c_fuel : nat; c_args : list val; c_orc : oracle }.
Definition step (h : heap) (c : call) : heap := fst (run (c_fuel c) (c_prog c) h (c_args c) (c_orc c)).
Definition run_calls (cs : list call) (h : heap) : heap := fold_left step cs h.

(* every call runs a disciplined program on arguments that exist when it is made *)
Fixpoint calls_ok (h : heap) (cs : list call) : Prop :=
  match cs with
  | [] => True
  | c :: t => fresh_only (c_prog c) = true /\ Forall (wfv (length h)) (c_args c) /\ calls_ok (step h c) t
  end.

Lemma snap_frame : forall d h h' n v, closed h -> n = length h ->
  (forall l, l < n -> nth_error h' l = nth_error h l) -> wfv n v -> snap d h' v = snap d h v.
Proof.
  induction d as [|d IH]; intros h h' n v C -> F W; destruct v as [| |l]; simpl in *; auto.
  rewrite F by auto. destruct (nth_error h l) as [ob|] eqn:N; auto. f_equal.
  apply map_ext_in. intros a Ha. eapply IH; eauto.
  eapply Forall_forall in Ha; [exact Ha | eapply C; eauto].
Qed.

Lemma step_spec : forall h c, closed h -> fresh_only (c_prog c) = true -> Forall (wfv (length h)) (c_args c) ->
  closed (step h c) /\ length h <= length (step h c) /\ (forall l, l < length h -> nth_error (step h c) l = nth_error h l).
Proof.
  intros h c C D A. unfold step.
  destruct (run (c_fuel c) (c_prog c) h (c_args c) (c_orc c)) as [h' out] eqn:R. simpl.
  pose proof (run_wf _ _ _ _ _ _ _ C A R) as [C' [L' _]].
  repeat split; auto. intros l Hl. eapply discipline_sound; eauto.
Qed.

Lemma run_calls_frame : forall cs h, closed h -> calls_ok h cs ->
  closed (run_calls cs h) /\ length h <= length (run_calls cs h) /\
  forall l, l < length h -> nth_error (run_calls cs h) l = nth_error h l.
Proof.
  induction cs as [|c t IH]; intros h C OK; simpl in *.
  - auto.
  - destruct OK as [D [A OK]]. destruct (step_spec h c C D A) as [C1 [L1 F1]].
    destruct (IH _ C1 OK) as [C2 [L2 F2]]. repeat split; auto; try lia.
    intros l Hl. rewrite F2 by lia. auto.
Qed.

(* a value retained from heap h (a position, its board, a stack ...) reads the
   same - same objects, same contents, to any depth - after any sequence of
   accepted and refused calls of disciplined programs *)
Theorem snapshot_stable : forall cs h, closed h -> calls_ok h cs ->
  forall v, wfv (length h) v -> forall d, snap d (run_calls cs h) v = snap d h v.
Proof.
  intros cs h C OK v W d. destruct (run_calls_frame cs h C OK) as [_ [_ F]].
  eapply snap_frame; eauto.
Qed.

Lemma calls_ok_app : forall pre post h, calls_ok h (pre ++ post) -> calls_ok h pre /\ calls_ok (run_calls pre h) post.
Proof.
  induction pre as [|c t IH]; intros post h OK; simpl in *; auto.
  destruct OK as [D [A OK]]. apply IH in OK. tauto.
Qed.

(* ... including values created part-way through the history *)
Theorem snapshot_stable_mid : forall pre post h, closed h -> calls_ok h (pre ++ post) ->
  forall v, wfv (length (run_calls pre h)) v ->
  forall d, snap d (run_calls (pre ++ post) h) v = snap d (run_calls pre h) v.
Proof.
  intros pre post h C OK v W d. apply calls_ok_app in OK. destruct OK as [OK1 OK2].
  destruct (run_calls_frame pre h C OK1) as [C1 _].
  unfold run_calls at 1. rewrite fold_left_app. apply snapshot_stable; auto.
Qed.
