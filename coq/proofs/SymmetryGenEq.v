(* T15 - the functions REGENERATED from python/tak/symmetry/symmetry.py
   (gen/SymmetryGen.v, written against model/PySem.v and model/NumpyLite.v)
   equal the hand-written model (model/Symmetry.v) and never crash on
   well-formed positions of size >= 1.

   What has to be shown, and was only sampled before: that the numpy pipeline
     stack([repeat(arange n, n), tile(arange n, n), (n-1)*ones(n*n)], -1)
       -> transpose -> matmul(sym, .) -> transpose -> astype(int) -> reshape((n, n, 3))
   really produces, at [i, j], the image of the column vector (i, j, n-1) under
   `sym`; that for the eight matrices the store index `oi + oj*size` stays
   inside the board list (C15_index_guard), so that Python's `sqs[k] = v` is
   the model's `updz` (no IndexError, no negative wrap); that `pos[i, j]` is
   inside the board; that the 3-unpackings have three values; that the
   direction lookup finds its key. *)
From Coq Require Import ZArith String List Bool Lia.
From TV Require gen.Consts gen.GameGen gen.SymmetryGen.
From TV Require Import model.Tak model.Road model.PySem model.NumpyLite model.Symmetry.
From TV Require Import proofs.ListUtil proofs.Table proofs.MoveRulesUtil proofs.PySemLemmas proofs.GameGenEq.
From TV Require Import proofs.TieSymmetry proofs.SymmetryProofs.
Import ListNotations.
Open Scope Z_scope.

(* ====================== module level ====================== *)
(* the list comprehension over [I, rot, rot^2, rot^3] x [I, flip], evaluated with NumpyLite's matmul, is the
   list of matrices the running interpreter holds (gen/Consts.v is dumped from the live module) *)
Theorem gen_symmetries_const : SymmetryGen.SYMMETRIES = Ok Consts.symmetries.
Proof. vm_compute. reflexivity. Qed.

(* ====================== the index array ====================== *)
Lemma zip3_row i c : forall Rl, zip3 (repeat i (length Rl)) Rl (repeat c (length Rl)) = map (fun j => [i; j; c]) Rl.
Proof. induction Rl as [|j Rl IH]; simpl; [reflexivity|]. rewrite IH. reflexivity. Qed.
Lemma zip3_app a b c : forall a' b' c', length a = length b -> length b = length c ->
  zip3 (a ++ a') (b ++ b') (c ++ c') = zip3 a b c ++ zip3 a' b' c'.
Proof.
  revert b c. induction a as [|x a IH]; intros [|y b] [|z c] a' b' c' H1 H2; simpl in *; try discriminate; [reflexivity|].
  rewrite IH by lia. reflexivity.
Qed.
Lemma zip3_grid c Rl : forall I,
  zip3 (flat_map (fun i => repeat i (length Rl)) I) (concat (repeat Rl (length I))) (repeat c (length I * length Rl)) =
  flat_map (fun i => map (fun j => [i; j; c]) Rl) I.
Proof.
  induction I as [|i I IH]; [reflexivity|].
  cbn [flat_map length repeat concat]. replace (S (length I) * length Rl)%nat with (length Rl + length I * length Rl)%nat by lia.
  rewrite repeat_app. rewrite zip3_app by (rewrite !repeat_length; reflexivity). rewrite zip3_row, IH. reflexivity.
Qed.
Lemma flat_map_length_const {A B} (f : A -> list B) k l : (forall a, length (f a) = k) ->
  length (flat_map f l) = (length l * k)%nat.
Proof. intros H. induction l as [|a l IH]; simpl; [reflexivity|]. rewrite app_length, H, IH. reflexivity. Qed.
Lemma concat_repeat_length {A} (l : list A) m : length (concat (repeat l m)) = (m * length l)%nat.
Proof. induction m as [|m IH]; simpl; [reflexivity|]. rewrite app_length, IH. reflexivity. Qed.
Lemma map_flat_map {A B C} (f : B -> C) (g : A -> list B) l : map f (flat_map g l) = flat_map (fun a => map f (g a)) l.
Proof. induction l as [|a l IH]; simpl; [reflexivity|]. rewrite map_app, IH. reflexivity. Qed.
Lemma map_repeat' {A B} (f : A -> B) x k : map f (repeat x k) = repeat (f x) k.
Proof. induction k as [|k IH]; simpl; [reflexivity|]. rewrite IH. reflexivity. Qed.
Lemma py_range_length n : length (py_range n) = Z.to_nat n.
Proof. unfold py_range. rewrite map_length, seq_length. reflexivity. Qed.

(* rows [a k; b k; c k] for k in L *)
Section Rows3.
  Context {T : Type} (a b c : T -> Z).
  Definition rows3 (L : list T) : list (list Z) := map (fun k => [a k; b k; c k]) L.
  Lemma transpose_rows3 L : transpose_rows 3 (rows3 L) = [map a L; map b L; map c L].
  Proof. induction L as [|k L IH]; [reflexivity|]. cbn [rows3 map transpose_rows]. fold (rows3 L). rewrite IH. reflexivity. Qed.
  Lemma transpose_cols3 L : transpose_rows (length L) [map a L; map b L; map c L] = rows3 L.
  Proof.
    induction L as [|k L IH]; [reflexivity|]. cbn [transpose_rows] in *. cbn [length repeat map zip_cons rows3].
    fold (rows3 L). rewrite <- IH. reflexivity.
  Qed.
  Lemma rows3_ok L : L <> [] -> arr2_ok (rows3 L) = true /\ ncols (rows3 L) = 3.
  Proof.
    intros HL. destruct L as [|k L]; [congruence|]. split; [|reflexivity].
    unfold arr2_ok. cbn [rows3 map ncols]. change (zlen [a k; b k; c k]) with 3.
    assert (H0 : (0 <? zlen ([a k; b k; c k] :: map (fun k0 => [a k0; b k0; c k0]) L)) = true).
    { apply Z.ltb_lt. rewrite zlen_cons. pose proof (zlen_nonneg (map (fun k0 => [a k0; b k0; c k0]) L)). lia. }
    rewrite H0. cbn [andb Z.ltb Z.compare]. apply forallb_forall. intros r [<-|Hr]; [reflexivity|].
    apply in_map_iff in Hr. destruct Hr as (k0 & <- & _). reflexivity.
  Qed.
  Lemma cols3_ok L : L <> [] -> arr2_ok [map a L; map b L; map c L] = true /\ ncols [map a L; map b L; map c L] = zlen L.
  Proof.
    intros HL. assert (Hl : 0 < zlen L). { destruct L; [congruence|]. rewrite zlen_cons. pose proof (zlen_nonneg L). lia. }
    assert (Hm : forall f : T -> Z, zlen (map f L) = zlen L) by (intros f; unfold zlen; rewrite map_length; reflexivity).
    split; [|apply Hm]. unfold arr2_ok. cbn [ncols forallb]. rewrite !Hm, Z.eqb_refl.
    change (zlen [map a L; map b L; map c L]) with 3. cbn [Z.ltb Z.compare andb].
    rewrite andb_true_r. apply Z.ltb_lt. exact Hl.
  Qed.
End Rows3.

Lemma chunks3_concat {T} (x y z : T -> Z) : forall L fuel, (length L <= fuel)%nat ->
  chunks_fuel fuel 3 (concat (rows3 x y z L)) = rows3 x y z L.
Proof.
  induction L as [|k L IH]; intros fuel Hf; [destruct fuel; reflexivity|].
  destruct fuel as [|f]; [simpl in Hf; lia|]. cbn [rows3 map concat app chunks_fuel firstn skipn].
  fold (rows3 x y z L). rewrite IH by (simpl in Hf; lia). reflexivity.
Qed.
Lemma chunks_flat_map {A B} (h : A -> list B) k : (0 < k)%nat -> (forall a, length (h a) = k) ->
  forall I fuel, (length I <= fuel)%nat -> chunks_fuel fuel k (flat_map h I) = map h I.
Proof.
  intros Hk Hh. induction I as [|i I IH]; intros fuel Hf; [destruct fuel; reflexivity|].
  destruct fuel as [|f]; [simpl in Hf; lia|]. cbn [flat_map map chunks_fuel].
  destruct (h i ++ flat_map h I) as [|e l] eqn:E.
  { exfalso. apply (f_equal (@length B)) in E. rewrite app_length, Hh in E. simpl in E. lia. }
  rewrite <- E. rewrite <- (Hh i) at 1 3.
  rewrite firstn_app, Nat.sub_diag, firstn_all, firstn_O, app_nil_r.
  rewrite skipn_app, Nat.sub_diag, skipn_all. cbn [skipn app]. rewrite IH by (simpl in Hf; lia). reflexivity.
Qed.

(* the index array: at [i][j] the image of (i, j, n-1) *)
Definition IX (g : mat) (n : Z) : list (list (list Z)) :=
  map (fun i => map (fun j => mat_vec g [i; j; n - 1]) (py_range n)) (py_range n).

Definition mat3 (g : mat) : Prop := exists r0 r1 r2, g = [r0; r1; r2] /\ zlen r0 = 3 /\ zlen r1 = 3 /\ zlen r2 = 3.
Lemma syms_mat3 g : In g syms -> mat3 g.
Proof. intros Hg. case_syms Hg; do 3 eexists; repeat split. Qed.
Lemma mat3_ok g : mat3 g -> arr2_ok g = true /\ ncols g = 3 /\ zlen g = 3.
Proof.
  intros (r0 & r1 & r2 & -> & H0 & H1 & H2). unfold arr2_ok. cbn [ncols forallb]. rewrite H0, H1, H2. repeat split.
Qed.

Lemma index_pipeline g n : mat3 g -> 1 <= n ->
  (t1 <- np_repeat (np_arange n) n ;;
   t2 <- np_tile (np_arange n) n ;;
   t3 <- np_ones (n * n) ;;
   t4 <- np_stack_last3 t1 t2 (np_scale (n - 1) t3) ;;
   t5 <- np_transpose t4 ;;
   t6 <- np_matmul g t5 ;;
   t7 <- np_transpose t6 ;;
   np_reshape3 (np_astype_int t7) n n 3) = Ok (IX g n).
Proof.
  intros Hg Hn. pose proof (mat3_ok g Hg) as (Hgok & Hgc & Hgl).
  destruct Hg as (r0 & r1 & r2 & -> & _).
  set (R := py_range n). assert (HR : length R = Z.to_nat n) by apply py_range_length.
  assert (Hnn : Z.to_nat (n * n) = (length R * length R)%nat) by (rewrite HR; lia).
  unfold np_repeat, np_tile, np_ones, np_arange. fold R.
  replace (n <? 0) with false by (symmetry; apply Z.ltb_ge; lia).
  replace (n * n <? 0) with false by (symmetry; apply Z.ltb_ge; nia).
  cbn [andb bind]. unfold np_scale, arr1, arr2, arr3. rewrite map_repeat', Z.mul_1_r.
  (* the stack *)
  set (S := flat_map (fun i => map (fun j => (i, j)) R) R).
  assert (HSlen : length S = (length R * length R)%nat).
  { unfold S. apply flat_map_length_const. intros a. apply map_length. }
  assert (HSne : S <> []). { intro E. rewrite E in HSlen. simpl in HSlen. rewrite HR in HSlen. nia. }
  assert (Hstack : np_stack_last3 (flat_map (fun x => repeat x (Z.to_nat n)) R) (concat (repeat R (Z.to_nat n)))
                     (repeat (n - 1) (Z.to_nat (n * n))) =
                   Ok (rows3 fst snd (fun _ : Z * Z => n - 1) S)).
  { unfold np_stack_last3, zlen.
    rewrite (flat_map_length_const _ (Z.to_nat n)) by (intros; apply repeat_length).
    rewrite concat_repeat_length, repeat_length, HR, Hnn, HR.
    rewrite !Z.eqb_refl. cbn [andb negb].
    replace (Z.of_nat (Z.to_nat n * Z.to_nat n) =? 0) with false by (symmetry; apply Z.eqb_neq; nia).
    f_equal. rewrite <- HR. rewrite zip3_grid. unfold rows3, S. rewrite map_flat_map.
    apply flat_map_ext. intros i. rewrite map_map. reflexivity. }
  rewrite Hstack. cbn [bind].
  (* transpose, matmul, transpose *)
  destruct (rows3_ok fst snd (fun _ : Z * Z => n - 1) S HSne) as (Hok1 & Hc1).
  unfold np_transpose at 1. rewrite Hok1, Hc1. change (Z.to_nat 3) with 3%nat. rewrite transpose_rows3. cbn [bind].
  destruct (cols3_ok fst snd (fun _ : Z * Z => n - 1) S HSne) as (Hok2 & Hc2).
  unfold np_matmul. rewrite Hgok, Hok2, Hgc, Hc2. cbn [andb negb].
  change (zlen [map fst S; map snd S; map (fun _ : Z * Z => n - 1) S]) with 3. cbn [Z.eqb Pos.eqb negb].
  unfold zlen at 1. rewrite Nat2Z.id, transpose_cols3. cbn [bind map].
  unfold rows3 at 1 2 3. rewrite !map_map.
  destruct (cols3_ok (fun x : Z * Z => np_dot r0 [fst x; snd x; n - 1]) (fun x : Z * Z => np_dot r1 [fst x; snd x; n - 1]) (fun x : Z * Z => np_dot r2 [fst x; snd x; n - 1]) S HSne) as (Hok3 & Hc3).
  unfold np_transpose. rewrite Hok3, Hc3. unfold zlen at 1. rewrite Nat2Z.id, transpose_cols3. cbn [bind].
  (* reshape *)
  unfold np_astype_int, np_reshape3.
  destruct (rows3_ok (fun x : Z * Z => np_dot r0 [fst x; snd x; n - 1]) (fun x : Z * Z => np_dot r1 [fst x; snd x; n - 1]) (fun x : Z * Z => np_dot r2 [fst x; snd x; n - 1]) S HSne) as (Hok4 & Hc4).
  rewrite Hok4, Hc4. cbn [negb].
  replace ((0 <? n) && (0 <? n) && (0 <? 3)) with true by (symmetry; rewrite !andb_true_iff, !Z.ltb_lt; lia).
  cbn [negb].
  assert (Hz : zlen (rows3 (fun x : Z * Z => np_dot r0 [fst x; snd x; n - 1]) (fun x : Z * Z => np_dot r1 [fst x; snd x; n - 1]) (fun x : Z * Z => np_dot r2 [fst x; snd x; n - 1]) S) = n * n).
  { unfold zlen, rows3. rewrite map_length, HSlen, HR. lia. }
  rewrite Hz. replace (n * n * 3 =? n * n * 3) with true by (symmetry; apply Z.eqb_refl). cbn [negb].
  f_equal. unfold chunks at 2. change (Z.to_nat 3) with 3%nat.
  rewrite chunks3_concat.
  2:{ unfold rows3. rewrite <- flat_map_concat_map.
      rewrite (flat_map_length_const _ 3%nat) by reflexivity. lia. }
  unfold chunks, rows3, S. rewrite map_flat_map.
  rewrite (flat_map_length_const _ (length R)) by (intros; rewrite !map_length; reflexivity).
  rewrite (chunks_flat_map _ (Z.to_nat n)).
  - unfold IX. fold R. apply map_ext. intros i. rewrite map_map. apply map_ext. intros j. reflexivity.
  - lia.
  - intros i. rewrite !map_length. exact HR.
  - rewrite HR. nia.
Qed.

Lemma getz_map_range {B} (F : Z -> B) (d : B) n i : 0 <= i < n -> getz d (map F (py_range n)) i = F i.
Proof.
  intros Hi. unfold getz, py_range. rewrite map_map.
  rewrite (nth_indep _ d (F (Z.of_nat 0))) by (rewrite map_length, seq_length; lia).
  rewrite (map_nth (fun x => F (Z.of_nat x)) (seq 0 (Z.to_nat n)) 0%nat).
  rewrite seq_nth by lia. simpl. f_equal. lia.
Qed.
Lemma py_getitem_map_range {B} (F : Z -> B) n i : 0 <= i < n -> py_getitem (map F (py_range n)) i = Ok (F i).
Proof.
  intros Hi. rewrite (py_getitem_ok (F 0)).
  - rewrite getz_map_range by exact Hi. reflexivity.
  - unfold zlen. rewrite map_length, py_range_length. lia.
Qed.
Lemma IX_get g n i j : 0 <= i < n -> 0 <= j < n -> np_getitem2 (IX g n) i j = Ok (mat_vec g [i; j; n - 1]).
Proof.
  intros Hi Hj. unfold np_getitem2, IX. rewrite (py_getitem_map_range _ n i Hi). cbn [bind].
  apply (py_getitem_map_range (fun j => mat_vec g [i; j; n - 1]) n j Hj).
Qed.
Lemma unpack3_sym g n x y : In g syms -> exists w,
  py_unpack3 (mat_vec g [x; y; n - 1]) = Ok (fst (apply_sym g n (x, y)), snd (apply_sym g n (x, y)), w).
Proof. intros Hg. case_syms Hg; eexists; reflexivity. Qed.

(* ====================== transform_position ====================== *)
Definition inner_step (g : mat) (p : position) (i : Z) (sqs : list stack) (j : Z) : list stack :=
  let '(oi, oj) := apply_sym g (size p) (i, j) in
  updz sqs (oi + oj * size p) (getz [] (board p) (j * size p + i)).

Lemma gen_for2_eq g p i : In g syms -> wf p -> 0 <= i < size p ->
  forall it sqs, Forall (fun j => 0 <= j < size p) it -> zlen sqs = size p * size p ->
  SymmetryGen.transform_position_for2 p (IX g (size p)) i sqs it = Ok (fold_left (inner_step g p i) it sqs).
Proof.
  intros Hg (Hn & Hl) Hi. induction it as [|j it IH]; intros sqs Hit Hs; [reflexivity|].
  inversion Hit as [|? ? Hj Hit']; subst. cbn [SymmetryGen.transform_position_for2 fold_left].
  rewrite (IX_get g (size p) i j Hi Hj). cbn [bind].
  destruct (unpack3_sym g (size p) i j Hg) as (w & ->). cbn [bind].
  rewrite (gen_getitem_eq p i j) by (try exact Hl; apply SymmetryProofs.in_bounds_iff; lia). cbn [bind].
  pose proof (index_guard g (size p) i j Hg Hi Hj) as Hidx.
  rewrite py_setitem_ok by (rewrite Hs; exact Hidx). cbn [bind].
  rewrite IH; [|exact Hit'|rewrite updz_zlen; exact Hs].
  f_equal. f_equal. unfold inner_step. destruct (apply_sym g (size p) (i, j)) as [oi oj]. reflexivity.
Qed.

Lemma py_range_bounds n : Forall (fun j => 0 <= j < n) (py_range n).
Proof. apply Forall_forall. intros j Hj. apply in_zrange in Hj. exact Hj. Qed.
Lemma fold_inner_zlen g p i : forall it sqs, zlen (fold_left (inner_step g p i) it sqs) = zlen sqs.
Proof.
  induction it as [|j it IH]; intros sqs; [reflexivity|]. cbn [fold_left]. rewrite IH. unfold inner_step.
  destruct (apply_sym g (size p) (i, j)). apply updz_zlen.
Qed.

Lemma gen_for1_eq g p : In g syms -> wf p ->
  forall it sqs, Forall (fun i => 0 <= i < size p) it -> zlen sqs = size p * size p ->
  SymmetryGen.transform_position_for1 p (IX g (size p)) sqs it =
  Ok (fold_left (fun sqs i => fold_left (inner_step g p i) (py_range (size p)) sqs) it sqs).
Proof.
  intros Hg Hwf. induction it as [|i it IH]; intros sqs Hit Hs; [reflexivity|].
  inversion Hit as [|? ? Hi Hit']; subst. cbn [SymmetryGen.transform_position_for1 fold_left].
  rewrite (gen_for2_eq g p i Hg Hwf Hi) by (try apply py_range_bounds; exact Hs). cbn [bind].
  apply IH; [exact Hit'|]. rewrite fold_inner_zlen. exact Hs.
Qed.

(* transform_position, translated, is the hand model's on every well-formed position of size >= 1, for each of
   the eight matrices: same position, and no exception of any kind *)
Theorem gen_transform_position_eq g p : wf p -> 1 <= size p -> In g syms ->
  SymmetryGen.transform_position g p = Ok (Symmetry.transform_position g p).
Proof.
  intros Hwf Hn Hg. pose proof Hwf as (_ & Hl). unfold SymmetryGen.transform_position. cbv zeta.
  pose proof (index_pipeline g (size p) (syms_mat3 g Hg) Hn) as HP.
  (* re-associate the generated chain of binds into the pipeline followed by the loops *)
  match goal with |- ?lhs = _ =>
    replace lhs with (ix <- (t1 <- np_repeat (np_arange (size p)) (size p) ;;
                             t2 <- np_tile (np_arange (size p)) (size p) ;;
                             t3 <- np_ones (size p * size p) ;;
                             t4 <- np_stack_last3 t1 t2 (np_scale (size p - 1) t3) ;;
                             t5 <- np_transpose t4 ;;
                             t6 <- np_matmul g t5 ;;
                             t7 <- np_transpose t6 ;;
                             np_reshape3 (np_astype_int t7) (size p) (size p) 3) ;;
                      sqs <- SymmetryGen.transform_position_for1 p ix (board p) (py_range (size p)) ;;
                      ret (evolve_position p (set_d_board delta_empty sqs)))
  end.
  2:{ destruct (np_repeat _ _); [|reflexivity..]. cbn [bind]. destruct (np_tile _ _); [|reflexivity..]. cbn [bind].
      destruct (np_ones _); [|reflexivity..]. cbn [bind]. destruct (np_stack_last3 _ _ _); [|reflexivity..]. cbn [bind].
      destruct (np_transpose _); [|reflexivity..]. cbn [bind]. destruct (np_matmul _ _); [|reflexivity..]. cbn [bind].
      destruct (np_transpose _); [|reflexivity..]. cbn [bind]. reflexivity. }
  rewrite HP. cbn [bind].
  rewrite (gen_for1_eq g p Hg Hwf) by (try apply py_range_bounds; exact Hl). cbn [bind]. unfold ret. f_equal.
Qed.

Theorem gen_transform_position_never_crashes g p : wf p -> 1 <= size p -> In g syms ->
  forall e, SymmetryGen.transform_position g p <> Crash e.
Proof. intros Hwf Hn Hg e. rewrite gen_transform_position_eq by assumption. discriminate. Qed.

(* ====================== transform_move ====================== *)
(* for EVERY move value (any integers, any type, any drops or none): the translated function returns the hand model's
   move; neither unpacking raises, the direction lookup finds its key (no KeyError) *)
Theorem gen_transform_move_eq g m n : In g syms ->
  SymmetryGen.transform_move g m n = Ok (Symmetry.transform_move g m n).
Proof.
  intros Hg. destruct m as [x y t sl]. case_syms Hg; destruct t; reflexivity.
Qed.
(* outside the eight matrices the lookup can fail: the KeyError is modelled, not excluded *)
Example gen_transform_move_keyerror :
  SymmetryGen.transform_move [[2; 0; 0]; [0; 1; 0]; [0; 0; 1]] (mkMove 0 0 SlideRight (Some [1])) 5 = Crash KeyError /\
  transform_move_opt [[2; 0; 0]; [0; 1; 0]; [0; 0; 1]] (mkMove 0 0 SlideRight (Some [1])) 5 = None.
Proof. split; reflexivity. Qed.

(* ====================== symmetries ====================== *)
Lemma forallb_ext' {A} (f h : A -> bool) l : (forall a, f a = h a) -> forallb f l = forallb h l.
Proof. intros H. induction l as [|a l IH]; simpl; [reflexivity|]. rewrite H, IH. reflexivity. Qed.

Lemma gen_symmetries_for1_eq p : wf p -> 1 <= size p -> forall gs out, (forall g, In g gs -> In g syms) ->
  SymmetryGen.symmetries_for1 p out gs = Ok (fold_left (sym_step p) gs out).
Proof.
  intros Hwf Hn. induction gs as [|g gs IH]; intros out Hgs; [reflexivity|].
  cbn [SymmetryGen.symmetries_for1 fold_left].
  rewrite (gen_transform_position_eq g p Hwf Hn) by (apply Hgs; left; reflexivity). cbn [bind]. cbv zeta.
  unfold sym_step at 2.
  rewrite (forallb_ext' (fun '(_, p0) => negb (position_eqb (Symmetry.transform_position g p) p0))
                        (fun gq => negb (position_eqb (Symmetry.transform_position g p) (snd gq)))) by (intros [a b]; reflexivity).
  unfold mat in *.
  match goal with |- context [if ?c then _ else _] => destruct c end;
    cbn [bind ret]; apply IH; intros g' Hg'; apply Hgs; right; exact Hg'.
Qed.

Theorem gen_symmetries_eq p : wf p -> 1 <= size p ->
  SymmetryGen.symmetries p = Ok (Symmetry.symmetries p).
Proof.
  intros Hwf Hn. unfold SymmetryGen.symmetries. cbv zeta. rewrite gen_symmetries_const. cbn [bind].
  rewrite (gen_symmetries_for1_eq p Hwf Hn Consts.symmetries []) by (intros g Hg; exact Hg). reflexivity.
Qed.
