(* T15 - the theorems of C15 transported to the functions regenerated from the
   source: gen/SymmetryGen.v (symmetry.py) and gen/GameGen.v (game.py). *)
From Coq Require Import ZArith String List Bool Lia.
From TV Require gen.Consts gen.GameGen gen.SymmetryGen.
From TV Require Import model.Tak model.Road model.PySem model.NumpyLite model.Symmetry.
From TV Require Import proofs.PySemLemmas proofs.GameGenEq.
From TV Require Import proofs.TieSymmetry proofs.SymmetryProofs proofs.SymmetryRoad proofs.SymmetryExamples.
From TV Require Import proofs.SymmetryGenEq.
Import ListNotations.
Open Scope Z_scope.

(* a legal move keeps the board a list of size^2 stacks *)
Lemma slide_go_zlen p dx dy : forall drops x y carry nb b,
  slide_go p dx dy x y carry nb drops = Some b -> zlen b = zlen nb.
Proof.
  induction drops as [|d ds IH]; intros x y carry nb b H; cbn [slide_go] in H; [inversion H; reflexivity|].
  destruct (negb (in_bounds (size p) (x + dx) (y + dy))); [discriminate|].
  destruct (getz [] (board p) (x + dx + (y + dy) * size p)) as [|top rest].
  - apply IH in H. rewrite H. apply updz_zlen.
  - destruct (pkind top).
    + apply IH in H. rewrite H. apply updz_zlen.
    + destruct carry as [|c [|c' carry']]; try discriminate.
      destruct (kind_eqb (pkind c) Capstone); [|discriminate]. apply IH in H. rewrite H. apply updz_zlen.
    + discriminate.
Qed.
Lemma move_preserves_wf p m r : wf p -> move p m = Some r -> wf r /\ size r = size p.
Proof.
  intros (Hn & Hl) H. unfold move in H.
  destruct (negb (in_bounds (size p) (mx m) (my m))); [discriminate|].
  destruct (is_slide (mt m)).
  - destruct (mslides m) as [drops|]; [|discriminate]. unfold move_slide in H.
    destruct (ply p <? 2); [discriminate|].
    destruct (existsb _ drops); [discriminate|].
    destruct ((size p <? zsum drops) || _); [discriminate|].
    destruct (zsum drops <? 1); [discriminate|].
    destruct (sq p (mx m) (my m)) as [|top rest]; [discriminate|].
    destruct (negb _); [discriminate|].
    destruct (direction (mt m)) as [dx dy].
    destruct (slide_go p dx dy (mx m) (my m) _ _ drops) as [b|] eqn:E; [|discriminate].
    inversion H; subst. apply slide_go_zlen in E. rewrite updz_zlen in E.
    unfold wf, with_board. cbn [size board]. rewrite E. auto.
  - unfold move_place in H.
    destruct ((ply p <? 2) && _); [discriminate|].
    destruct (sq p (mx m) (my m)); [|discriminate].
    destruct (if ply p <? 2 then flip (to_move p) else to_move p);
      destruct (mtype_eqb (mt m) PlaceCapstone);
      match type of H with context [?a <=? 0] => destruct (a <=? 0) end; try discriminate;
      inversion H; subst; unfold wf; cbn [size board]; rewrite updz_zlen; auto.
Qed.

Lemma wf_shape p : wf p -> shape p.
Proof. intros (_ & H). exact H. Qed.

(* transform-then-play = play-then-transform, on the TRANSLATED functions of both modules: the transformed
   position and move exist (no exception), and the two outcomes coincide (a successor on both sides, the same one,
   or IllegalMove on both sides) *)
Theorem gen_move_commutes g p m : wf p -> 1 <= size p -> In g syms -> slide_has_drops m ->
  exists q m', SymmetryGen.transform_position g p = Ok q /\ SymmetryGen.transform_move g m (size p) = Ok m' /\
    bind (GameGen.move p m) (SymmetryGen.transform_position g) = GameGen.move q m'.
Proof.
  intros Hwf Hn Hg Hd. exists (Symmetry.transform_position g p), (Symmetry.transform_move g m (size p)).
  split; [apply gen_transform_position_eq; assumption|]. split; [apply gen_transform_move_eq; assumption|].
  rewrite (gen_move_eq p m (wf_shape p Hwf) Hd).
  rewrite (gen_move_eq (Symmetry.transform_position g p) (Symmetry.transform_move g m (size p))).
  - rewrite <- (move_commutes g p m Hwf Hg). destruct (move p m) as [r|] eqn:E; [|reflexivity].
    cbn [embed bind option_map]. destruct (move_preserves_wf p m r Hwf E) as (Hr & Hs).
    apply gen_transform_position_eq; [exact Hr|rewrite Hs; exact Hn|exact Hg].
  - apply wf_shape. apply tp_wf. exact Hwf.
  - destruct (transform_move_total g m (size p) Hg) as (_ & ->). unfold slide_has_drops. cbn [mt mslides].
    rewrite (tdir_is_slide g (mt m) Hg). exact Hd.
Qed.

(* the outcome computed by the translated winner() is the same on the transformed position *)
Theorem gen_winner_invariant g p : wf p -> 1 <= size p -> In g syms ->
  exists q, SymmetryGen.transform_position g p = Ok q /\ GameGen.winner q = GameGen.winner p /\
            ply q = ply p /\ to_move q = to_move p /\ pos_stones q = pos_stones p.
Proof.
  intros Hwf Hn Hg. exists (Symmetry.transform_position g p).
  split; [apply gen_transform_position_eq; assumption|].
  rewrite (gen_winner_ok p Hwf), (gen_winner_ok _ (tp_wf g p Hwf)), (winner_invariant g p Hwf Hg). repeat split.
Qed.

(* symmetries(pos), translated: a list (no exception) that starts with (identity, pos), whose positions are pairwise
   distinct, and are exactly the results of the translated transform_position over the eight matrices *)
Theorem gen_symmetries_spec p : wf p -> 1 <= size p ->
  exists l, SymmetryGen.symmetries p = Ok l /\
    (exists rest, l = (mat_id, p) :: rest) /\
    NoDup (map snd l) /\
    (forall q, In q (map snd l) <-> exists g, In g syms /\ SymmetryGen.transform_position g p = Ok q) /\
    (forall g q, In (g, q) l -> In g syms /\ SymmetryGen.transform_position g p = Ok q).
Proof.
  intros Hwf Hn. exists (Symmetry.symmetries p). split; [apply gen_symmetries_eq; assumption|].
  destruct (symmetries_spec p Hwf) as (Hh & Hnd & Hin & Hp). split; [exact Hh|]. split; [exact Hnd|]. split.
  - intros q. rewrite Hin. split; intros (g & Hg & Hq); exists g; (split; [exact Hg|]).
    + rewrite gen_transform_position_eq by assumption. congruence.
    + rewrite gen_transform_position_eq in Hq by assumption. congruence.
  - intros g q Hgq. destruct (Hp g q Hgq) as (Hg & ->). split; [exact Hg|].
    apply gen_transform_position_eq; assumption.
Qed.

(* non-vacuity: the example position of C15 (4x4, custom reserves, a capstone crushing a wall) *)
Example gen_example :
  wf ex_pos /\ 1 <= size ex_pos /\ In rot syms /\ slide_has_drops ex_crush /\
  (exists r, GameGen.move ex_pos ex_crush = Ok r) /\
  SymmetryGen.transform_move rot ex_crush 4 = Ok (mkMove 1 2 SlideDown (Some [1])) /\
  SymmetryGen.transform_position rot ex_pos <> Ok ex_pos /\
  (exists l, SymmetryGen.symmetries ex_pos = Ok l /\ length l = 8%nat).
Proof.
  split; [exact ex_wf|]. split; [simpl; lia|]. split; [exact (proj1 ex_rot_in)|].
  split; [intros _; discriminate|].
  split; [vm_compute; eexists; reflexivity|]. split; [reflexivity|].
  split; [vm_compute; discriminate|]. vm_compute. eexists. split; reflexivity.
Qed.
