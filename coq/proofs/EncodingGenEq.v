(* T06 - `encode` REGENERATED from python/tak/model/encoding.py (gen/EncodingGen.v, written against the Python
   semantics of model/PySem.v) equals the hand-written model/Encoding.v `encode` for EVERY position and both values of
   include_sentinel: no domain guard.  The hand model already carries Python's negative-index wrap of
   Token.RESERVES[n] / Token.CAPSTONES[n] (its own `py_index`); here that is proved to be PySem's `py_getitem`, the
   vocabulary computed by the class body of Token is proved to be the regenerated constants of gen/Consts.v, the
   `top, *stack = square` unpacking is shown never to raise (it follows `len(square) == 0`), and every TOP_PIECES key
   is shown to be present.  The main C06 theorems are then transported to the generated encode. *)
From Coq Require Import ZArith String List Bool Lia.
From TV Require gen.Consts.
From TV Require Import model.Tak model.Road model.PySem model.Run model.Encoding spec.EncodingSpec.
From TV Require Import proofs.MoveRulesUtil proofs.PySemLemmas proofs.GameGenEq proofs.EncodingProofs proofs.EncodingReach.
From TV Require gen.GameGen gen.EncodingGen.
Import ListNotations.
Open Scope Z_scope.

(* the hand model's option (None = IndexError) inside the outcome type *)
Definition embed_index {A} (o : option A) : res A :=
  match o with Some v => Ok v | None => Crash IndexError end.

(* ---------- the vocabulary computed by the class body is the regenerated one ---------- *)
Lemma gen_vocabulary :
  EncodingGen.Token_RESERVES = Ok Consts.tok_RESERVES /\
  EncodingGen.Token_CAPSTONES = Consts.tok_CAPSTONES /\
  EncodingGen.Token_FIRST_RESERVES_VALUE = Ok Consts.tok_FIRST_RESERVES_VALUE /\
  EncodingGen.Token_FIRST_CAPSTONES_VALUE = Ok Consts.tok_FIRST_CAPSTONES_VALUE /\
  [EncodingGen.Token_EMPTY; EncodingGen.Token_MY_TOP_FLAT; EncodingGen.Token_MY_FLAT; EncodingGen.Token_MY_STANDING;
   EncodingGen.Token_MY_CAPSTONE; EncodingGen.Token_THEIR_TOP_FLAT; EncodingGen.Token_THEIR_FLAT;
   EncodingGen.Token_THEIR_STANDING; EncodingGen.Token_THEIR_CAPSTONE; EncodingGen.Token_WHITE_TO_PLAY;
   EncodingGen.Token_BLACK_TO_PLAY; EncodingGen.Token_OUTPUT_SENTINEL] =
  [Consts.tok_EMPTY; Consts.tok_MY_TOP_FLAT; Consts.tok_MY_FLAT; Consts.tok_MY_STANDING;
   Consts.tok_MY_CAPSTONE; Consts.tok_THEIR_TOP_FLAT; Consts.tok_THEIR_FLAT;
   Consts.tok_THEIR_STANDING; Consts.tok_THEIR_CAPSTONE; Consts.tok_WHITE_TO_PLAY;
   Consts.tok_BLACK_TO_PLAY; Consts.tok_OUTPUT_SENTINEL].
Proof. repeat split; vm_compute; reflexivity. Qed.

(* TOP_PIECES[(mine, kind)]: every key is present, the value is the model's top_token *)
Lemma gen_top_pieces mine k :
  py_dict_get (pair_eqb Bool.eqb kind_eqb) EncodingGen.TOP_PIECES (mine, k) = Ok (top_token mine k).
Proof. destruct mine, k; reflexivity. Qed.

(* l[n] of PySem is the hand model's py_index (negative wrap, IndexError outside [-len, len)) *)
Lemma py_getitem_py_index {A} (l : list A) n : py_getitem l n = embed_index (Encoding.py_index l n).
Proof.
  unfold py_getitem, PySem.py_index, Encoding.py_index. cbv zeta.
  destruct ((0 <=? n) && (n <? zlen l)) eqn:E1.
  - destruct (nth_error l (Z.to_nat n)) eqn:E2; [reflexivity|].
    apply nth_error_None in E2. unfold zlen in E1. lia.
  - destruct ((n <? 0) && (0 <=? zlen l + n)) eqn:E3.
    + replace ((- zlen l <=? n) && (n <? 0)) with true by (symmetry; bool_lia).
      destruct (nth_error l (Z.to_nat (zlen l + n))) eqn:E2; [reflexivity|].
      apply nth_error_None in E2. unfold zlen in *. lia.
    + replace ((- zlen l <=? n) && (n <? 0)) with false by (symmetry; bool_lia). reflexivity.
Qed.

(* ---------- the loops ---------- *)
Lemma gen_encode_for2 p : forall st data,
  EncodingGen.encode_for2 p data st =
  data ++ map (fun f => flat_token (color_eqb (pcolor f) (to_move p))) st.
Proof.
  induction st as [|f st IH]; intros data.
  - cbn. rewrite app_nil_r. reflexivity.
  - cbn [EncodingGen.encode_for2 map]. cbv zeta. rewrite IH, gen_to_move_eq, <- app_assoc. reflexivity.
Qed.

Lemma gen_encode_for1 p : forall b data,
  EncodingGen.encode_for1 p data b = Ok (data ++ encode_board (to_move p) b).
Proof.
  induction b as [|s b IH]; intros data.
  - cbn. rewrite app_nil_r. reflexivity.
  - cbn [EncodingGen.encode_for1 encode_board flat_map]. fold (encode_board (to_move p) b).
    destruct s as [|top rest].
    + cbn [len zlen length Z.of_nat Z.eqb]. cbv zeta. rewrite IH, <- app_assoc. reflexivity.
    + unfold len. rewrite zlen_cons_eqb0. cbn [py_uncons bind]. rewrite gen_to_move_eq, gen_top_pieces.
      cbn [bind]. cbv zeta. rewrite gen_encode_for2, IH. cbn [encode_square]. rewrite <- !app_assoc. reflexivity.
Qed.

(* ---------- encode ---------- *)
Theorem gen_encode_eq s p : EncodingGen.encode p s = embed_index (Encoding.encode s p).
Proof.
  destruct gen_vocabulary as (HR & HC & _).
  unfold EncodingGen.encode, Encoding.encode. cbv zeta. rewrite HR, HC, !gen_to_move_eq. cbn [bind].
  assert (Hm : forall c, py_tuple2_get (pos_stones p) (GameGen.Color_value c) =
                         Ok (mkSC (fst (stones_of p c)) (snd (stones_of p c))))
    by (intros c; destruct c; reflexivity).
  rewrite !Hm, gen_flip_eq. cbn [bind sc_stones sc_caps]. rewrite !Hm. cbn [bind sc_stones sc_caps].
  rewrite !py_getitem_py_index.
  destruct (Encoding.py_index Consts.tok_RESERVES (fst (stones_of p (to_move p)))) as [r1|]; [|reflexivity].
  cbn [embed_index bind].
  destruct (Encoding.py_index Consts.tok_CAPSTONES (snd (stones_of p (to_move p)))) as [c1|]; [|reflexivity].
  cbn [embed_index bind].
  destruct (Encoding.py_index Consts.tok_RESERVES (fst (stones_of p (flip (to_move p))))) as [r2|]; [|reflexivity].
  cbn [embed_index bind].
  destruct (Encoding.py_index Consts.tok_CAPSTONES (snd (stones_of p (flip (to_move p))))) as [c2|]; [|reflexivity].
  cbn [embed_index bind].
  rewrite gen_encode_for1. cbn [embed_index]. apply f_equal.
  destruct s, (to_move p); reflexivity.
Qed.

Corollary gen_encode_ok_iff s p l : EncodingGen.encode p s = Ok l <-> Encoding.encode s p = Some l.
Proof. rewrite gen_encode_eq. destruct (Encoding.encode s p); cbn; split; intros H; congruence. Qed.

(* the only exception encode can raise is IndexError, and it is never IllegalMove *)
Corollary gen_encode_outcomes s p :
  (exists l, EncodingGen.encode p s = Ok l) \/ EncodingGen.encode p s = Crash IndexError.
Proof. rewrite gen_encode_eq. destruct (Encoding.encode s p) as [l|]; [left; exists l|right]; reflexivity. Qed.

(* ---------- C06 on the translated encode ---------- *)
Theorem gen_decode_encode s p : encodable p ->
  exists l, EncodingGen.encode p s = Ok l /\ decode l = Some (board p, to_move p, reserves p).
Proof.
  intros He. destruct (decode_encode s p He) as (l & H1 & H2). exists l. split; [|exact H2].
  apply gen_encode_ok_iff. exact H1.
Qed.

Theorem gen_encode_injective s p q l : encodable p -> encodable q ->
  EncodingGen.encode p s = Ok l -> EncodingGen.encode q s = Ok l ->
  board p = board q /\ to_move p = to_move q /\ reserves p = reserves q.
Proof.
  intros Hp Hq H1 H2. apply gen_encode_ok_iff in H1. apply gen_encode_ok_iff in H2.
  apply (encode_injective s p q Hp Hq). congruence.
Qed.

Theorem gen_encode_distinct s p q : encodable p -> encodable q ->
  (board p, to_move p, reserves p) <> (board q, to_move q, reserves q) ->
  EncodingGen.encode p s <> EncodingGen.encode q s.
Proof.
  intros Hp Hq Hne H. rewrite !gen_encode_eq in H. apply (encode_distinct s p q Hp Hq Hne).
  destruct (Encoding.encode s p), (Encoding.encode s q); cbn in H; congruence.
Qed.

Theorem gen_encode_swap s p :
  EncodingGen.encode (swap_colours p) s = res_map (flip_to_play s) (EncodingGen.encode p s).
Proof. rewrite !gen_encode_eq, encode_swap. destruct (Encoding.encode s p); reflexivity. Qed.

Theorem gen_tokens_byte s p l : EncodingGen.encode p s = Ok l -> Forall (fun t => 0 <= t < 256) l.
Proof. intros H. apply gen_encode_ok_iff in H. eapply tokens_byte. exact H. Qed.

Theorem gen_reachable_encodes cfg ms p s :
  3 <= csize cfg <= 6 -> 0 <= flat_count cfg <= 49 -> 0 <= capstone_count cfg <= 1 ->
  run (from_config cfg) ms = Some p ->
  exists l, EncodingGen.encode p s = Ok l /\ decode l = Some (board p, to_move p, reserves p).
Proof.
  intros H1 H2 H3 H4. apply gen_decode_encode. eapply reachable_encodable; eassumption.
Qed.

(* ====================== decode ====================== *)
(* The tensor is the list of its entries (board[i] = py_getitem, .item() / .numpy() the identity).  The hand model
   collapses every exception of decode() into None; the translated decode keeps the class, so the statement is
   `agrees`: the same position, or one of IndexError / AssertionError / KeyError / AttributeError against None. *)
(* the exceptions decode() raises on a malformed tensor: the hand model's None *)
Definition decode_exn (e : exn) : bool :=
  match e with IndexError | AssertionError | KeyError | AttributeError => true | _ => false end.
Definition agrees {A} (r : res A) (o : option A) : Prop :=
  match r, o with
  | Ok v, Some w => v = w
  | Crash e, None => decode_exn e = true
  | _, _ => False
  end.

Ltac tok_norm :=
  change EncodingGen.Token_EMPTY with Consts.tok_EMPTY in *;
  change EncodingGen.Token_MY_TOP_FLAT with Consts.tok_MY_TOP_FLAT in *;
  change EncodingGen.Token_MY_FLAT with Consts.tok_MY_FLAT in *;
  change EncodingGen.Token_MY_STANDING with Consts.tok_MY_STANDING in *;
  change EncodingGen.Token_MY_CAPSTONE with Consts.tok_MY_CAPSTONE in *;
  change EncodingGen.Token_THEIR_TOP_FLAT with Consts.tok_THEIR_TOP_FLAT in *;
  change EncodingGen.Token_THEIR_FLAT with Consts.tok_THEIR_FLAT in *;
  change EncodingGen.Token_THEIR_STANDING with Consts.tok_THEIR_STANDING in *;
  change EncodingGen.Token_THEIR_CAPSTONE with Consts.tok_THEIR_CAPSTONE in *;
  change EncodingGen.Token_WHITE_TO_PLAY with Consts.tok_WHITE_TO_PLAY in *;
  change EncodingGen.Token_BLACK_TO_PLAY with Consts.tok_BLACK_TO_PLAY in *;
  change EncodingGen.Token_OUTPUT_SENTINEL with Consts.tok_OUTPUT_SENTINEL in *;
  change EncodingGen.Token_CAPSTONES with Consts.tok_CAPSTONES in *.

(* ---------- the square loop ---------- *)
Lemma gen_kind_of_token t :
  py_dict_get Z.eqb
    [(Consts.tok_MY_CAPSTONE, Capstone); (Consts.tok_THEIR_CAPSTONE, Capstone); (Consts.tok_MY_STANDING, Standing);
     (Consts.tok_THEIR_STANDING, Standing); (Consts.tok_MY_TOP_FLAT, Flat); (Consts.tok_THEIR_TOP_FLAT, Flat)] t =
  match kind_of_token t with Some k => Ok k | None => Crash KeyError end.
Proof.
  unfold kind_of_token. cbn [py_dict_get]. rewrite !(Z.eqb_sym _ t).
  repeat match goal with |- context [t =? ?c] => destruct (t =? c); [reflexivity|] end. reflexivity.
Qed.

Lemma gen_is_their_top t :
  (t =? Consts.tok_THEIR_CAPSTONE) || (t =? Consts.tok_THEIR_STANDING) || (t =? Consts.tok_THEIR_TOP_FLAT) = is_their_top t.
Proof. unfold is_their_top, zmem. cbn [existsb]. rewrite orb_false_r, orb_assoc. reflexivity. Qed.

Definition loop_agrees (r : res (list (list piece) * option (list piece))) (o : option (list stack)) : Prop :=
  match r, o with
  | Ok (sqs, cur), Some b => flush cur sqs = b
  | Crash e, None => decode_exn e = true
  | _, _ => False
  end.

Lemma gen_decode_go to_play : forall toks cur acc,
  loop_agrees (EncodingGen.decode_for2 to_play acc cur toks) (decode_go to_play toks cur acc).
Proof.
  induction toks as [|t toks IH]; intros cur acc; [reflexivity|].
  cbn [EncodingGen.decode_for2 decode_go]. tok_norm.
  destruct (t =? Consts.tok_MY_FLAT).
  { destruct cur as [s|]; cbn [py_opt_append bind ret]; [apply IH|reflexivity]. }
  destruct (t =? Consts.tok_THEIR_FLAT).
  { rewrite gen_flip_eq. cbn [bind]. destruct cur as [s|]; cbn [py_opt_append bind ret]; [apply IH|reflexivity]. }
  cbv zeta.
  replace (match cur with Some t11 => acc ++ [t11] | None => acc end) with (flush cur acc) by (destruct cur; reflexivity).
  destruct (t =? Consts.tok_EMPTY); [cbn [bind ret]; apply IH|].
  rewrite gen_kind_of_token. destruct (kind_of_token t) as [k|]; [|reflexivity]. cbn [bind].
  rewrite gen_is_their_top. destruct (is_their_top t); [rewrite gen_flip_eq|]; cbn [bind ret]; apply IH.
Qed.

Lemma py_getitem_nth {A} (l : list A) i : 0 <= i ->
  py_getitem l i = match nth_error l (Z.to_nat i) with Some v => Ok v | None => Crash IndexError end.
Proof.
  intros Hi. unfold py_getitem, PySem.py_index.
  destruct ((0 <=? i) && (i <? zlen l)) eqn:E; [reflexivity|].
  replace ((i <? 0) && (0 <=? zlen l + i)) with false by (symmetry; bool_lia).
  assert (Hge : zlen l <= i) by (apply andb_false_iff in E; destruct E as [E|E]; lia).
  destruct (nth_error l (Z.to_nat i)) eqn:En; [|reflexivity].
  exfalso. assert (nth_error l (Z.to_nat i) <> None) by congruence. apply nth_error_Some in H. unfold zlen in Hge. lia.
Qed.

(* the squares decode_go returns are at most one per token (plus what was there) *)
Lemma decode_go_length to_play : forall toks cur acc b,
  decode_go to_play toks cur acc = Some b -> zlen b <= zlen acc + 1 + zlen toks.
Proof.
  induction toks as [|t toks IH]; intros cur acc b H.
  - cbn in H. injection H as <-. destruct cur; cbn [flush]; rewrite ?zlen_app; change (zlen (@nil Z)) with 0;
      unfold zlen; cbn [length]; lia.
  - cbn [decode_go] in H. rewrite zlen_cons.
    destruct (t =? Consts.tok_MY_FLAT); [destruct cur; [apply IH in H; lia|discriminate]|].
    destruct (t =? Consts.tok_THEIR_FLAT); [destruct cur; [apply IH in H; lia|discriminate]|].
    assert (Hf : zlen (flush cur acc) <= zlen acc + 1)
      by (destruct cur; cbn [flush]; rewrite ?zlen_app; unfold zlen; cbn [length]; lia).
    destruct (t =? Consts.tok_EMPTY); [apply IH in H; lia|].
    destruct (kind_of_token t); [apply IH in H; lia|discriminate].
Qed.

(* from_squares on a size above 8: DEFAULT_PIECES[size] raises IndexError *)
Lemma gen_from_squares_big sz sqs pl : 8 < sz -> zlen sqs = sz * sz ->
  GameGen.from_squares (mkCfg sz None None) sqs pl = Crash IndexError.
Proof.
  intros Hb Hl. unfold GameGen.from_squares, len. cbn [csize]. rewrite Hl, Z.eqb_refl. cbn [negb]. cbv zeta.
  rewrite gen_from_squares_for1. cbn [bind]. unfold GameGen.flat_count. cbn [cpieces csize].
  unfold py_getitem, PySem.py_index. change (zlen GameGen.Config_DEFAULT_PIECES) with 9.
  replace ((0 <=? sz) && (sz <? 9)) with false by (symmetry; bool_lia).
  replace ((sz <? 0) && (0 <=? 9 + sz)) with false by (symmetry; bool_lia). reflexivity.
Qed.

Lemma nth_error_skipn' {A} : forall m k (l : list A), nth_error l (m + k) = nth_error (skipn m l) k.
Proof. induction m as [|m IH]; intros k [|a l]; cbn; try reflexivity; [destruct k; reflexivity|apply IH]. Qed.
Lemma skipn_plus {A} : forall m k (l : list A), skipn (m + k) l = skipn k (skipn m l).
Proof. induction m as [|m IH]; intros k [|a l]; cbn [skipn Nat.add]; try reflexivity; [destruct k; reflexivity|apply IH]. Qed.

Definition sentinel_strip (toks : list Z) : list Z :=
  match toks with t0 :: rest0 => if t0 =? Consts.tok_OUTPUT_SENTINEL then rest0 else toks | [] => [] end.

Theorem gen_decode_agrees toks : zlen toks < 2 ^ 52 -> agrees (EncodingGen.decode toks) (decode_pos toks).
Proof.
  intros Hlen. destruct gen_vocabulary as (HR & HC & HFR & HFC & _).
  unfold EncodingGen.decode, decode_pos. cbv zeta. tok_norm.
  destruct toks as [|t0 rest0]; [reflexivity|]. rewrite py_getitem_0_cons. cbn [bind].
  set (toks := t0 :: rest0) in *.
  set (n := if t0 =? Consts.tok_OUTPUT_SENTINEL then 1%nat else 0%nat).
  replace (if t0 =? Consts.tok_OUTPUT_SENTINEL then 0 + 1 else 0) with (Z.of_nat n) by (unfold n; destruct (t0 =? _); reflexivity).
  replace (if t0 =? Consts.tok_OUTPUT_SENTINEL then rest0 else toks) with (skipn n toks)
    by (unfold n, toks; destruct (t0 =? _); reflexivity).
  assert (Hnth : forall k, (k <= 5)%nat -> py_getitem toks (Z.of_nat n + Z.of_nat k) =
                   match nth_error (skipn n toks) k with Some v => Ok v | None => Crash IndexError end).
  { intros k _. rewrite py_getitem_nth by lia. replace (Z.to_nat (Z.of_nat n + Z.of_nat k)) with (n + k)%nat by lia.
    rewrite nth_error_skipn'. reflexivity. }
  assert (Hsl : py_slice toks (Some (Z.of_nat n + 5)) None = skipn 5 (skipn n toks)).
  { rewrite py_slice_suffix by lia. replace (Z.to_nat (Z.of_nat n + 5)) with (n + 5)%nat by lia.
    apply skipn_plus. }
  assert (Hlen1 : zlen (skipn n toks) <= zlen toks) by (unfold zlen; rewrite skipn_length; lia).
  generalize dependent (skipn n toks). intros toks1 Hnth Hsl Hlen1.
  pose proof (Hnth 0%nat ltac:(lia)) as H0. pose proof (Hnth 1%nat ltac:(lia)) as H1. pose proof (Hnth 2%nat ltac:(lia)) as H2.
  pose proof (Hnth 3%nat ltac:(lia)) as H3. pose proof (Hnth 4%nat ltac:(lia)) as H4. clear Hnth.
  change (Z.of_nat 0) with 0 in H0. rewrite Z.add_0_r in H0.
  change (Z.of_nat 1) with 1 in H1. change (Z.of_nat 2) with 2 in H2. change (Z.of_nat 3) with 3 in H3. change (Z.of_nat 4) with 4 in H4.
  rewrite H0. destruct toks1 as [|tp toks1]; [reflexivity|]. cbn [nth_error bind] in *.
  change (py_range 2) with [0; 1]. cbn [EncodingGen.decode_for1]. tok_norm.
  rewrite H1, HR, HFR, HFC. cbn [bind].
  destruct toks1 as [|r1 toks1]; [reflexivity|]. cbn [nth_error bind] in *.
  change (existsb (Z.eqb r1) Consts.tok_RESERVES) with (zmem r1 Consts.tok_RESERVES).
  destruct (zmem r1 Consts.tok_RESERVES); cbn [negb andb]; [|destruct toks1 as [|? [|? [|? ?]]]; reflexivity].
  replace (Z.of_nat n + 1 + 1) with (Z.of_nat n + 2) by lia. rewrite H2.
  destruct toks1 as [|c1 toks1]; [reflexivity|]. cbn [nth_error bind] in *.
  change (existsb (Z.eqb c1) Consts.tok_CAPSTONES) with (zmem c1 Consts.tok_CAPSTONES).
  destruct (zmem c1 Consts.tok_CAPSTONES); cbn [negb andb]; [|destruct toks1 as [|? [|? ?]]; reflexivity].
  replace (Z.of_nat n + 2 + 1) with (Z.of_nat n + 3) by lia. rewrite H3.
  destruct toks1 as [|r2 toks1]; [reflexivity|]. cbn [nth_error bind] in *.
  change (existsb (Z.eqb r2) Consts.tok_RESERVES) with (zmem r2 Consts.tok_RESERVES).
  destruct (zmem r2 Consts.tok_RESERVES); cbn [negb andb]; [|destruct toks1 as [|? ?]; reflexivity].
  replace (Z.of_nat n + 3 + 1) with (Z.of_nat n + 4) by lia. rewrite H4.
  destruct toks1 as [|c2 sqs]; [reflexivity|]. cbn [nth_error bind] in *.
  change (existsb (Z.eqb c2) Consts.tok_CAPSTONES) with (zmem c2 Consts.tok_CAPSTONES).
  destruct (zmem c2 Consts.tok_CAPSTONES); cbn [negb andb]; [|reflexivity].
  cbn [bind ret app]. replace (Z.of_nat n + 4 + 1) with (Z.of_nat n + 5) by lia. rewrite Hsl. cbn [skipn].
  assert (Hsq : 0 <= zlen sqs) by apply zlen_nonneg. rewrite !zlen_cons in Hlen1.
  destruct (tp =? Consts.tok_WHITE_TO_PLAY); cbn [color_eqb rev app].
  all: match goal with |- context [EncodingGen.decode_for2 ?c [] None ?s] =>
         pose proof (gen_decode_go c s None []) as HL; pose proof (decode_go_length c s None []) as HB;
         unfold stack in *;
         destruct (EncodingGen.decode_for2 c [] None s) as [[squares cur]| |e]; cbn [loop_agrees] in HL
       end.
  all: try contradiction.
  all: match type of HL with context [decode_go ?a1 ?a2 ?a3 ?a4] => destruct (decode_go a1 a2 a3 a4) as [b|] end; try contradiction.
  all: try exact HL.
  all: cbn [bind]; replace (match cur with Some t12 => squares ++ [t12] | None => squares end) with b by (destruct cur; exact HL).
  all: specialize (HB b eq_refl); change (zlen (@nil (list piece))) with 0 in HB.
  all: assert (Hb52 : 0 <= zlen b < 2 ^ 52) by (split; [apply zlen_nonneg|unfold stack in *; lia]).
  all: unfold stack in *.
  all: unfold py_int_sqrt_float, len; replace ((0 <=? zlen b) && (zlen b <? 2 ^ 52)) with true by (symmetry; bool_lia).
  all: cbn [bind]; destruct (Z.sqrt (zlen b) * Z.sqrt (zlen b) =? zlen b) eqn:Esq; cbn [negb]; [|reflexivity].
  all: apply Z.eqb_eq in Esq; destruct (8 <? Z.sqrt (zlen b)) eqn:E8.
  all: try (rewrite gen_from_squares_big by lia; reflexivity).
  all: rewrite gen_from_squares_eq by (split; intros _; cbn [csize]; pose proof (Z.sqrt_nonneg (zlen b)); lia).
  all: unfold from_squares; cbn [csize]; unfold stack in *; rewrite Esq, Z.eqb_refl; cbn; reflexivity.
Qed.

Corollary gen_decode_ok_iff toks p : zlen toks < 2 ^ 52 -> (EncodingGen.decode toks = Ok p <-> decode_pos toks = Some p).
Proof.
  intros H. pose proof (gen_decode_agrees toks H) as A. unfold agrees in A.
  destruct (EncodingGen.decode toks) as [q| |e]; destruct (decode_pos toks) as [r|]; try contradiction;
    split; intros E; try discriminate E; congruence.
Qed.

(* a position, or one of the four exception classes; never IllegalMove, Unmodelled, OutOfFuel, ValueError *)
Corollary gen_decode_outcomes toks : zlen toks < 2 ^ 52 ->
  (exists p, EncodingGen.decode toks = Ok p) \/ (exists e, EncodingGen.decode toks = Crash e /\ decode_exn e = true).
Proof.
  intros H. pose proof (gen_decode_agrees toks H) as A. unfold agrees in A.
  destruct (EncodingGen.decode toks) as [q| |e]; destruct (decode_pos toks) as [r|]; try contradiction;
    [left; exists q; reflexivity|right; exists e; split; [reflexivity|exact A]].
Qed.

(* lossless, through the translated encode AND the translated decode *)
Theorem gen_round_trip s p : encodable p ->
  exists l, EncodingGen.encode p s = Ok l /\
    (zlen l < 2 ^ 52 -> exists q, EncodingGen.decode l = Ok q /\ triple q = (board p, to_move p, reserves p)).
Proof.
  intros He. destruct (decode_encode s p He) as (l & H1 & H2). exists l. split; [apply gen_encode_ok_iff; exact H1|].
  intros Hl. unfold decode in H2. destruct (decode_pos l) as [q|] eqn:Eq; [|discriminate H2].
  exists q. split; [apply gen_decode_ok_iff; assumption|]. cbn in H2. congruence.
Qed.

(* ---------- the hypotheses are satisfiable; the guard matters ---------- *)
Example gen_encode_nonvacuous :
  encodable ex_pos /\ (exists l, EncodingGen.encode ex_pos true = Ok l /\ decode l = Some (triple ex_pos)) /\
  (* reserves -1 encode like reserves 49 (negative wrap), reserves 50 raise IndexError *)
  EncodingGen.encode (mkPos 3 (-1) 0 10 0 2 (repeat [] 9)) true = EncodingGen.encode (mkPos 3 49 0 10 0 2 (repeat [] 9)) true /\
  EncodingGen.encode (mkPos 3 50 0 10 0 2 (repeat [] 9)) true = Crash IndexError /\
  (* decode: a buried-flat token before any square is an AttributeError, an unknown token a KeyError, a short tensor
     an IndexError, a reserve token outside the vocabulary an AssertionError *)
  EncodingGen.decode [9; 203; 253; 203; 253; 2] = Crash AttributeError /\
  EncodingGen.decode [9; 203; 253; 203; 253; 77] = Crash KeyError /\
  EncodingGen.decode [255; 9; 203] = Crash IndexError /\
  EncodingGen.decode [9; 11; 253; 203; 253] = Crash AssertionError.
Proof.
  split; [exact ex_pos_encodable|]. split; [apply gen_decode_encode; exact ex_pos_encodable|].
  repeat split; vm_compute; reflexivity.
Qed.
