(* T06 - `encode` REGENERATED from python/tak/model/encoding.py (gen/EncodingGen.v, written against the Python
   semantics of model/PySem.v) equals the hand-written model/Encoding.v `encode` for EVERY position and both values of
   include_sentinel: no domain guard.  The hand model already carries Python's negative-index wrap of
   Token.RESERVES[n] / Token.CAPSTONES[n] (its own `py_index`); here that is proved to be PySem's `py_getitem`, the
   vocabulary computed by the class body of Token is proved to be the regenerated constants of gen/Consts.v, the
   `top, *stack = square` unpacking is shown never to raise (it follows `len(square) == 0`), and every TOP_PIECES key
   is shown to be present.  The main C06 theorems are then transported to the generated encode. *)
From Coq Require Import ZArith String List Bool Lia.
From TV Require gen.Consts.
From TV Require Import model.Tak model.Road model.PySem model.Run model.Encoding spec.EncodingSpec.
From TV Require Import proofs.MoveRulesUtil proofs.PySemLemmas proofs.GameGenEq proofs.EncodingProofs proofs.EncodingReach.
From TV Require gen.GameGen gen.EncodingGen.
Import ListNotations.
Open Scope Z_scope.

(* the hand model's option (None = IndexError) inside the outcome type *)
Definition embed_index {A} (o : option A) : res A :=
  match o with Some v => Ok v | None => Crash IndexError end.

(* ---------- the vocabulary computed by the class body is the regenerated one ---------- *)
Lemma gen_vocabulary :
  EncodingGen.Token_RESERVES = Ok Consts.tok_RESERVES /\
  EncodingGen.Token_CAPSTONES = Consts.tok_CAPSTONES /\
  EncodingGen.Token_FIRST_RESERVES_VALUE = Ok Consts.tok_FIRST_RESERVES_VALUE /\
  EncodingGen.Token_FIRST_CAPSTONES_VALUE = Ok Consts.tok_FIRST_CAPSTONES_VALUE /\
  [EncodingGen.Token_EMPTY; EncodingGen.Token_MY_TOP_FLAT; EncodingGen.Token_MY_FLAT; EncodingGen.Token_MY_STANDING;
   EncodingGen.Token_MY_CAPSTONE; EncodingGen.Token_THEIR_TOP_FLAT; EncodingGen.Token_THEIR_FLAT;
   EncodingGen.Token_THEIR_STANDING; EncodingGen.Token_THEIR_CAPSTONE; EncodingGen.Token_WHITE_TO_PLAY;
   EncodingGen.Token_BLACK_TO_PLAY; EncodingGen.Token_OUTPUT_SENTINEL] =
  [Consts.tok_EMPTY; Consts.tok_MY_TOP_FLAT; Consts.tok_MY_FLAT; Consts.tok_MY_STANDING;
   Consts.tok_MY_CAPSTONE; Consts.tok_THEIR_TOP_FLAT; Consts.tok_THEIR_FLAT;
   Consts.tok_THEIR_STANDING; Consts.tok_THEIR_CAPSTONE; Consts.tok_WHITE_TO_PLAY;
   Consts.tok_BLACK_TO_PLAY; Consts.tok_OUTPUT_SENTINEL].
Proof. repeat split; vm_compute; reflexivity. Qed.

(* TOP_PIECES[(mine, kind)]: every key is present, the value is the model's top_token *)
Lemma gen_top_pieces mine k :
  py_dict_get (pair_eqb Bool.eqb kind_eqb) EncodingGen.TOP_PIECES (mine, k) = Ok (top_token mine k).
Proof. destruct mine, k; reflexivity. Qed.

(* l[n] of PySem is the hand model's py_index (negative wrap, IndexError outside [-len, len)) *)
Lemma py_getitem_py_index {A} (l : list A) n : py_getitem l n = embed_index (Encoding.py_index l n).
Proof.
  unfold py_getitem, PySem.py_index, Encoding.py_index. cbv zeta.
  destruct ((0 <=? n) && (n <? zlen l)) eqn:E1.
  - destruct (nth_error l (Z.to_nat n)) eqn:E2; [reflexivity|].
    apply nth_error_None in E2. unfold zlen in E1. lia.
  - destruct ((n <? 0) && (0 <=? zlen l + n)) eqn:E3.
    + replace ((- zlen l <=? n) && (n <? 0)) with true by (symmetry; bool_lia).
      destruct (nth_error l (Z.to_nat (zlen l + n))) eqn:E2; [reflexivity|].
      apply nth_error_None in E2. unfold zlen in *. lia.
    + replace ((- zlen l <=? n) && (n <? 0)) with false by (symmetry; bool_lia). reflexivity.
Qed.

(* ---------- the loops ---------- *)
Lemma gen_encode_for2 p : forall st data,
  EncodingGen.encode_for2 p data st =
  data ++ map (fun f => flat_token (color_eqb (pcolor f) (to_move p))) st.
Proof.
  induction st as [|f st IH]; intros data.
  - cbn. rewrite app_nil_r. reflexivity.
  - cbn [EncodingGen.encode_for2 map]. cbv zeta. rewrite IH, gen_to_move_eq, <- app_assoc. reflexivity.
Qed.

Lemma gen_encode_for1 p : forall b data,
  EncodingGen.encode_for1 p data b = Ok (data ++ encode_board (to_move p) b).
Proof.
  induction b as [|s b IH]; intros data.
  - cbn. rewrite app_nil_r. reflexivity.
  - cbn [EncodingGen.encode_for1 encode_board flat_map]. fold (encode_board (to_move p) b).
    destruct s as [|top rest].
    + cbn [len zlen length Z.of_nat Z.eqb]. cbv zeta. rewrite IH, <- app_assoc. reflexivity.
    + unfold len. rewrite zlen_cons_eqb0. cbn [py_uncons bind]. rewrite gen_to_move_eq, gen_top_pieces.
      cbn [bind]. cbv zeta. rewrite gen_encode_for2, IH. cbn [encode_square]. rewrite <- !app_assoc. reflexivity.
Qed.

(* ---------- encode ---------- *)
Theorem gen_encode_eq s p : EncodingGen.encode p s = embed_index (Encoding.encode s p).
Proof.
  destruct gen_vocabulary as (HR & HC & _).
  unfold EncodingGen.encode, Encoding.encode. cbv zeta. rewrite HR, HC, !gen_to_move_eq. cbn [bind].
  assert (Hm : forall c, py_tuple2_get (pos_stones p) (GameGen.Color_value c) =
                         Ok (mkSC (fst (stones_of p c)) (snd (stones_of p c))))
    by (intros c; destruct c; reflexivity).
  rewrite !Hm, gen_flip_eq. cbn [bind sc_stones sc_caps]. rewrite !Hm. cbn [bind sc_stones sc_caps].
  rewrite !py_getitem_py_index.
  destruct (Encoding.py_index Consts.tok_RESERVES (fst (stones_of p (to_move p)))) as [r1|]; [|reflexivity].
  cbn [embed_index bind].
  destruct (Encoding.py_index Consts.tok_CAPSTONES (snd (stones_of p (to_move p)))) as [c1|]; [|reflexivity].
  cbn [embed_index bind].
  destruct (Encoding.py_index Consts.tok_RESERVES (fst (stones_of p (flip (to_move p))))) as [r2|]; [|reflexivity].
  cbn [embed_index bind].
  destruct (Encoding.py_index Consts.tok_CAPSTONES (snd (stones_of p (flip (to_move p))))) as [c2|]; [|reflexivity].
  cbn [embed_index bind].
  rewrite gen_encode_for1. cbn [embed_index]. apply f_equal.
  destruct s, (to_move p); reflexivity.
Qed.

Corollary gen_encode_ok_iff s p l : EncodingGen.encode p s = Ok l <-> Encoding.encode s p = Some l.
Proof. rewrite gen_encode_eq. destruct (Encoding.encode s p); cbn; split; intros H; congruence. Qed.

(* the only exception encode can raise is IndexError, and it is never IllegalMove *)
Corollary gen_encode_outcomes s p :
  (exists l, EncodingGen.encode p s = Ok l) \/ EncodingGen.encode p s = Crash IndexError.
Proof. rewrite gen_encode_eq. destruct (Encoding.encode s p) as [l|]; [left; exists l|right]; reflexivity. Qed.

(* ---------- C06 on the translated encode ---------- *)
Theorem gen_decode_encode s p : encodable p ->
  exists l, EncodingGen.encode p s = Ok l /\ decode l = Some (board p, to_move p, reserves p).
Proof.
  intros He. destruct (decode_encode s p He) as (l & H1 & H2). exists l. split; [|exact H2].
  apply gen_encode_ok_iff. exact H1.
Qed.

Theorem gen_encode_injective s p q l : encodable p -> encodable q ->
  EncodingGen.encode p s = Ok l -> EncodingGen.encode q s = Ok l ->
  board p = board q /\ to_move p = to_move q /\ reserves p = reserves q.
Proof.
  intros Hp Hq H1 H2. apply gen_encode_ok_iff in H1. apply gen_encode_ok_iff in H2.
  apply (encode_injective s p q Hp Hq). congruence.
Qed.

Theorem gen_encode_distinct s p q : encodable p -> encodable q ->
  (board p, to_move p, reserves p) <> (board q, to_move q, reserves q) ->
  EncodingGen.encode p s <> EncodingGen.encode q s.
Proof.
  intros Hp Hq Hne H. rewrite !gen_encode_eq in H. apply (encode_distinct s p q Hp Hq Hne).
  destruct (Encoding.encode s p), (Encoding.encode s q); cbn in H; congruence.
Qed.

Theorem gen_encode_swap s p :
  EncodingGen.encode (swap_colours p) s = res_map (flip_to_play s) (EncodingGen.encode p s).
Proof. rewrite !gen_encode_eq, encode_swap. destruct (Encoding.encode s p); reflexivity. Qed.

Theorem gen_tokens_byte s p l : EncodingGen.encode p s = Ok l -> Forall (fun t => 0 <= t < 256) l.
Proof. intros H. apply gen_encode_ok_iff in H. eapply tokens_byte. exact H. Qed.

Theorem gen_reachable_encodes cfg ms p s :
  3 <= csize cfg <= 6 -> 0 <= flat_count cfg <= 49 -> 0 <= capstone_count cfg <= 1 ->
  run (from_config cfg) ms = Some p ->
  exists l, EncodingGen.encode p s = Ok l /\ decode l = Some (board p, to_move p, reserves p).
Proof.
  intros H1 H2 H3 H4. apply gen_decode_encode. eapply reachable_encodable; eassumption.
Qed.

(* ---------- the hypotheses are satisfiable; the guard matters ---------- *)
Example gen_encode_nonvacuous :
  encodable ex_pos /\ (exists l, EncodingGen.encode ex_pos true = Ok l /\ decode l = Some (triple ex_pos)) /\
  (* reserves -1 encode like reserves 49 (negative wrap), reserves 50 raise IndexError *)
  EncodingGen.encode (mkPos 3 (-1) 0 10 0 2 (repeat [] 9)) true = EncodingGen.encode (mkPos 3 49 0 10 0 2 (repeat [] 9)) true /\
  EncodingGen.encode (mkPos 3 50 0 10 0 2 (repeat [] 9)) true = Crash IndexError.
Proof.
  split; [exact ex_pos_encodable|]. split; [apply gen_decode_encode; exact ex_pos_encodable|].
  split; vm_compute; reflexivity.
Qed.
