(* Tie (G) for C14: the glyph maps and the seven regular expressions scraped
   from python/tak/ptn/ptn.py (gen/Consts.v, regenerated on every run) are the
   ones model/Ptn.v was written against.  Closed by computation; a changed
   regex or glyph breaks a Qed here. *)
From Coq Require Import ZArith List Bool.
From TV Require gen.Consts.
From TV Require Import model.Tak model.Ptn spec.PtnSpec.
Import ListNotations.
Open Scope Z_scope.

Definition opt_text (o : option Z) : str := match o with Some c => [c] | None => [] end.

Lemma tie_slide_map :
  Consts.slide_map = map (fun c => (c, mtype_code (dir_type c))) [43; 45; 60; 62].
Proof. reflexivity. Qed.
Lemma tie_slide_rmap :
  Consts.slide_rmap = map (fun t => (mtype_code t, slide_glyph t)) [SlideLeft; SlideRight; SlideUp; SlideDown].
Proof. reflexivity. Qed.
Lemma tie_place_map :
  Consts.place_map = map (fun o => (opt_text o, mtype_code (stone_type o))) [None; Some 67; Some 70; Some 83].
Proof. reflexivity. Qed.
Lemma tie_place_rmap :
  Consts.place_rmap = map (fun t => (mtype_code t, place_glyph t)) [PlaceFlat; PlaceStanding; PlaceCapstone].
Proof. reflexivity. Qed.

(* the implementation's maps say what the PTN standard (spec/PtnSpec.v) says *)
Lemma glyphs_standard :
  (forall c t, dir_glyph c t -> In (c, mtype_code t) Consts.slide_map /\ In (mtype_code t, c) Consts.slide_rmap) /\
  (forall s t, stone_text s t -> In (s, mtype_code t) Consts.place_map) /\
  (forall t, is_slide t = true -> direction t = match slide_glyph t with
                                                 | 60 => (-1, 0) | 62 => (1, 0) | 43 => (0, 1) | 45 => (0, -1)
                                                 | _ => (0, 0) end).
Proof.
  split; [|split].
  - intros c t H. destruct H; split; cbn; tauto.
  - intros s t H. destruct H; cbn; tauto.
  - intros t H. destruct t; try discriminate; reflexivity.
Qed.

Lemma glyph_tie :
  Consts.slide_map = map (fun c => (c, mtype_code (dir_type c))) [43; 45; 60; 62] /\
  Consts.slide_rmap = map (fun t => (mtype_code t, slide_glyph t)) [SlideLeft; SlideRight; SlideUp; SlideDown] /\
  Consts.place_map = map (fun o => (opt_text o, mtype_code (stone_type o))) [None; Some 67; Some 70; Some 83] /\
  Consts.place_rmap = map (fun t => (mtype_code t, place_glyph t)) [PlaceFlat; PlaceStanding; PlaceCapstone] /\
  (forall c t, dir_glyph c t -> In (c, mtype_code t) Consts.slide_map /\ In (mtype_code t, c) Consts.slide_rmap) /\
  (forall s t, stone_text s t -> In (s, mtype_code t) Consts.place_map).
Proof.
  exact (conj tie_slide_map (conj tie_slide_rmap (conj tie_place_map (conj tie_place_rmap
          (conj (proj1 glyphs_standard) (proj1 (proj2 glyphs_standard))))))).
Qed.

(* the regular expressions, in source order:
     0  ^\[(\w+) Q([^Q]+)Q\]$                         (Q = the double quote)   tags, re.M
     1  {[^}]+}                                         comments
     2  \s+                                             token split
     3  \A(0|R|F|1|1/2)-(0|R|F|1|1/2)\Z                 result markers
     4  \A\d+\.\Z                                       move numbers
     5  ['!?]+$                                         annotation suffix
     6  \A([CFS]?)([1-8]?)([a-h])([1-8])([<>+-]?)([1-8]* )[CFS]?\Z      one move (blank inserted before the parenthesis) *)
Definition model_regexes : list str :=
  [[94; 92; 91; 40; 92; 119; 43; 41; 32; 34; 40; 91; 94; 34; 93; 43; 41; 34; 92; 93; 36];
   [123; 91; 94; 125; 93; 43; 125];
   [92; 115; 43];
   [92; 65; 40; 48; 124; 82; 124; 70; 124; 49; 124; 49; 47; 50; 41; 45; 40; 48; 124; 82; 124; 70; 124; 49; 124; 49; 47; 50; 41; 92; 90];
   [92; 65; 92; 100; 43; 92; 46; 92; 90];
   [91; 39; 33; 63; 93; 43; 36];
   [92; 65; 40; 91; 67; 70; 83; 93; 63; 41; 40; 91; 49; 45; 56; 93; 63; 41; 40; 91; 97; 45; 104; 93; 41; 40; 91; 49; 45; 56; 93; 41;
    40; 91; 60; 62; 43; 45; 93; 63; 41; 40; 91; 49; 45; 56; 93; 42; 41; 91; 67; 70; 83; 93; 63; 92; 90]].

Lemma tie_regexes : Consts.ptn_regexes = model_regexes.
Proof. reflexivity. Qed.
