From Coq Require Import ZArith List Bool Lia.
From TV Require gen.Consts.
From TV Require Import model.Tak proofs.ListUtil spec.MoveSpec proofs.Table proofs.MoveId.
Import ListNotations.
Open Scope Z_scope.

Lemma counts_tie :
  Consts.n_moves_for_size = map (fun n => zlen (table n)) [0; 1; 2; 3; 4; 5; 6] /\
  Consts.MAX_MOVE_ID = zlen (table 6).
Proof. split; vm_compute; reflexivity. Qed.

Lemma ids_fit n : 3 <= n <= 6 -> zlen (table n) <= Consts.MAX_MOVE_ID.
Proof.
  intros H. assert (Hn : n = 3 \/ n = 4 \/ n = 5 \/ n = 6) by lia.
  destruct Hn as [Hn|[Hn|[Hn|Hn]]]; subst n; vm_compute; discriminate.
Qed.

Lemma bijection n : 0 <= n ->
  (forall i, 0 <= i < zlen (table n) -> exists m, decode_move n i = Some m /\ wf_move n m /\ encode_move n m = Some i) /\
  (forall m, wf_move n m -> exists i, 0 <= i < zlen (table n) /\ encode_move n m = Some i /\ decode_move n i = Some m) /\
  (forall m i, encode_move n m = Some i <-> decode_move n i = Some m).
Proof.
  intros Hn. split; [|split].
  - intros i Hi. destruct (decode_move_total n i Hn Hi) as (m & Hd & Hwf).
    exists m. split; [assumption|split; [assumption|]]. apply decode_encode_move. assumption.
  - intros m Hwf. destruct (encode_move_total n m Hn Hwf) as (i & Hi & He).
    exists i. split; [assumption|split; [assumption|]]. apply encode_decode_move. assumption.
  - intros m i. split; [apply encode_decode_move|apply decode_encode_move].
Qed.

Example wf_move_nonvacuous :
  wf_move 5 (mkMove 2 2 SlideUp (Some [1; 1])) /\ ~ wf_move 5 (mkMove 2 2 SlideUp (Some [1; 1; 1])) /\
  wf_move 3 (mkMove 0 2 PlaceCapstone None) /\ encode_move 5 (mkMove 2 2 SlideUp (Some [1; 1])) = Some 766.
Proof.
  split; [|split; [|split]].
  - unfold wf_move; simpl. split; [lia|split; [lia|]]. exists [1; 1].
    split; [reflexivity|]. split; [|simpl; lia]. split; [congruence|]. split; [repeat constructor; lia|simpl; lia].
  - intros (_ & _ & s & E & _ & _ & H). simpl in E. injection E as <-. simpl in H. lia.
  - unfold wf_move; simpl. split; [lia|split; [lia|reflexivity]].
  - vm_compute. reflexivity.
Qed.
