(* moves.ALL_SLIDES: the drop sequences of a board size are exactly the
   non-empty sequences of positive drops with total at most the size, each once. *)
From Coq Require Import ZArith List Bool Lia.
From TV Require Import model.Tak proofs.ListUtil.
Import ListNotations.
Open Scope Z_scope.

Definition good_slide (n : Z) (s : list Z) : Prop :=
  s <> [] /\ Forall (fun d => 1 <= d) s /\ zsum s <= n.

Lemma slides_fuel_spec : forall f n s, (n <= f)%nat ->
  (In s (slides_fuel f n) <-> good_slide (Z.of_nat n) s).
Proof.
  induction f as [|f IH]; intros n s Hf.
  - assert (n = 0%nat) by lia; subst. simpl. split; [tauto|].
    intros (Hne & Hall & Hs). destruct s as [|d s]; [congruence|].
    inversion Hall as [|? ? Hd Hrest]; subst. exfalso.
    assert (0 <= zsum s).
    { clear -Hrest. induction Hrest; simpl; [lia|]. unfold zsum in *. simpl. lia. }
    unfold zsum in *. simpl in Hs. lia.
  - cbn [slides_fuel]. rewrite in_flat_map. split.
    + intros (i & Hi & Hin). apply in_seq in Hi. destruct Hin as [Hin|Hin].
      * subst s. repeat split; [congruence| constructor; [lia|constructor] | unfold zsum; simpl; lia].
      * apply in_map_iff in Hin. destruct Hin as (t & <- & Ht).
        apply IH in Ht; [|lia]. destruct Ht as (Hne & Hall & Hs).
        repeat split; [congruence | constructor; [lia|assumption] | unfold zsum in *; simpl; lia].
    + intros (Hne & Hall & Hs). destruct s as [|d t]; [congruence|].
      inversion Hall as [|? ? Hd Ht]; subst. unfold zsum in Hs. simpl in Hs. fold (zsum t) in Hs.
      assert (0 <= zsum t).
      { clear -Ht. induction Ht; unfold zsum in *; simpl; lia. }
      exists (Z.to_nat d). split; [apply in_seq; lia|].
      rewrite Z2Nat.id by lia.
      destruct t as [|e t'].
      * left; reflexivity.
      * right. apply in_map. apply IH; [lia|].
        repeat split; [congruence | assumption | lia].
Qed.

Theorem all_slides_spec n s : In s (all_slides n) <-> good_slide (Z.of_nat n) s.
Proof. apply slides_fuel_spec; lia. Qed.

Lemma slides_fuel_nonempty f n s : In s (slides_fuel f n) -> s <> [].
Proof.
  destruct f as [|f]; simpl; [tauto|]. rewrite in_flat_map. intros (i & _ & [<-|H]); [congruence|].
  apply in_map_iff in H. destruct H as (t & <- & _). congruence.
Qed.

Lemma slides_fuel_nodup : forall f n, NoDup (slides_fuel f n).
Proof.
  induction f as [|f IH]; intros n; cbn [slides_fuel]; [constructor|].
  apply NoDup_flat_map.
  - apply seq_NoDup.
  - intros i _. constructor.
    + intro Hin. apply in_map_iff in Hin. destruct Hin as (t & Heq & Ht).
      injection Heq as ->. apply slides_fuel_nonempty in Ht. congruence.
    + apply NoDup_map_inj; [|apply IH]. intros a b _ _ H. injection H. auto.
  - intros a b x _ _ Ha Hb.
    assert (Hhd : forall i t, In t ([Z.of_nat i] :: map (cons (Z.of_nat i)) (slides_fuel f (n - i))) ->
                              hd 0 t = Z.of_nat i).
    { intros i t [<-|H]; [reflexivity|]. apply in_map_iff in H. destruct H as (u & <- & _). reflexivity. }
    apply Hhd in Ha. apply Hhd in Hb. lia.
Qed.

Theorem all_slides_nodup n : NoDup (all_slides n).
Proof. apply slides_fuel_nodup. Qed.
